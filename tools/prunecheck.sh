#!/bin/bash
# tools/prunecheck.sh <Cxx>... : runs the quick tier with and without the explorer's state cache and
# compares the sets of outcome classes and failure signatures (they must be identical).
cd /verif
for c in "$@"; do
  for np in 0 1; do
    VERIF_NOPRUNE=$np VERIF_NO_EVIDENCE=1 ./run $c ${TIER:-quick} > /tmp/prunecheck.$c.$np.log 2>&1
    cp /tmp/verif-scratch-out/evidence/$c.json /tmp/prunecheck.$c.$np.json
  done
  python3 - "$c" <<'PY'
import json,sys
c=sys.argv[1]
a=json.load(open(f'/tmp/prunecheck.{c}.0.json'))['coverage']; b=json.load(open(f'/tmp/prunecheck.{c}.1.json'))['coverage']
oa,ob=set(a.get('outcome_classes',{})),set(b.get('outcome_classes',{}))
fa,fb=set(a.get('failure_signatures',[])),set(b.get('failure_signatures',[]))
print(c,'executions pruned/unpruned',a['evaluations'],b['evaluations'],'outcome classes',len(oa),len(ob),'SAME' if oa==ob else 'DIFFERENT '+str(oa^ob),'| failures','SAME' if fa==fb else 'DIFFERENT '+str(fa^fb))
PY
done
