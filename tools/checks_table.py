NA = {}
chk("C07", "model_checking",
    "Every byte string up to a length bound over a class-representative alphabet, and every composition of parts up to a length bound, is run through the real parser and compared with a hand-written grammar; the space is finite and enumerated completely, so within the alphabet/length bound the grammar, totality (no panic), error contract and round trip are decided, not sampled.",
    "Trusted: the reference grammar transcribed from the property statement; bytes outside the alphabet are assumed to behave like their class representative; lengths above the bound are not covered.",
    "bounded-exhaustive input enumeration vs reference grammar (explicit enumeration, no sampling)", "DESIGN.md §3 C07")
