NA = {}
chk("C07", "model_checking",
    "Every byte string up to a length bound over a class-representative alphabet, and every composition of parts up to a length bound, is run through the real parser and compared with a hand-written grammar; the space is finite and enumerated completely, so within the alphabet/length bound the grammar, totality (no panic), error contract and round trip are decided, not sampled.",
    "Trusted: the reference grammar transcribed from the property statement; bytes outside the alphabet are assumed to behave like their class representative; lengths above the bound are not covered.",
    "bounded-exhaustive input enumeration vs reference grammar (explicit enumeration, no sampling)", "DESIGN.md §3 C07")
chk("C06", "model_checking",
    "Every assignment of the eight version-gated features to positions (spec level, device k of n<=3), every device permutation and a domain of declared version strings are built as real specs-go values and compared with a literal feature->version table; the finite space is enumerated completely.",
    "Trusted: the table transcribed from the statement/SPEC.md; more than 3 devices and v-prefixed version strings (no-panic only) are outside the oracle.",
    "bounded-exhaustive enumeration of feature placements x permutations x versions vs table model", "DESIGN.md §3 C06")
chk("C15", "model_checking",
    "Every plugin/id string over a 12-class alphabet up to a length bound, every length split around the 63-character limit, every device list up to length 3 and six initial maps go through UpdateAnnotations/ParseAnnotations; success results are judged by an independent Kubernetes key rule and by parsing back, failures by map identity. Complete enumeration of the stated finite space.",
    "Trusted: independent annotation-key rule and name grammar; no completeness oracle (the statement allows refusal).",
    "bounded-exhaustive input enumeration vs reference rules", "DESIGN.md §3 C15")
chk("C05", "model_checking",
    "Deviation-bounded exhaustive sweep: ~300 (quick) / several thousand (thorough) well-formed base documents over the combinations of optional members, and every single defect of each kind the statement lists at every position (spec level, first/middle/last device, first/last list element; thorough adds all defect pairs on a core), rendered as JSON and YAML and pushed through ParseSpec, ReadSpec, cache load and WriteSpec; verdicts compared with an independent validator over the document tree.",
    "Trusted: the reference validator (refmodel.SpecTree) transcribed from the statement, cross-checked against the generator's intent on every run (disagreement = exit 2). Documents the statement does not settle (null for optional members, scalar-for-string coercions, v-prefixed versions) are checked for crashes only. YAML renderings that do not denote the same tree for the reader are skipped and counted.",
    "deviation-bounded exhaustive enumeration of documents vs reference validator", "DESIGN.md §3 C05")
chk("C08", "model_checking",
    "Every member position of the document model x an 18-value type-confusion domain (single deviations; thorough adds pairs), every byte string up to length 3/4 over 29 structural bytes, and a set of stress documents are pushed through every reading entry point, the schema validators and - when they load - injection into six OCI spec shapes; the same documents are also loaded by the background refresh goroutine of an auto-refresh cache in worker subprocesses whose death is attributed to the document in flight. Complete enumeration of the stated finite space; oracle = no panic / process alive / error entry for files that do not load.",
    "Trusted: panic detection by recover() in-process and by process exit for the watcher goroutine; hang detection is a 90 s watchdog that aborts with exit 2 (infrastructure), not an oracle. Inputs outside the confusion domain / byte alphabet / length bound are not covered.",
    "deviation-bounded exhaustive enumeration of malformed inputs; crash oracle incl. subprocess isolation for the watcher goroutine", "DESIGN.md §3 C08")
chk("C02", "model_checking",
    "Eight (thorough: sixteen) cache populations with shadowing across two directories and spec-level edits present/absent per file x every ordered selection of distinct resolvable devices up to length 4 (5) x initial OCI specs; each edit list carries provenance-unique and mutually colliding entries so order and multiplicity are observable. The injected result is compared with one application of an independently composed edit list; complete enumeration of that space.",
    "Trusted: the composition rule transcribed from the statement; the real ContainerEdits.Apply is used once for the expected value, as the statement is worded (Apply is C03's subject). More files/devices than enumerated are not covered.",
    "bounded-exhaustive enumeration of request sequences vs composition model", "DESIGN.md §3 C02")
chk("C03", "model_checking",
    "Ten dimensions (4 of the initial OCI spec, 6 of the edit list, incl. repeated names/paths/destinations and real b/c/p host nodes made with mknod) are combined - quick: all pairs of dimensions against two defaults plus the process x linux x device-node triples; thorough: the full product (~29 M points) - through ContainerEdits.Apply, Device.ApplyEdits and Spec.ApplyEdits, and compared with a straight-line reference transformer that does not use the OCI generator.",
    "Trusted: the reference transformer (refmodel.ApplyEdits) and the normalisation (nil = empty; env by name, devices by path, GIDs as set). Initial specs with duplicate keys, type 'u', and failed applications' partial results are outside the oracle.",
    "bounded-exhaustive enumeration of (OCI spec, edit list) pairs vs reference transformer", "DESIGN.md §3 C03")
chk("C04", "model_checking",
    "One cache with resolvable, conflict-removed and conflict-over-shadowed devices x every request list up to length 3 (4) with repetitions over 10 request kinds x initial OCI specs incl. nil; oracle = error, exact unresolved list in order, OCI spec deep- and JSON-identical to its copy. Complete enumeration of that space.",
    "Trusted: which names resolve in the fixed population (cross-checked against the cache at start, exit 2 on disagreement).",
    "bounded-exhaustive enumeration of request lists; before/after comparison", "DESIGN.md §3 C04")
