#!/usr/bin/env python3
"""tools/mkmutant.py <name> <repo-relative-file> <<< JSON [{"old": "...", "new": "..."} ...]
Creates /verif/mutants/<name>.diff from textual replacements in /repo (working tree is restored)."""
import json, subprocess, sys
name, rel = sys.argv[1], sys.argv[2]
edits = json.load(sys.stdin)
p = '/repo/' + rel
s = open(p).read()
orig = s
for e in edits:
    if s.count(e['old']) != 1:
        print("old text occurs", s.count(e['old']), "times:", e['old'][:60]); sys.exit(1)
    s = s.replace(e['old'], e['new'])
open(p, 'w').write(s)
d = subprocess.run(['git', '-C', '/repo', 'diff'], capture_output=True, text=True).stdout
open(p, 'w').write(orig)
open(f'/verif/mutants/{name}.diff', 'w').write(d)
print(d)
