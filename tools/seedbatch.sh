#!/bin/bash
# tools/seedbatch.sh <suffix> <Cxx[:check,check...]>...   e.g. seedbatch.sh e C01:C01,C11 C02 C03
# Runs tools/seedtest.sh for the sub-agent worktrees /tmp/seed/<Cxx><suffix>, five at a time; the
# demonstration command is derived from the untracked seeded_demo* file in the worktree.
SUF=$1; shift
E="export GOFLAGS=-mod=mod GOPROXY=off GOSUMDB=off GOTOOLCHAIN=local;"
run() {
  spec=$1; id=${spec%%:*}; checks=${spec#*:}; [ "$checks" = "$spec" ] && checks=$id
  wt=/tmp/seed/$id$SUF
  f=$(cd "$wt" && git status --porcelain | grep '^??' | awk '{print $2}' | grep -E 'seeded_demo[^/]*(_test\.go|\.sh)$' | head -1)
  if [ -z "$f" ]; then echo "##### $id$SUF: no demonstration file found" > /tmp/seed/$id$SUF.res; return; fi
  d=$(dirname "$f")
  if [[ "$f" == *.sh ]]; then demo="$E cd $d && sh ./$(basename $f)"
  else
    m=$d; while [ "$m" != "." ] && [ ! -f "$wt/$m/go.mod" ]; do m=$(dirname "$m"); done
    rel=${d#$m}; rel=${rel#/}; [ "$m" = "." ] && rel=$d
    race=""; [ "$id" = C12 ] && race="-race"
    demo="$E cd $m && go test $race -vet=off -count=1 -timeout 300s -run Seeded ./$rel"
  fi
  /verif/tools/seedtest.sh $id$SUF "$demo" ${checks//,/ } > /tmp/seed/$id$SUF.res 2>&1
}
n=0
for spec in "$@"; do
  run "$spec" &
  n=$((n+1)); if [ $((n % 5)) = 0 ]; then wait; fi
done
wait
for spec in "$@"; do id=${spec%%:*}; echo "##### $id$SUF"; grep -v "^WARNING" /tmp/seed/$id$SUF.res | grep -v '^FAIL$\|^---' | cut -c1-${WIDTH:-300}; done
