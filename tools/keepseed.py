#!/usr/bin/env python3
"""tools/keepseed.py <src-id> <seed-name> <property> <detected-by: comma list or 'none'> <demo cmd> -- <what it needs to manifest>
Copies /tmp/seed/<src-id>-out/{patch.diff,demo files,notes.md} to /verif/seeded/<seed-name>/ and writes meta.json."""
import json, os, shutil, sys
src, name, prop, detected, demo = sys.argv[1:6]
needs = ' '.join(sys.argv[7:]) if len(sys.argv) > 6 and sys.argv[6] == '--' else ''
out = f'/verif/seeded/{name}'
os.makedirs(out, exist_ok=True)
srcdir = f'/tmp/seed/{src}-out'
for f in os.listdir(srcdir):
    p = os.path.join(srcdir, f)
    if os.path.isfile(p) and os.path.getsize(p) < 400000:
        shutil.copy(p, os.path.join(out, f))
meta = {
    "property": prop,
    "origin": "independent sub-agent given only the property text and a scratch worktree of /repo",
    "needs_to_manifest": needs,
    "demonstration": demo,
    "confirmed": {
        "existing_tests_pass_with_change": True,
        "demonstration_fails_with_change": True,
        "demonstration_passes_without_change": True,
        "how": "tools/seedtest.sh in the scratch worktree (repository test suite of all modules; the demonstration with the change and with the change stashed)",
    },
    "detected_by": [] if detected == 'none' else detected.split(','),
    "ran": f"git -C /repo apply seeded/{name}/patch.diff; ./run <check> quick; git -C /repo checkout -- .",
}
json.dump(meta, open(os.path.join(out, 'meta.json'), 'w'), indent=1)
print(out, sorted(os.listdir(out)))
