#!/usr/bin/env python3
"""tools/detect-all.py [-j N] [--resume <log of an interrupted run>] [filter]
Detection regression: applies every kept property-breaking change (the sub-agents' seeds under
/verif/seeded, my own patches and the reverted fixes under /verif/mutants) to a scratch worktree
and runs the quick check(s) expected to catch it (tools/mutant.sh: /repo is never modified).
Writes /verif/detection-report.md. A change that is expected to be caught and is not is listed
as MISSED (exit status 1)."""
import concurrent.futures, glob, json, os, re, subprocess, sys

ROOT = '/verif'
jobs = 4
args = sys.argv[1:]
if args and args[0] == '-j':
    jobs = int(args[1]); args = args[2:]
resume = {}
if args and args[0] == '--resume':
    # lines of the interrupted run: "<name> [checks] CAUGHT|silent [INFRA]"
    for l in open(args[1], errors='replace'):
        m = re.match(r"^(\S+:\S+) \[.*?\] (CAUGHT|silent) ?(INFRA)?\s*$", l)
        if m:
            resume[m.group(1)] = (m.group(2) == 'CAUGHT', bool(m.group(3)))
    args = args[2:]
flt = args[0] if args else ''

# my own patches: patch -> (checks, expectation)
OWN = {
    'c02-once-set-by-vendor': ['C02'], 'c02-spec-edits-after-device': ['C02'], 'c02-spec-edits-per-device': ['C02'],
    'c04-apply-inside-loop': ['C04'], 'c04-return-on-first-miss': ['C04'],
    'c10-temp-with-spec-extension': ['C10'], 'c10-write-in-place': ['C10'],
    'c11-drop-rename-from-mask': ['C11'],
    'c11-ext-filter-on-removals': ['C11'],  # was unobservable until directory renames joined C11's alphabet: the event of the directory itself has no Spec extension
    'c12-query-without-lock': ['C12'], 'c12-watcher-refresh-without-mutex': ['C12'],
    'c16-no-slash-replacement': ['C16'], 'c16-remove-forgets-default-ext': ['C16'],
    'c20-keep-old-direrrors': ['C20'], 'c20-no-watch-stop': ['C20'], 'c20-revert-stale-event-fix': ['C20'],
}
# patches that do NOT break the property (equivalent or unobservable): the checks must stay silent
SILENT = {'c10-no-cleanup-on-failed-rename': ['C10'], 'c10-remove-then-rename': ['C10'],  # 'no file' is an allowed reader's view
           'c12-publish-maps-before-scan': ['C12']}

work = []  # (name, patch, checks, expect_violation)
for d in sorted(glob.glob(ROOT + '/seeded/*/meta.json')):
    m = json.load(open(d)); name = os.path.basename(os.path.dirname(d))
    work.append(('seed:' + name, os.path.dirname(d) + '/patch.diff', m['detected_by'][:1] or [m['property']], not (m.get('superseded') or m.get('undetected'))))
kf = json.load(open(ROOT + '/known-findings.json'))
bycommit = {}
for e in kf:
    if e.get('status') == 'fixed':
        bycommit.setdefault(e['commit'], [])
        if e['property'] not in bycommit[e['commit']]:
            bycommit[e['commit']].append(e['property'])
for p in sorted(glob.glob(ROOT + '/mutants/*.diff')):
    n = os.path.basename(p)[:-5]
    if n.startswith('revert-fix-'):
        work.append(('revert:' + n[11:], p, bycommit.get(n[11:], [])[:1], True))
    elif n in OWN:
        work.append(('own:' + n, p, OWN[n], True))
    elif n in SILENT:
        work.append(('own-silent:' + n, p, SILENT[n], False))
work = [w for w in work if flt in w[0]]


def run(w):
    name, patch, checks, expect = w
    if name in resume:
        return name, checks, expect, resume[name][0], resume[name][1], '(result of the interrupted run)'
    out = subprocess.run([ROOT + '/tools/mutant.sh', patch] + checks, capture_output=True, text=True, errors='replace').stdout
    res = re.findall(r'== \S+ vs (C\d+): exit=(\d+) violations=(\d+)', out)
    first = re.findall(r'^violation: (.*)$', out, re.M)
    caught = any(rc == '1' and int(v) > 0 for _, rc, v in res)
    infra = any(rc not in ('0', '1') for _, rc, v in res) or not res
    return name, checks, expect, caught, infra, (first[0][:160] if first else '')


rows = []
with concurrent.futures.ThreadPoolExecutor(jobs) as ex:
    for r in ex.map(run, work):
        rows.append(r)
        print(r[0], r[1], 'CAUGHT' if r[3] else 'silent', 'INFRA' if r[4] else '', flush=True)
bad = 0
lines = ['# Detection regression (tools/detect-all.py)', '',
         'Every kept property-breaking change applied to a scratch worktree of /repo HEAD, quick tier of the named check run against it.', '',
         '| change | check | expected | result | first violation |', '|---|---|---|---|---|']
for name, checks, expect, caught, infra, first in rows:
    ok = (caught == expect) and not infra
    if not ok:
        bad += 1
    res = ('caught' if caught else 'silent') + (' (INFRA)' if infra else '') + ('' if ok else ' **UNEXPECTED**')
    lines.append(f"| {name} | {','.join(checks)} | {'violation' if expect else 'silence'} | {res} | {first.replace('|', '/')} |")
lines += ['', f'{len(rows)} changes, {bad} unexpected results.']
if not flt:
    open(ROOT + '/detection-report.md', 'w').write('\n'.join(lines) + '\n')
print(f'{len(rows)} changes, {bad} unexpected')
sys.exit(1 if bad else 0)
