#!/bin/bash
# Runs the repository's own test suite (all modules) on a tree (default /repo); prints pass/fail counts.
ROOT=${1:-/repo}
export GOFLAGS=-mod=mod GOPROXY=off GOSUMDB=off GOTOOLCHAIN=local
fail=0; pass=0
for m in . cmd/cdi cmd/validate schema specs-go; do
  out=$(cd "$ROOT/$m" && go test -json -vet=off -count=1 -timeout 25m ./... 2>&1)
  p=$(echo "$out" | grep -c '"Action":"pass".*"Test"')
  f=$(echo "$out" | grep -c '"Action":"fail"')
  pass=$((pass+p)); fail=$((fail+f))
  if [ "$f" != 0 ]; then echo "$out" | grep '"Action":"fail"' | head -5; echo "$out" | grep -v '^{' | head -20; fi
done
echo "baseline: pass=$pass fail=$fail"
[ "$fail" = 0 ]
