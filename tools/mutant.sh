#!/bin/bash
# tools/mutant.sh [-b] <patch.diff> <Cxx> [<Cyy> ...]
# Applies a patch to a scratch worktree of /repo's HEAD (outside /repo and /verif), optionally runs
# the repository's tests there (-b), runs the quick checks against it from a scratch copy of
# /verif (VERIF_REPO, see mc/goenv.sh), reports which ones raise VIOLATION, and removes both.
# /repo itself is never modified.
BASE=0
if [ "$1" = "-b" ]; then BASE=1; shift; fi
PATCH=$(realpath "$1"); shift
N=$(basename "$PATCH" .diff).$$
WT=/tmp/mut/$N; SV=/tmp/mut/$N.verif
mkdir -p /tmp/mut
git -C /repo worktree add -q --detach "$WT" HEAD || exit 2
cleanup() { git -C /repo worktree remove --force "$WT" >/dev/null 2>&1; rm -rf "$WT" "$SV"; git -C /repo worktree prune; }
trap cleanup EXIT
(cd "$WT" && git apply "$PATCH") || { echo "patch does not apply"; exit 2; }
if [ $BASE = 1 ]; then /verif/tools/baseline.sh "$WT" || echo "NOTE: baseline tests FAIL with this patch"; fi
mkdir -p "$SV"
rsync -a --exclude .git --exclude .bin --exclude .overlay --exclude .altmod --exclude evidence --exclude replays /verif/ "$SV/"
for id in "$@"; do
  out=$(cd "$SV" && VERIF_REPO=$WT VERIF_NO_EVIDENCE=1 ./run "$id" ${TIER:-quick} 2>&1); rc=$?
  v=$(echo "$out" | grep -c '^VIOLATION')
  echo "== $(basename "$PATCH") vs $id: exit=$rc violations=$v"
  echo "$out" | grep -E '^(violation:|INFRA|KNOWN)' | head -${SHOW:-3} | cut -c1-300
done
