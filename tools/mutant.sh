#!/bin/bash
# tools/mutant.sh [-b] <patch.diff> <Cxx> [<Cyy> ...]
# Applies a patch to /repo, optionally runs the repository's tests (-b), runs the quick checks,
# reports which ones raise VIOLATION, and restores /repo.
BASE=0
if [ "$1" = "-b" ]; then BASE=1; shift; fi
PATCH=$(realpath "$1"); shift
cd /repo || exit 2
if ! git diff --quiet; then echo "/repo has uncommitted changes; refusing"; exit 2; fi
git apply "$PATCH" || { echo "patch does not apply"; exit 2; }
trap 'git -C /repo checkout -- . >/dev/null 2>&1' EXIT
if [ $BASE = 1 ]; then /verif/tools/baseline.sh || echo "NOTE: baseline tests FAIL with this patch"; fi
for id in "$@"; do
  out=$(cd /verif && VERIF_NO_EVIDENCE=1 ./run "$id" ${TIER:-quick} 2>&1); rc=$?
  v=$(echo "$out" | grep -c '^VIOLATION')
  echo "== $(basename "$PATCH") vs $id: exit=$rc violations=$v"
  echo "$out" | grep -E '^(violation:|INFRA|KNOWN)' | head -${SHOW:-3}
done
