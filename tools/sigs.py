#!/usr/bin/env python3
"""Summarise failure signatures / outcome classes of an evidence file: tools/sigs.py C05"""
import json, re, collections, sys
pid = sys.argv[1]
e = json.load(open(f'/verif/evidence/{pid}.json'))
cov = e['coverage']
c = collections.Counter()
for s in cov.get('failure_signatures', []):
    if len(sys.argv) < 3:
        s = re.sub(r'@[^:+]*', '', s)
    c[s] += 1
for k, v in sorted(c.items()):
    print(v, k)
print({k: v for k, v in cov.items() if k not in ('samples', 'outcome_classes', 'failure_signatures', 'rule')})
if '-o' in sys.argv:
    print(cov['outcome_classes'])
