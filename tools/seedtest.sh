#!/bin/bash
# tools/seedtest.sh <Cxx> "<demo go test command run in the worktree>" <check ids...>
# Confirms a sub-agent's seeded change in its scratch worktree /tmp/seed/<Cxx> (existing tests
# pass with it; the demonstration fails with it and passes without it), then runs the given
# checks against that worktree (VERIF_REPO) from a scratch copy of /verif: /repo is not touched,
# so this can run next to other checks. SKIPCONFIRM=1 skips the confirmation part.
ID=$1; DEMO=$2; shift 2
WT=/tmp/seed/$ID; OUT=/tmp/seed/$ID-out
export GOFLAGS=-mod=mod GOPROXY=off GOSUMDB=off GOTOOLCHAIN=local
cd "$WT" || exit 2
if [ -z "$SKIPCONFIRM" ]; then
echo "--- existing tests with the change (demonstration files moved aside)"
mkdir -p /tmp/seed/$ID.aside
for f in $(git status --porcelain | grep '^??' | awk '{print $2}' | grep '_test.go$'); do mkdir -p "/tmp/seed/$ID.aside/$(dirname $f)"; mv "$f" "/tmp/seed/$ID.aside/$f"; done
/verif/tools/baseline.sh "$WT" | tail -2
(cd /tmp/seed/$ID.aside && find . -type f | while read f; do mv "$f" "$WT/$f"; done)
echo "--- demo WITH the change (must fail)"
( eval "$DEMO" ) > /tmp/seed/$ID.demo-with.log 2>&1; echo "exit=$?"; tail -3 /tmp/seed/$ID.demo-with.log | cut -c1-200
echo "--- demo WITHOUT the change (must pass)"
git apply -R "$OUT/patch.diff" || { echo "cannot revert the patch in the worktree"; exit 2; }
( eval "$DEMO" ) > /tmp/seed/$ID.demo-without.log 2>&1; echo "exit=$?"; tail -2 /tmp/seed/$ID.demo-without.log | cut -c1-200
git apply "$OUT/patch.diff"
fi
# the checks run against /repo's CURRENT head plus the change (the sub-agent's worktree may be older)
HW=/tmp/seed/$ID.head
git -C /repo worktree remove --force "$HW" >/dev/null 2>&1; rm -rf "$HW"
if git -C /repo worktree add -q --detach "$HW" HEAD && (cd "$HW" && git apply "$OUT/patch.diff"); then WT=$HW; else echo "NOTE: patch does not apply to the current head; using the sub-agent's worktree"; fi
echo "--- checks against the change (scratch copy of /verif, VERIF_REPO=$WT)"
SV=/tmp/seed/$ID.verif
mkdir -p "$SV"
rsync -a --delete --exclude .git --exclude .bin --exclude .overlay --exclude .altmod --exclude evidence --exclude replays "${VERIF_SRC:-/verif}/" "$SV/"
unset GOFLAGS
for c in "$@"; do
  out=$(cd "$SV" && VERIF_REPO=$WT VERIF_NO_EVIDENCE=1 ./run "$c" ${TIER:-quick} 2>&1); rc=$?
  echo "== $ID vs $c: exit=$rc violations=$(echo "$out" | grep -c '^VIOLATION')"
  echo "$out" | grep -E '^(violation:|INFRA)' | head -${SHOW:-3} | cut -c1-300
done
rm -rf "$SV"
git -C /repo worktree remove --force "$HW" >/dev/null 2>&1; rm -rf "$HW"; git -C /repo worktree prune
