#!/usr/bin/env python3
"""tools/kf.py <property> <known|fixed> <commit-or-> <signature> <note...>  — append to known-findings.json"""
import json, sys
prop, status, commit, sig = sys.argv[1:5]
note = ' '.join(sys.argv[5:])
k = json.load(open('/verif/known-findings.json'))
e = {"property": prop, "status": status, "signature": sig}
if commit != '-':
    e["commit"] = commit
    note = f"fixed: property={prop} {commit} {note}" if status == 'fixed' else note
e["note"] = note
k = [x for x in k if not (x["property"] == prop and x["signature"] == sig)]
k.append(e)
json.dump(k, open('/verif/known-findings.json', 'w'), indent=1)
print(len(k), "entries")
