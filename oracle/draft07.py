#!/usr/bin/env python3
"""Independent JSON-Schema draft-07 verdicts for CDI documents.

usage: python3-vt draft07.py <schema_dir> <docs.jsonl> <verdicts.jsonl>

Reads the shipped schema files (schema.json, defs.json) from <schema_dir> (the current
/repo/schema), validates every document (one JSON value per line) with jsonschema's
Draft7Validator and writes one line per document: {"valid": bool, "errors": n}.
If the schema files themselves do not load/resolve, exits with status 3.
"""
import json, sys, os
from multiprocessing import Pool

import jsonschema
from jsonschema import Draft7Validator
from referencing import Registry, Resource
from referencing.jsonschema import DRAFT7

_validator = None


def build(schema_dir):
    with open(os.path.join(schema_dir, "schema.json")) as f:
        schema = json.load(f)
    with open(os.path.join(schema_dir, "defs.json")) as f:
        defs = json.load(f)
    Draft7Validator.check_schema(schema)
    base = "file:///schema.json"
    reg = Registry().with_resources([
        (base, Resource(contents=schema, specification=DRAFT7)),
        ("file:///defs.json", Resource(contents=defs, specification=DRAFT7)),
    ])
    # the schema has no $id: give it the base URI the Go side uses, so that the relative
    # reference "defs.json#/definitions/..." resolves next to it
    schema = dict(schema)
    schema["$id"] = base
    return Draft7Validator(schema, registry=reg)


def init(schema_dir):
    global _validator
    _validator = build(schema_dir)


def verdict(line):
    doc = json.loads(line)
    try:
        errs = list(_validator.iter_errors(doc))
    except Exception as e:  # unresolvable reference etc.: the schema files are broken
        return json.dumps({"valid": None, "oracle_error": repr(e)[:300]})
    return json.dumps({"valid": len(errs) == 0, "errors": len(errs), "first": (errs[0].message[:160] if errs else "")})


def main():
    schema_dir, docs, out = sys.argv[1:4]
    try:
        init(schema_dir)
        # sanity: {} must be invalid (required members)
        if not list(_validator.iter_errors({})):
            print("oracle: shipped schema accepts {}", file=sys.stderr)
    except Exception as e:
        print("oracle: cannot load the shipped schema files:", repr(e), file=sys.stderr)
        sys.exit(3)
    with open(docs) as f:
        lines = f.readlines()
    if len(lines) > 2000:
        with Pool(min(16, os.cpu_count() or 1), initializer=init, initargs=(schema_dir,)) as p:
            res = p.map(verdict, lines, chunksize=256)
    else:
        res = [verdict(l) for l in lines]
    with open(out, "w") as f:
        f.write("\n".join(res) + "\n")


if __name__ == "__main__":
    main()
