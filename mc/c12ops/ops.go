// Package c12ops holds the operation bodies and the admissible-result oracle shared by the
// two halves of C12: the schedule explorer (built through the overlay) and the free-running
// race-detector pass (built with -race from the unmodified sources). It only uses the public
// API of the cache, so it compiles in both builds.
package c12ops

import (
	"fmt"
	"os"
	"path/filepath"
	"sort"
	"strings"

	oci "github.com/opencontainers/runtime-spec/specs-go"
	"tags.cncf.io/container-device-interface/pkg/cdi"
	specs "tags.cncf.io/container-device-interface/specs-go"
)

const Kind = "vendor.com/class"

func spec(marker string, devs ...string) []byte {
	var ds []string
	for _, d := range devs {
		ds = append(ds, fmt.Sprintf(`{"name":%q,"containerEdits":{"env":["SRC_%s=%s"]}}`, d, d, marker))
	}
	// annotations with prefixed keys (another prefix per file): loading or writing a Spec goes
	// through the annotation validation helpers as well
	return []byte(fmt.Sprintf(`{"cdiVersion":"0.6.0","kind":%q,"annotations":{"%s.example.com/note":"n","%s.example.com/other":"o","plain":"p"},"containerEdits":{"env":["SPEC_%s=1"]},"devices":[%s]}`, Kind, strings.ToLower(marker), strings.ToLower(marker), marker, strings.Join(ds, ",")))
}

// World: two directories; d1/multi.json switches atomically (one rename) between state A
// {a1,a2,a3} and state B {b1,b2,b3}; unchanging files in both directories make a half-built
// index distinguishable from A and from B.
type World struct {
	Root       string
	D0, D1     string
	D2         string // configured with the lowest priority, missing at the start: created and removed by the directory operations
	Multi      string // d1/multi.json
	PreparedB  string // outside/multi-b.json, renamed over Multi by Switch
}

func Setup(root string) *World {
	w := &World{Root: root, D0: filepath.Join(root, "d0"), D1: filepath.Join(root, "d1"), D2: filepath.Join(root, "d2")}
	_ = os.RemoveAll(root)
	for _, d := range []string{w.D0, w.D1, filepath.Join(root, "outside")} {
		_ = os.MkdirAll(d, 0o755)
	}
	w.Multi = filepath.Join(w.D1, "multi.json")
	w.PreparedB = filepath.Join(root, "outside", "multi-b.json")
	_ = os.WriteFile(filepath.Join(w.D0, "keep0.json"), spec("keep0", "keep0", "a1"), 0o644) // a1 here is shadowed in state A, visible in state B
	// named to sort AFTER the temporary file a writer creates in this directory (spec.*.tmp): a scan
	// that gives up at a vanished entry loses it
	_ = os.WriteFile(filepath.Join(w.D1, "zkeep1.json"), spec("keep1", "keep1"), 0o644)
	_ = os.WriteFile(w.Multi, spec("A", "a1", "a2", "a3"), 0o644)
	_ = os.WriteFile(w.PreparedB, spec("B", "b1", "b2", "b3"), 0o644)
	return w
}

func q(d string) string { return Kind + "=" + d }

// Admissible listings.
var (
	DevicesA = []string{q("a1"), q("a2"), q("a3"), q("keep0"), q("keep1")}
	DevicesB = []string{q("a1"), q("b1"), q("b2"), q("b3"), q("keep0"), q("keep1")}
)

// Result of one operation: Obs is a canonical observation, Bad is a description of an
// inadmissible (mixed / half-built) result.
type Result struct {
	Op  string
	Obs string
	Bad string
}

func eq(a, b []string) bool {
	if len(a) != len(b) {
		return false
	}
	for i := range a {
		if a[i] != b[i] {
			return false
		}
	}
	return true
}

// Ops: name -> body. Bodies only use the public API.
type Op struct {
	Name  string
	Query bool // its result is judged against the two admissible states
	Run   func(w *World, c *cdi.Cache) Result
}

func markerOf(d *cdi.Device) string {
	if d == nil || len(d.ContainerEdits.Env) == 0 {
		return "nil"
	}
	return d.ContainerEdits.Env[0]
}

func All() []Op {
	return []Op{
		{"ListDevices", true, func(w *World, c *cdi.Cache) Result {
			var l []string
			for _, d := range c.ListDevices() {
				if !strings.HasPrefix(d, "other.org/") { // the Spec written by the WriteSpec operation is not part of the two states
					l = append(l, d)
				}
			}
			sort.Strings(l)
			r := Result{Op: "ListDevices", Obs: fmt.Sprint(l)}
			if !eq(l, DevicesA) && !eq(l, DevicesB) {
				r.Bad = fmt.Sprintf("ListDevices = %v is neither state A %v nor state B %v", l, DevicesA, DevicesB)
			}
			return r
		}},
		{"GetDevice", true, func(w *World, c *cdi.Cache) Result {
			// a1 is defined by multi.json in state A (SRC_a1=A) and only by keep0.json in state B (SRC_a1=keep0)
			m := markerOf(c.GetDevice(q("a1")))
			r := Result{Op: "GetDevice", Obs: m}
			if m != "SRC_a1=A" && m != "SRC_a1=keep0" {
				r.Bad = "GetDevice(a1) resolves to " + m + ", neither state A's nor state B's definition"
			}
			return r
		}},
		{"ListVendors+GetVendorSpecs", true, func(w *World, c *cdi.Cache) Result {
			var v []string
			for _, x := range c.ListVendors() {
				if x != "other.org" {
					v = append(v, x)
				}
			}
			var paths []string
			for _, s := range c.GetVendorSpecs("vendor.com") {
				paths = append(paths, filepath.Base(s.GetPath())+":"+fmt.Sprint(len(s.Devices)))
			}
			sort.Strings(paths)
			// a result handed out belongs to the caller: it must not change when the cache moves on
			// (another lock operation gives a concurrent refresh the chance to run in between)
			held := c.GetVendorSpecs("vendor.com")
			var before []string
			for _, s := range held {
				before = append(before, fmt.Sprintf("%p:%s:%d", s, s.GetPath(), len(s.Devices)))
			}
			_ = c.GetSpecDirectories()
			_ = c.GetSpecDirectories()
			var after []string
			for _, s := range held {
				after = append(after, fmt.Sprintf("%p:%s:%d", s, s.GetPath(), len(s.Devices)))
			}
			if !eq(before, after) {
				return Result{Op: "GetVendorSpecs", Obs: fmt.Sprint(v, paths), Bad: fmt.Sprintf("the slice returned by GetVendorSpecs changed after it was returned (%d entries; other Spec objects or contents)", len(before))}
			}
			r := Result{Op: "GetVendorSpecs", Obs: fmt.Sprint(v, paths)}
			want := []string{"keep0.json:2", "multi.json:3", "zkeep1.json:1"}
			if !eq(v, []string{"vendor.com"}) || !eq(paths, want) {
				r.Bad = fmt.Sprintf("vendors %v / Spec files %v differ from both states (%v)", v, paths, want)
			}
			return r
		}},
		{"InjectDevices", true, func(w *World, c *cdi.Cache) Result {
			o := &oci.Spec{}
			unres, err := c.InjectDevices(o, q("a1"), q("a2"), q("a3"), q("keep1"))
			env := []string{}
			if o.Process != nil {
				env = o.Process.Env
			}
			r := Result{Op: "InjectDevices", Obs: fmt.Sprint(unres, err != nil, env)}
			okA := err == nil && len(unres) == 0 && contains(env, "SRC_a1=A") && contains(env, "SRC_a2=A") && contains(env, "SRC_a3=A") && contains(env, "SPEC_A=1") && contains(env, "SRC_keep1=keep1") && len(env) == 6
			okB := err != nil && eq(unres, []string{q("a2"), q("a3")}) && len(env) == 0
			if !okA && !okB {
				r.Bad = fmt.Sprintf("InjectDevices(a1,a2,a3,keep1): unresolved %v, err %v, env %v - a mixture of the two states", unres, err, env)
			}
			return r
		}},
		// a request whose second device exists in state B only (and whose first is defined by another
		// file there): state A refuses it, state B resolves both - a1 from A's file next to b1 is neither
		{"InjectDevices(a1,b1)", true, func(w *World, c *cdi.Cache) Result {
			o := &oci.Spec{}
			unres, err := c.InjectDevices(o, q("a1"), q("b1"))
			env := []string{}
			if o.Process != nil {
				env = o.Process.Env
			}
			r := Result{Op: "InjectDevices(a1,b1)", Obs: fmt.Sprint(unres, err != nil, env)}
			okA := err != nil && eq(unres, []string{q("b1")}) && len(env) == 0
			okB := err == nil && len(unres) == 0 && eq(env, []string{"SPEC_keep0=1", "SRC_a1=keep0", "SPEC_B=1", "SRC_b1=B"})
			if !okA && !okB {
				r.Bad = fmt.Sprintf("InjectDevices(a1,b1): unresolved %v, err %v, env %v - a mixture of the two states", unres, err, env)
			}
			return r
		}},
		{"Refresh", false, func(w *World, c *cdi.Cache) Result {
			_ = c.Refresh()
			return Result{Op: "Refresh"}
		}},
		{"Switch+Refresh", false, func(w *World, c *cdi.Cache) Result {
			w.Switch()
			_ = c.Refresh()
			return Result{Op: "Switch+Refresh"}
		}},
		{"Configure(dirs)", false, func(w *World, c *cdi.Cache) Result {
			_ = c.Configure(cdi.WithSpecDirs(w.Dirs()...))
			return Result{Op: "Configure(dirs)"}
		}},
		{"Configure(auto)", false, func(w *World, c *cdi.Cache) Result {
			_ = c.Configure(cdi.WithAutoRefresh(true))
			return Result{Op: "Configure(auto)"}
		}},
		{"WriteSpec", false, func(w *World, c *cdi.Cache) Result {
			raw := &specs.Spec{Version: "0.6.0", Kind: "other.org/k", Annotations: map[string]string{"written.example.org/by": "WriteSpec", "written.example.org/n": "1"}, Devices: []specs.Device{{Name: "w", ContainerEdits: specs.ContainerEdits{Env: []string{"W=1"}}}}}
			err := c.WriteSpec(raw, "written")
			return Result{Op: "WriteSpec", Obs: fmt.Sprint(err)}
		}},
		// the same switch from state A to state B as Switch+Refresh, but made through the library's own
		// writer: WriteSpec must publish the new multi.json in one step as well
		{"WriteSpec(state B)", false, func(w *World, c *cdi.Cache) Result {
			err := c.WriteSpec(SpecB(), "multi.json")
			return Result{Op: "WriteSpec(state B)", Obs: fmt.Sprint(err)}
		}},
		{"RemoveSpec", false, func(w *World, c *cdi.Cache) Result {
			err := c.RemoveSpec("written")
			return Result{Op: "RemoveSpec", Obs: fmt.Sprint(err)}
		}},
		{"GetErrors", false, func(w *World, c *cdi.Cache) Result {
			e := c.GetErrors()
			for _, s := range c.GetVendorSpecs("vendor.com") {
				_ = c.GetSpecErrors(s)
			}
			return Result{Op: "GetErrors", Obs: fmt.Sprint(len(e))}
		}},
		{"GetSpecDirErrors", false, func(w *World, c *cdi.Cache) Result {
			e := c.GetSpecDirErrors()
			return Result{Op: "GetSpecDirErrors", Obs: fmt.Sprint(len(e))}
		}},
		{"SetSpecValidator", false, func(w *World, c *cdi.Cache) Result {
			cdi.SetSpecValidator(nil)
			return Result{Op: "SetSpecValidator"}
		}},
		{"GetSpecDirectories", false, func(w *World, c *cdi.Cache) Result {
			d := c.GetSpecDirectories()
			return Result{Op: "GetSpecDirectories", Obs: fmt.Sprint(len(d))}
		}},
		// a configured directory appears (a query then registers its watch and clears its error
		// entry) and disappears again (the watcher goroutine records the removal)
		// the same directory replaced the usual way: renamed aside and the moved directory deleted at once
		// (the watcher goroutine gets the rename event of a directory whose watch is gone already)
		{"Mkdir(d2)+ListDevices+MoveAside(d2)+Delete", false, func(w *World, c *cdi.Cache) Result {
			_ = MkdirFn(w.D2, 0o755)
			n := len(c.ListDevices())
			moved := filepath.Join(w.Root, "outside", "d2-moved-aside")
			_ = RenameFn(w.D2, moved)
			_ = RemoveFn(moved)
			_ = c.ListDevices()
			return Result{Op: "Mkdir(d2)+ListDevices+MoveAside(d2)+Delete", Obs: fmt.Sprint(n > 0)}
		}},
		{"Mkdir(d2)+ListDevices+Rmdir(d2)", false, func(w *World, c *cdi.Cache) Result {
			_ = MkdirFn(w.D2, 0o755)
			n := len(c.ListDevices())
			_ = RemoveFn(w.D2)
			_ = c.ListDevices()
			return Result{Op: "Mkdir(d2)+ListDevices+Rmdir(d2)", Obs: fmt.Sprint(n > 0)}
		}},
	}
}

// SpecB is the content of multi.json in state B, as a Spec to be written through the cache.
func SpecB() *specs.Spec {
	sp := &specs.Spec{Version: "0.6.0", Kind: Kind, Annotations: map[string]string{"b.example.com/note": "n", "b.example.com/other": "o"}, ContainerEdits: specs.ContainerEdits{Env: []string{"SPEC_B=1"}}}
	for _, d := range []string{"b1", "b2", "b3"} {
		sp.Devices = append(sp.Devices, specs.Device{Name: d, ContainerEdits: specs.ContainerEdits{Env: []string{"SRC_" + d + "=B"}}})
	}
	return sp
}

func contains(l []string, x string) bool {
	for _, s := range l {
		if s == x {
			return true
		}
	}
	return false
}

// Dirs is the directory list the caches of the scenarios are configured with.
func (w *World) Dirs() []string { return []string{w.D2, w.D0, w.D1} }

// RenameFn, MkdirFn, RemoveFn are overridden by the explorer build to go through the environment model.
var RenameFn = os.Rename
var MkdirFn = os.Mkdir
var RemoveFn = os.Remove

// Switch atomically replaces multi.json (state A) by the prepared state-B file.
func (w *World) Switch() {
	_ = RenameFn(w.PreparedB, w.Multi)
}
