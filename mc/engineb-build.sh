#!/bin/bash
# [OUT=<binary name>] engineb-build.sh <check-dir-name> [extra go build flags]: builds an Engine B check through the overlay
set -e
. "$(dirname "$(realpath "$0")")/goenv.sh"
HERE=$(dirname "$(realpath "$0")")
ROOT=$(realpath "$HERE/..")
C=$1; shift
mkdir -p "$ROOT/.bin" "$ROOT/.overlay"
(cd "$HERE" && go run ./overlaygen "$VERIF_REPO" "$HERE/_shim" "$ROOT/.overlay/$C" >/dev/null)
(cd "$HERE" && go build -overlay "$ROOT/.overlay/$C/overlay.json" "$@" -o "$ROOT/.bin/${OUT:-$C}" "./checks/$C")
