// C11 — with auto-refresh the cache converges to the directory contents by itself.
// Engine B: histories of directory changes (bounded depth) on [d0 present, d1 missing] run in
// a harness thread next to the real cache's watcher goroutine and the virtual fsnotify reader;
// every pacing of the three within the preemption bound, under an eager and a lazy default
// order. After the history the system is drained to quiescence and queried twice; the second
// answers must equal those of a fresh manual cache on the final tree. The virtual
// inotify/fsnotify model is validated against the real fsnotify on every explored history, and
// violations of the default schedules are confirmed on the unmodified build before reporting.
package main

import (
	"bytes"
	"encoding/json"
	"fmt"
	"os"
	"os/exec"
	"path/filepath"
	"reflect"
	"runtime/debug"
	"sort"
	"strconv"
	"strings"
	"time"

	"tags.cncf.io/container-device-interface/pkg/cdi"
	"tags.cncf.io/container-device-interface/verifshim/sched"
	"tags.cncf.io/container-device-interface/verifshim/vfs"
	"tags.cncf.io/container-device-interface/verifshim/vfsnotify"
	"tags.cncf.io/container-device-interface/verifshim/vsync"
	"verif/mc/dirmodel"
	"verif/mc/explore"
	"verif/mc/fsops"
	"verif/mc/hx"
)

type modelFS struct{}

func (modelFS) WriteFile(p string, d []byte, m os.FileMode) error { return vfs.WriteFile(p, d, m) }
func (modelFS) Rename(o, n string) error                          { return vfs.Rename(o, n) }
func (modelFS) Remove(p string) error                             { return vfs.Remove(p) }
func (modelFS) RemoveAll(p string) error                          { return vfs.RemoveAll(p) }
func (modelFS) Mkdir(p string, m os.FileMode) error               { return vfs.Mkdir(p, m) }
func (modelFS) Link(o, n string) error                            { return vfs.Link(o, n) }
func (modelFS) Symlink(o, n string) error                         { return vfs.Symlink(o, n) }
func (modelFS) CreateEmpty(p string) error                        { return vfs.CreateEmpty(p) }

// configured directories: d0 exists at the start, d1 is created / removed by the histories, d2
// never exists (a configured directory that stays missing next to one that appears late)
var dirs = []string{"d0", "d1", "d2"}

// opDirs: the directories the operations of the alphabet work in
var opDirs = []string{"d0", "d1"}
var present = []string{"d0"}

type Case struct {
	History  []fsops.Op `json:"history"`
	Eager    bool       `json:"eager_default_order"`
	Choices  []int      `json:"choices"`
	Schedule []string   `json:"schedule,omitempty"`
	Racing   bool       `json:"history_concurrent_with_cache_creation,omitempty"`
	Between  bool       `json:"queries_after_every_operation,omitempty"`
}

var scratch string

func setupTree(root string) {
	_ = os.RemoveAll(root)
	_ = os.MkdirAll(filepath.Join(root, "outside"), 0o755)
	for _, d := range present {
		_ = os.MkdirAll(filepath.Join(root, d), 0o755)
	}
}

// enumerate valid histories up to depth (every op applicable when it is performed)
func histories(depth int) [][]fsops.Op {
	alpha := fsops.Alphabet(opDirs, []string{"d1", "d0"})
	var out [][]fsops.Op
	root := filepath.Join(scratch, "enum")
	var rec func(cur []fsops.Op)
	rec = func(cur []fsops.Op) {
		if len(cur) == depth {
			return
		}
		for _, op := range alpha {
			// replay cur + op on a scratch tree to test applicability
			setupTree(root)
			ok := true
			for i, o := range append(append([]fsops.Op{}, cur...), op) {
				if err := fsops.Apply(fsops.RealFS{}, root, o, i); err != nil {
					ok = false
					break
				}
			}
			if !ok {
				continue
			}
			h := append(append([]fsops.Op{}, cur...), op)
			out = append(out, h)
			rec(h)
		}
	}
	rec(nil)
	_ = os.RemoveAll(root)
	return out
}

func eqSorted(a, b []string) bool {
	a, b = append([]string{}, a...), append([]string{}, b...)
	sort.Strings(a)
	sort.Strings(b)
	return len(a) == len(b) && (len(a) == 0 || reflect.DeepEqual(a, b))
}

func configured(root string) (paths []string, set map[string]bool) {
	set = map[string]bool{}
	for _, d := range dirs {
		p := filepath.Join(root, d)
		paths = append(paths, p)
		set[p] = true
	}
	return
}

func same(a, b dirmodel.Observation, dirSet map[string]bool) (bool, string, string) {
	fileErrs := func(o dirmodel.Observation) []string {
		var e []string
		for _, p := range o.ErrPaths {
			if !dirSet[p] {
				e = append(e, filepath.Base(filepath.Dir(p))+"/"+filepath.Base(p))
			}
		}
		return e
	}
	if !reflect.DeepEqual(a.Devices, b.Devices) && !(len(a.Devices) == 0 && len(b.Devices) == 0) {
		return false, "devices", fmt.Sprintf("devices %v, a fresh cache lists %v", a.Devices, b.Devices)
	}
	if !reflect.DeepEqual(a.Paths, b.Paths) || !reflect.DeepEqual(a.Markers, b.Markers) {
		return false, "definitions", fmt.Sprintf("definitions %v, a fresh cache has %v", a.Markers, b.Markers)
	}
	if !eqSorted(a.Vendors, b.Vendors) {
		return false, "vendors", fmt.Sprintf("vendors %v, a fresh cache lists %v", a.Vendors, b.Vendors)
	}
	if !eqSorted(a.Classes, b.Classes) {
		return false, "classes", fmt.Sprintf("classes %v, a fresh cache lists %v", a.Classes, b.Classes)
	}
	if !reflect.DeepEqual(a.Specs, b.Specs) && !(len(a.Specs) == 0 && len(b.Specs) == 0) {
		return false, "vendor-specs", fmt.Sprintf("Spec files per vendor %v, a fresh cache has %v", a.Specs, b.Specs)
	}
	ea, eb := fileErrs(a), fileErrs(b)
	if !reflect.DeepEqual(ea, eb) && !(len(ea) == 0 && len(eb) == 0) {
		return false, "errors", fmt.Sprintf("files in error %v, a fresh cache reports %v", ea, eb)
	}
	return true, "", ""
}

// scenario: the cache is created, then the history happens (racing: the history is performed by
// a second thread while NewCache runs: a change landing anywhere between the initial scan of a
// directory and the registration of its watch), then quiescence, queries and probes.
// between: the cache is also queried (all listings) after every operation of the history, at
// quiescence: whatever a query leaves behind must not survive the next change.
func scenario(h []fsops.Op, eager bool, preempt int, racing, between bool) *explore.Scenario {
	sc := &explore.Scenario{Name: fmt.Sprint(h), Eager: eager, Bounds: explore.Bounds{Preemptions: preempt, Faults: 1}, MaxSteps: 50000}
	sc.New = func() *explore.Instance {
		root := filepath.Join(scratch, "x")
		setupTree(root)
		vw := vfs.Reset(root)
		vw.OverflowReports = true // one environment answer more: an overflow report of an earlier burst (costs a fault deviation)
		paths, dirSet := configured(root)
		var obs1, obs2 dirmodel.Observation
		var getOnly, getWant map[string]string
		var getNames []string
		var applyErr error
		var probed, probeSeen []string
		in := &explore.Instance{Names: []string{"main"}}
		in.Threads = []func(){func() {
			var cache *cdi.Cache
			history := func() {
				for i, op := range h {
					if err := fsops.Apply(modelFS{}, root, op, i); err != nil {
						applyErr = fmt.Errorf("%s: %w", op, err)
						return
					}
					if between && i < len(h)-1 {
						sched.Quiesce("operation done")
						_ = dirmodel.Observe(cache)
						sched.Quiesce("queries after the operation done")
					}
				}
			}
			if racing {
				changerDone := false
				sched.Go("changer", false, 0, func() {
					history()
					sched.Touch(&changerDone)
					changerDone = true
				})
				cache, _ = cdi.NewCache(cdi.WithSpecDirs(paths...))
				sched.Block("join changer", func() bool { return changerDone })
				sched.Touch(&changerDone)
			} else {
				cache, _ = cdi.NewCache(cdi.WithSpecDirs(paths...))
				history()
			}
			if applyErr != nil {
				return
			}
			sched.Quiesce("history done")
			// first, what a caller sees that only ever asks for the devices it needs (GetDevice, no
			// listing): two rounds, as below
			// - and only for names that resolve in the final tree (a lookup that misses rescans)
			ref, _ := cdi.NewCache(cdi.WithSpecDirs(paths...), cdi.WithAutoRefresh(false))
			getNames = dirmodel.Resolved(ref)
			getWant = dirmodel.GetOnly(ref, getNames)
			_ = dirmodel.GetOnly(cache, getNames)
			sched.Quiesce("first GetDevice-only queries done")
			getOnly = dirmodel.GetOnly(cache, getNames)
			obs1 = dirmodel.Observe(cache)
			sched.Quiesce("first queries done")
			obs2 = dirmodel.Observe(cache)
			// probe: the cache must still be watching every configured directory that exists now
			for _, d := range dirs {
				if _, err := os.Stat(filepath.Join(root, d)); err == nil {
					_ = vfs.WriteFile(filepath.Join(root, d, "probe.json"), []byte(`{"cdiVersion":"0.5.0","kind":"probe.org/`+d+`","devices":[{"name":"p","containerEdits":{"env":["P=1"]}}]}`), 0o644)
					probed = append(probed, "probe.org/"+d+"=p")
				}
			}
			sched.Quiesce("probes written")
			_ = cache.ListDevices()
			sched.Quiesce("probe query")
			probeSeen = cache.ListDevices()
		}}
		in.Check = func(e *sched.Exec) (string, string, any) {
			if applyErr != nil {
				return "harness-op-failed", "a history operation failed in the model: " + applyErr.Error(), nil
			}
			for _, d := range dirs {
				_ = os.Remove(filepath.Join(root, d, "probe.json"))
			}
			fresh, _ := cdi.NewCache(cdi.WithSpecDirs(paths...), cdi.WithAutoRefresh(false))
			fo := dirmodel.Observe(fresh)
			if fg := getWant; getOnly != nil && !reflect.DeepEqual(getOnly, fg) {
				for _, q := range getNames {
					if getOnly[q] != fg[q] {
						return "not-converged:GetDevice-only:after-" + h[len(h)-1].Kind, fmt.Sprintf("after %v and quiescence the second round of GetDevice(%s) (no other query made) returns %s, a fresh cache %s", h, q, strings.TrimPrefix(getOnly[q], root), strings.TrimPrefix(fg[q], root)), nil
					}
				}
			}
			for _, p := range probed {
				seen := false
				for _, q := range probeSeen {
					seen = seen || q == p
				}
				if !seen {
					return "not-converged:probe-not-seen:after-" + h[len(h)-1].Kind, fmt.Sprintf("after %v and quiescence a Spec written to a configured directory (%s) never becomes visible: the directory is no longer watched", h, p), nil
				}
			}
			if ok, what, detail := same(obs2, fo, dirSet); !ok {
				return "not-converged:" + what + ":after-" + h[len(h)-1].Kind, fmt.Sprintf("after %v and quiescence the second round of queries returns %s", h, detail), nil
			}
			return "", "", nil
		}
		in.Observe = func() string {
			ok, _, _ := same(obs1, obs2, dirSet)
			return fmt.Sprintf("devices=%v first-round-already-converged=%v", obs2.Devices, ok)
		}
		return in
	}
	return sc
}

// modelEvents: the set of event sequences the model's fsnotify can deliver for a history with
// a barrier after every operation, over all schedules of the reader relative to the system
// calls inside one operation (e.g. write-temp + rename: whether the reader gets to the temp
// file's events before the rename decides whether fsnotify still finds the file).
func modelEvents(h []fsops.Op) []string {
	var seq []string
	sc := &explore.Scenario{Name: "events", Eager: true, Bounds: explore.Bounds{Preemptions: 99}, MaxSteps: 50000, MaxExecs: 4000}
	sc.New = func() *explore.Instance {
		root := filepath.Join(scratch, "x")
		setupTree(root)
		vfs.Reset(root)
		seq = nil
		inapplicable := ""
		main := func() {
			w, err := vfsnotify.NewWatcher()
			if err != nil {
				panic(err)
			}
			for _, d := range dirs {
				_ = w.Add(filepath.Join(root, d))
			}
			vsync.Go("consumer", func() {
				for {
					ev, ok := vsync.Recv2(w.Events)
					if !ok {
						return
					}
					rel, _ := filepath.Rel(root, ev.Name)
					seq = append(seq, rel+":"+ev.Op.String())
				}
			})
			var steps []fsops.Op
			for _, op := range h {
				steps = append(steps, fsops.Steps(op)...)
			}
			for i, op := range steps {
				if err := fsops.Apply(modelFS{}, root, op, i); err != nil {
					inapplicable = "INAPPLICABLE:" + op.String()
					return
				}
				if op.Kind == "mkdir" || op.Kind == "mvdir-in" {
					_ = w.Add(filepath.Join(root, op.Dir))
				}
				sched.Quiesce("barrier")
				if op.Kind == "mvdir-away" {
					// as the cache does once it has seen the Rename event of a watched directory: drop the watch of the moved
					// directory (fsnotify 1.5.1 loses the path of a watch that is added again under a name it still knows)
					_ = w.Remove(filepath.Join(root, op.Dir))
				}
			}
			_ = w.Close()
		}
		return &explore.Instance{Threads: []func(){main}, Names: []string{"main"}, Observe: func() string {
			if inapplicable != "" {
				return inapplicable
			}
			return strings.Join(mergeAdjacent(seq), " ")
		}}
	}
	res := explore.Explore(sc, time.Now().Add(30*time.Second))
	var set []string
	for k := range res.Outcomes {
		set = append(set, k)
	}
	sort.Strings(set)
	if res.Capped {
		set = append(set, "CAPPED")
	}
	return set
}

func mergeAdjacent(s []string) []string {
	var o []string
	for i, x := range s {
		if i == 0 || x != s[i-1] {
			o = append(o, x)
		}
	}
	return o
}

type workerOut struct {
	Index      int                 `json:"index"`
	Eager      bool                `json:"eager"`
	Executions int64               `json:"executions"`
	Points     int64               `json:"points"`
	Outcomes   map[string]int64    `json:"outcomes"`
	Violations []explore.Violation `json:"violations"`
	Capped     bool                `json:"capped"`
	Infra      string              `json:"infra"`
	Events     []string            `json:"model_events"`
	Racing     bool                `json:"racing"`
	Between    bool                `json:"between"`
	Pruned     int64               `json:"pruned"`
	States     int64               `json:"states"`
}

func realHelper(mode string, in any, out any) error {
	inPath, outPath := filepath.Join(scratch, mode+"-in.json"), filepath.Join(scratch, mode+"-out.json")
	b, _ := json.Marshal(in)
	_ = os.WriteFile(inPath, b, 0o644)
	cmd := exec.Command(filepath.Join(hx.VerifRoot, ".bin", "c11real"), mode, inPath, outPath)
	if o, err := cmd.CombinedOutput(); err != nil {
		return fmt.Errorf("%v: %s", err, o)
	}
	ob, err := os.ReadFile(outPath)
	if err != nil {
		return err
	}
	return json.Unmarshal(ob, out)
}

// state-cache statistics of the explorer, summed over scenarios
var cutExecs, hbStates int64

func main() {
	explore.BeforeExec = []func(){cdi.VerifResetGlobals}
	for i, a := range os.Args {
		if a == "-worker" {
			debug.SetGCPercent(800)
			debug.SetMemoryLimit(2 << 30) // one of up to 16 worker processes: the collector works harder near 2 GiB instead of letting the heap grow to 9x the live data
			var err error
			scratch, err = os.MkdirTemp("/dev/shm", "verif-c11w-")
			if err != nil {
				scratch, _ = os.MkdirTemp("", "verif-c11w-")
			}
			parts := strings.Split(os.Args[i+1], "/")
			wi, _ := strconv.Atoi(parts[0])
			wn, _ := strconv.Atoi(parts[1])
			depth, _ := strconv.Atoi(os.Args[i+2])
			preempt, _ := strconv.Atoi(os.Args[i+3])
			dl, _ := strconv.ParseInt(os.Args[i+4], 10, 64)
			hs := histories(depth)
			raceLen := 2
			enc := json.NewEncoder(os.Stdout)
			for k, h := range hs {
				if k%wn != wi {
					continue
				}
				ev := modelEvents(h)
				for _, eager := range []bool{true, false} {
					res := explore.Explore(scenario(h, eager, preempt, false, false), time.Unix(dl, 0))
					_ = enc.Encode(workerOut{Index: k, Eager: eager, Executions: res.Executions, Points: res.Points, Outcomes: res.Outcomes, Violations: res.Violations, Capped: res.Capped, Infra: res.Infra, Events: ev, Pruned: res.Pruned, States: res.States})
					if len(h) >= 2 {
						// the same history with a full round of queries after every operation
						res := explore.Explore(scenario(h, eager, preempt, false, true), time.Unix(dl, 0))
						_ = enc.Encode(workerOut{Index: k, Eager: eager, Between: true, Executions: res.Executions, Points: res.Points, Outcomes: res.Outcomes, Violations: res.Violations, Capped: res.Capped, Infra: res.Infra, Events: ev, Pruned: res.Pruned, States: res.States})
					}
					if len(h) <= raceLen {
						// the same history concurrent with the creation of the cache
						p := preempt
						if p < 1 {
							p = 1
						}
						res := explore.Explore(scenario(h, eager, p, true, false), time.Unix(dl, 0))
						_ = enc.Encode(workerOut{Index: k, Eager: eager, Racing: true, Executions: res.Executions, Points: res.Points, Outcomes: res.Outcomes, Violations: res.Violations, Capped: res.Capped, Infra: res.Infra, Events: ev, Pruned: res.Pruned, States: res.States})
					}
				}
			}
			os.RemoveAll(scratch)
			return
		}
	}
	r := hx.Start("C11", "model_checking")
	var err error
	scratch, err = os.MkdirTemp("/dev/shm", "verif-c11-")
	if err != nil {
		scratch, _ = os.MkdirTemp("", "verif-c11-")
	}
	defer os.RemoveAll(scratch)
	die := func(code int, a ...any) {
		fmt.Println(a...)
		os.RemoveAll(scratch)
		os.Exit(code)
	}
	if r.Replay != "" {
		var c Case
		r.LoadReplay(&c)
		sc := scenario(c.History, c.Eager, 99, c.Racing, c.Between)
		_, _, v1 := explore.RunOnce(sc, c.Choices, true)
		_, _, v2 := explore.RunOnce(sc, c.Choices, true)
		os.RemoveAll(scratch)
		if (v1 == nil) != (v2 == nil) {
			fmt.Println("INFRA: replay is not deterministic")
			os.Exit(2)
		}
		if v1 != nil {
			fmt.Printf("replay: still FAILS: %s: %s\nVIOLATION property=C11 replay=(replayed)\n", v1.Sig, v1.Msg)
			os.Exit(1)
		}
		fmt.Println("replay: case passes now")
		os.Exit(0)
	}
	depth, preempt := 2, 1
	if r.Thorough() {
		depth, preempt = 3, 1
	}
	if s := os.Getenv("VERIF_C11_DEPTH"); s != "" {
		depth, _ = strconv.Atoi(s)
	}
	if s := os.Getenv("VERIF_C11_PREEMPT"); s != "" {
		preempt, _ = strconv.Atoi(s)
	}
	// recorded schedules of earlier findings are replayed first (cheap regression guard for
	// findings that need more depth or preemptions than the quick tier explores)
	regs, _ := filepath.Glob(filepath.Join(hx.VerifRoot, "regress", "C11-*.json"))
	replayed := 0
	for _, f := range regs {
		b, err := os.ReadFile(f)
		if err != nil {
			continue
		}
		var doc struct {
			Case Case `json:"case"`
		}
		if json.Unmarshal(b, &doc) != nil || len(doc.Case.History) == 0 {
			continue
		}
		e, _, v := explore.RunOnce(scenario(doc.Case.History, doc.Case.Eager, 99, doc.Case.Racing, doc.Case.Between), doc.Case.Choices, false)
		if e.Diverged != "" {
			continue // the code changed shape; the recorded schedule no longer applies
		}
		replayed++
		r.AddEvals(1, 1)
		if v != nil {
			r.Fail(&hx.Failure{Sig: v.Sig, Msg: v.Msg + " [recorded schedule " + filepath.Base(f) + "]", Case: doc.Case, Rank: 1})
		}
	}
	r.Extra["recorded_schedules_replayed"] = replayed
	hs := histories(depth)
	nw := 16
	results := make(chan workerOut, 4096)
	done := make(chan error, nw)
	for w := 0; w < nw; w++ {
		go func(w int) {
			cmd := exec.Command(os.Args[0], "-worker", fmt.Sprintf("%d/%d", w, nw), strconv.Itoa(depth), strconv.Itoa(preempt), strconv.FormatInt(r.Deadline.Unix(), 10))
			cmd.Stderr = os.Stderr
			out, err := cmd.Output()
			dec := json.NewDecoder(bytes.NewReader(out))
			for {
				var o workerOut
				if dec.Decode(&o) != nil {
					break
				}
				results <- o
			}
			done <- err
		}(w)
	}
	go func() {
		for w := 0; w < nw; w++ {
			if err := <-done; err != nil {
				fmt.Println("INFRA: worker failed:", err)
				os.Exit(2)
			}
		}
		close(results)
	}()
	modelEv := map[int][]string{}
	type found struct {
		v     explore.Violation
		h     []fsops.Op
		eager bool
		race  bool
		betw  bool
	}
	var violations []found
	passing := map[int]bool{}
	for o := range results {
		if o.Infra != "" {
			die(2, "INFRA:", o.Infra, "in history", hs[o.Index])
		}
		if o.Capped {
			r.Cap("time cap hit")
		}
		modelEv[o.Index] = o.Events
		r.AddEvals(o.Executions, o.Executions)
		cutExecs, hbStates = cutExecs+o.Pruned, hbStates+o.States
		r.Extra["executions_cut_at_an_explored_state"], r.Extra["happens_before_states_stored"] = cutExecs, hbStates
		r.States.Add(o.Points)
		r.Transitions.Add(o.Points)
		for k := range o.Outcomes {
			r.Outcome(k)
		}
		if len(o.Violations) == 0 {
			if _, seen := passing[o.Index]; !seen {
				passing[o.Index] = true
			}
		} else {
			passing[o.Index] = false
		}
		for _, v := range o.Violations {
			violations = append(violations, found{v, hs[o.Index], o.Eager, o.Racing, o.Between})
		}
	}
	// ---- conformance of the virtual fsnotify with the real one, on every history
	var idx []int
	for k := range modelEv {
		idx = append(idx, k)
	}
	sort.Ints(idx)
	in := map[string]any{"dirs": dirs, "present": present}
	var hl [][]fsops.Op
	for _, k := range idx {
		hl = append(hl, hs[k])
	}
	in["histories"] = hl
	var evOut struct {
		Sequences [][]string `json:"sequences"`
	}
	if err := realHelper("events", in, &evOut); err != nil {
		die(2, "INFRA: real fsnotify run failed:", err)
	}
	mism, cappedSets := 0, 0
	for i, k := range idx {
		real := strings.Join(mergeAdjacent(evOut.Sequences[i]), " ")
		member, capped := false, false
		for _, m := range modelEv[k] {
			if m == real {
				member = true
			}
			if m == "CAPPED" {
				capped = true
			}
		}
		if capped && !member {
			cappedSets++
			continue
		}
		if !member {
			mism++
			if mism <= 5 {
				fmt.Printf("INFRA: virtual fsnotify does not conform for history %v:\n  real : %v\n  model set: %q\n", hs[k], real, modelEv[k])
			}
		}
	}
	if mism > 0 {
		die(2, "INFRA:", mism, "histories with non-conforming event streams")
	}
	r.Traces.Add(int64(len(idx) - cappedSets))
	r.Extra["event_stream_sets_capped"] = cappedSets
	// ---- violations: those of a default schedule must be confirmed on the unmodified build
	confirmed, unconfirmed := 0, 0
	seenSig := map[string]bool{}
	for _, f := range violations {
		if seenSig[f.v.Sig] {
			continue
		}
		seenSig[f.v.Sig] = true
		deviations := 0
		for _, c := range f.v.Choices {
			if c != 0 {
				deviations++
			}
		}
		note := "needs a specific pacing (schedule in the replay file)"
		if f.race {
			note = "the history runs while the cache is being created (schedule in the replay file)"
		}
		if f.betw {
			note = "the cache is queried after every operation of the history (schedule in the replay file)"
		}
		if deviations == 0 && !f.race && !f.betw {
			var ro struct {
				Converged []bool   `json:"converged"`
				Detail    []string `json:"detail"`
			}
			// the unmodified build iterates over its maps in random order (the explorer's build in sorted
			// order): the history is replayed up to 8 times, one run that does not converge confirms
			for attempt := 0; attempt < 8; attempt++ {
				if err := realHelper("replay", map[string]any{"dirs": dirs, "present": present, "histories": [][]fsops.Op{f.h}, "deadline_ms": 3000, "probe": true, "get_only": strings.Contains(f.v.Sig, "GetDevice-only"), "pace_ms": map[bool]int{true: 30, false: 0}[f.eager]}, &ro); err != nil {
					if strings.Contains(err.Error(), "all goroutines are asleep - deadlock") || strings.Contains(err.Error(), "HUNG") {
						// the unmodified build does not even get to answer: its calls never return
						ro.Converged, ro.Detail = []bool{false}, []string{"the unmodified build deadlocks in this history (Go runtime: all goroutines are asleep, or no answer within the watchdog's time)"}
						break
					}
					die(2, "INFRA: real replay failed:", err)
				}
				if !ro.Converged[0] {
					break
				}
			}
			if ro.Converged[0] {
				unconfirmed++
				fmt.Printf("INFRA: model reports %s for %v under a default schedule, but the unmodified build converges: model error\n", f.v.Sig, f.h)
				continue
			}
			confirmed++
			note = "confirmed on the unmodified build with the real fsnotify: not converged after 3 s (" + ro.Detail[0] + ")"
		}
		r.Fail(&hx.Failure{Sig: f.v.Sig, Msg: f.v.Msg + " — " + note, Case: Case{History: f.h, Eager: f.eager, Choices: f.v.Choices, Schedule: f.v.Schedule, Racing: f.race, Between: f.betw}, Rank: int64(len(f.h)*1000 + len(f.v.Choices))})
	}
	if unconfirmed > 0 {
		die(2, "INFRA: violations not confirmed by the real replay:", unconfirmed)
	}
	// ---- a share of passing histories replayed end to end
	var sample [][]fsops.Op
	for _, k := range idx {
		if passing[k] && len(sample) < 40 && k%7 == 0 {
			sample = append(sample, hs[k])
		}
	}
	realPass := 0
	if len(sample) > 0 {
		var ro struct {
			Converged []bool `json:"converged"`
		}
		if err := realHelper("replay", map[string]any{"dirs": dirs, "present": present, "histories": sample, "deadline_ms": 5000, "probe": true}, &ro); err == nil {
			for _, c := range ro.Converged {
				if c {
					realPass++
				}
			}
		}
		r.Traces.Add(int64(len(sample)))
	}
	r.Extra["histories"] = len(idx)
	r.Extra["max_history_depth"] = depth
	r.Extra["preemption_bound"] = preempt
	r.Extra["event_streams_conforming_to_real_fsnotify"] = len(idx)
	r.Extra["violations_confirmed_on_unmodified_build"] = confirmed
	r.Extra["passing_histories_replayed_on_unmodified_build"] = fmt.Sprintf("%d of %d converged", realPass, len(sample))
	for i, k := range idx {
		if i%97 == 0 {
			r.AddSample(map[string]any{"history": hs[k], "model_events": modelEv[k]})
		}
	}
	r.Rule = fmt.Sprintf("histories = every applicable sequence of 1..%d operations over %d operations (write in place, temp+rename, move in, rename away, rename to a non-Spec name, unlink, hard link, symlink, empty create on d0/d1 with valid/invalid contents; mkdir / rm -r of the initially missing d1): %d histories; "+
		"for each, every pacing of {history thread, fsnotify reader, cache watcher goroutine} with <=%d preemptions under an eager and a lazy default order; evaluations = complete executions, states/transitions = choice points. "+
		"Oracle: after quiescence the second round of queries (devices, definitions, files in error) equals a fresh manual cache on the final tree. traces_validated_against_impl = histories whose model event stream equals the real fsnotify's (barrier after every operation) plus passing histories replayed on the unmodified build. "+
		"non-trivial = every execution", depth, len(fsops.Alphabet(opDirs, []string{"d1", "d0"})), len(idx), preempt)
	r.Assumptions = []string{"inotify queue overflow and renaming a Spec directory itself are out of bounds", "directory-level monitoring errors are not compared",
		"a violation that appears under a default schedule must be confirmed by a 3 s real replay on the unmodified build, otherwise the run is an infrastructure error"}
	os.RemoveAll(scratch)
	r.Finish()
}
