// C05 — a Spec is admitted iff well-formed per SPEC.md; any single defect rejects it.
// Deviation-bounded exhaustive sweep: every base document, every single defect at every
// position (thorough: pairs of defects on a core), in JSON and YAML, through ReadSpec,
// cache load and WriteSpec, against an independent validator over the document tree.
package main

import (
	"bytes"
	"encoding/json"
	"fmt"
	"os"
	"path/filepath"
	"reflect"
	"strings"
	"sync/atomic"

	sigsyaml "sigs.k8s.io/yaml"

	"tags.cncf.io/container-device-interface/pkg/cdi"
	specs "tags.cncf.io/container-device-interface/specs-go"
	"verif/mc/gen"
	"verif/mc/hx"
	"verif/mc/refmodel"
)

type Case struct {
	Base      string         `json:"base"`
	Mutations []gen.Mutation `json:"mutations"`
	Doc       any            `json:"document"`
	Model     string         `json:"model_verdict"`
	Reasons   []string       `json:"model_reasons,omitempty"`
}

type worker struct {
	dir   string // scratch: dir/load (cache directory), dir/write (WriteSpec target)
	cache *cdi.Cache
	wc    *cdi.Cache
}

func newWorker(root string, id int) *worker {
	w := &worker{dir: filepath.Join(root, fmt.Sprintf("w%d", id))}
	_ = os.MkdirAll(filepath.Join(w.dir, "load"), 0o755)
	_ = os.MkdirAll(filepath.Join(w.dir, "write"), 0o755)
	w.cache, _ = cdi.NewCache(cdi.WithSpecDirs(filepath.Join(w.dir, "load")), cdi.WithAutoRefresh(false))
	w.wc, _ = cdi.NewCache(cdi.WithSpecDirs(filepath.Join(w.dir, "write")), cdi.WithAutoRefresh(false))
	return w
}

var selfcheck = make(chan string, 64)

func (w *worker) eval(c Case) hx.Result {
	sigClass := "base"
	if len(c.Mutations) > 0 {
		var cl []string
		for _, m := range c.Mutations {
			cl = append(cl, m.Class)
		}
		sigClass = strings.Join(cl, "+")
	}
	return hx.Guard("", c, func() hx.Result {
		verdict, reasons := refmodel.SpecTree(c.Doc, gen.MinVersion)
		c.Model, c.Reasons = verdict, reasons
		if len(c.Mutations) == 1 {
			if e := c.Mutations[0].Expect; e != "" && verdict != refmodel.Unspecified && e != verdict {
				select {
				case selfcheck <- fmt.Sprintf("generator expects %s, validator says %s %v for %s at %s on %s", e, verdict, reasons, c.Mutations[0].Class, c.Mutations[0].Where, c.Base):
				default:
				}
			}
		}
		fail := func(entry, what string, act any) hx.Result {
			return hx.Result{Outcome: "FAIL", Nontrivial: true, Fail: &hx.Failure{
				Sig: entry + ":" + what + ":" + sigClass, Msg: fmt.Sprintf("%s %s a document the model calls %s %v [%s]", entry, what, verdict, reasons, sigClass),
				Case: c, Expected: verdict, Actual: act, Rank: int64(len(c.Base) + 1000*len(c.Mutations))}}
		}
		jsonData := gen.RenderJSON(c.Doc)
		encodings := []struct {
			ext  string
			data []byte
		}{{".json", jsonData}, {".yaml", gen.RenderYAML(c.Doc)}}
		for _, enc := range encodings {
			if enc.ext == ".yaml" && !faithfulYAML(enc.data, jsonData) {
				unfaithful.Add(1)
				continue // the YAML rendering does not denote the same tree for the reader: not a case
			}
			raw, perr := cdi.ParseSpec(enc.data)
			path := filepath.Join(w.dir, "load", "doc"+enc.ext)
			if err := os.WriteFile(path, enc.data, 0o644); err != nil {
				panic(err)
			}
			spec, rerr := cdi.ReadSpec(path, 0)
			if perr != nil && rerr == nil {
				return fail("ParseSpec"+enc.ext, "errors-but-ReadSpec-accepts", perr.Error())
			}
			_ = raw
			accepted := rerr == nil && spec != nil
			rfErr := w.cache.Refresh()
			errs := w.cache.GetErrors()
			_, hasErr := errs[path]
			devs := w.cache.ListDevices()
			_ = os.Remove(path)
			if verdict != refmodel.Unspecified {
				if accepted != (verdict == refmodel.Valid) {
					if accepted {
						return fail("ReadSpec"+enc.ext, "accepts", "accepted")
					}
					return fail("ReadSpec"+enc.ext, "rejects", rerr.Error())
				}
				cacheAccepted := !hasErr && len(devs) > 0 && rfErr == nil
				cacheRejected := hasErr && len(devs) == 0 && rfErr != nil
				if verdict == refmodel.Valid && !cacheAccepted {
					return fail("CacheLoad"+enc.ext, "rejects", fmt.Sprint(errs, devs, rfErr))
				}
				if verdict == refmodel.Invalid && !cacheRejected {
					return fail("CacheLoad"+enc.ext, "accepts-or-misreports", fmt.Sprint(errs, devs, rfErr))
				}
			}
		}
		// the writer: only documents representable in the Go types
		var gs specs.Spec
		dec := json.NewDecoder(bytes.NewReader(jsonData))
		dec.DisallowUnknownFields()
		if err := dec.Decode(&gs); err == nil && verdict != refmodel.Unspecified {
			werr := w.wc.WriteSpec(&gs, "out")
			out := filepath.Join(w.dir, "write", "out.yaml")
			_, statErr := os.Stat(out)
			_ = os.Remove(out)
			if (werr == nil) != (verdict == refmodel.Valid) {
				if werr == nil {
					return fail("WriteSpec", "accepts", "written")
				}
				return fail("WriteSpec", "rejects", werr.Error())
			}
			if werr != nil && statErr == nil {
				return fail("WriteSpec", "errors-but-leaves-file-for", "file exists")
			}
		}
		return hx.Result{Outcome: verdict + ":" + classOf(sigClass), Nontrivial: verdict != refmodel.Unspecified}
	})
}

var unfaithful atomic.Int64

// faithfulYAML reports whether the YAML text denotes, for the YAML reader the library uses,
// the same tree as the JSON text.
func faithfulYAML(y, j []byte) bool {
	yj, err := sigsyaml.YAMLToJSON(y)
	if err != nil {
		return false
	}
	var a, b any
	if json.Unmarshal(yj, &a) != nil || json.Unmarshal(j, &b) != nil {
		return false
	}
	return reflect.DeepEqual(a, b)
}

func classOf(s string) string {
	if i := strings.IndexByte(s, '@'); i >= 0 {
		return s[:i]
	}
	return s
}

func main() {
	r := hx.Start("C05", "model_checking")
	root, err := os.MkdirTemp("/dev/shm", "verif-c05-")
	if err != nil {
		root, _ = os.MkdirTemp("", "verif-c05-")
	}
	defer os.RemoveAll(root)
	if r.Replay != "" {
		var c Case
		r.LoadReplay(&c)
		c.Doc = normalise(c.Doc)
		res := newWorker(root, 0).eval(c)
		os.RemoveAll(root)
		hx.ReplayExit("C05", res)
	}
	level := 0
	if r.Thorough() {
		level = 1
	}
	bases := gen.Bases(level)
	only := os.Getenv("VERIF_ONLY") // debugging aid: restrict to one defect class
	if only != "" {
		r.Cap("VERIF_ONLY filter")
	}
	sizeClass := func(c string) bool {
		return strings.HasPrefix(c, "annotations-too-large") || strings.HasPrefix(c, "annotations-at-size")
	}
	// jobs are generated lazily inside the workers (the thorough space does not fit in memory as a list)
	type job struct {
		base  gen.Base
		bi    int
		pairI int // -1: the base and its single defects; >=0: row pairI of the defect-pair matrix of a core base
	}
	var jobs []job
	for bi, b := range bases {
		jobs = append(jobs, job{b, bi, -1})
	}
	if r.Thorough() {
		// all pairs of defects on a core of small bases
		core := []gen.Base{
			gen.MakeBase(false, "", []string{"env"}, false, "vendor.com/class", true),
			gen.MakeBase(true, "env", []string{"dnMin", "mountMin"}, true, "vendor.com/class", false),
			gen.MakeBase(false, "all", []string{"hook-prestart", "rdt", "gids"}, false, "v/c", false),
		}
		for _, b := range core {
			for i := range gen.Defects(b.Tree) {
				jobs = append(jobs, job{b, 0, i})
			}
		}
	}
	var singles, pairs atomic.Int64
	nw := 16
	workers := make(chan *worker, nw)
	for i := 0; i < nw; i++ {
		workers <- newWorker(root, i)
	}
	r.ParallelL(int64(len(jobs)), func(i int64, l *hx.Local) {
		w := <-workers
		defer func() { workers <- w }()
		jb := jobs[i]
		run := func(c Case) {
			res := w.eval(c)
			l.Record(res, func() any {
				return map[string]any{"base": c.Base, "mutations": c.Mutations, "outcome": res.Outcome}
			})
		}
		ds := gen.Defects(jb.base.Tree)
		if jb.pairI < 0 {
			if only == "" {
				run(Case{Base: jb.base.Name, Doc: jb.base.Tree})
			}
			for _, m := range ds {
				if sizeClass(m.Class) && jb.bi%8 != 0 {
					continue
				}
				if only != "" && !strings.Contains(m.Class, only) {
					continue
				}
				doc := gen.Apply(jb.base.Tree, m)
				gen.RaiseVersion(doc, []gen.Mutation{m})
				singles.Add(1)
				run(Case{Base: jb.base.Name, Mutations: []gen.Mutation{m}, Doc: doc})
			}
			return
		}
		a := ds[jb.pairI]
		if sizeClass(a.Class) || only != "" {
			return
		}
		for j := jb.pairI + 1; j < len(ds); j++ {
			b := ds[j]
			if sizeClass(b.Class) {
				continue
			}
			if a.Where == b.Where || strings.HasPrefix(b.Where, a.Where) || strings.HasPrefix(a.Where, b.Where) {
				continue // the second mutation would overwrite the first
			}
			pm := []gen.Mutation{a, b}
			pm[0].Expect, pm[1].Expect = "", ""
			doc := gen.Apply(jb.base.Tree, pm...)
			gen.RaiseVersion(doc, pm)
			pairs.Add(1)
			run(Case{Base: jb.base.Name, Mutations: pm, Doc: doc})
		}
	})
	// large documents (more than a MiB in both encodings): a well-formed one, and the same with one
	// defect in its LAST device - what a reader that looks at a prefix of the file would miss
	large := 0
	if only == "" && len(bases) > 0 {
		b := bases[0]
		var devs []any
		for i := 0; i < 9000; i++ {
			devs = append(devs, map[string]any{"name": fmt.Sprintf("dev%05d", i), "containerEdits": map[string]any{"env": []any{fmt.Sprintf("INDEX=%d", i), "PAD=" + strings.Repeat("x", 100)}}})
		}
		last := func(d map[string]any) []any { return append(append([]any{}, devs...), d) }
		variants := []struct {
			name string
			devs []any
		}{
			{"valid", last(map[string]any{"name": "last", "containerEdits": map[string]any{"env": []any{"A=b"}}})},
			{"last-device-duplicate-name", last(map[string]any{"name": "dev00000", "containerEdits": map[string]any{"env": []any{"A=b"}}})},
			{"last-device-empty-edits", last(map[string]any{"name": "last", "containerEdits": map[string]any{}})},
			{"last-device-env-without-equals", last(map[string]any{"name": "last", "containerEdits": map[string]any{"env": []any{"NOEQUALS"}}})},
			{"last-device-unknown-member", last(map[string]any{"name": "last", "containerEdits": map[string]any{"env": []any{"A=b"}}, "unknownMember": true})},
			{"last-device-invalid-name", last(map[string]any{"name": "-last", "containerEdits": map[string]any{"env": []any{"A=b"}}})},
		}
		w := <-workers
		for _, v := range variants {
			m := gen.Mutation{Class: "large-document:" + v.name, Path: gen.Path{"devices"}, Op: "set", Value: v.devs}
			res := w.eval(Case{Base: b.Name, Mutations: []gen.Mutation{{Class: m.Class}}, Doc: gen.Apply(b.Tree, m)})
			large++
			r.AddEvals(1, 1)
			r.Outcome(res.Outcome)
			if res.Fail != nil {
				res.Fail.Case = map[string]any{"base": b.Name, "large_document": v.name, "devices": len(v.devs)}
				r.Fail(res.Fail)
			}
		}
		workers <- w
	}
	r.Extra["large_documents"] = large
	r.Rule = fmt.Sprintf("%d well-formed base documents (combinations of optional members, 1-3 devices, every edit kind, exact-minimum and current versions, six kind spellings) "+
		"+ every single defect of the statement's kinds at every position (spec level, first/middle/last device, first/last list element): %d documents; %d defect pairs on a 3-base core; "+
		"each rendered as JSON and YAML and run through ParseSpec, ReadSpec, manual-cache Refresh+GetErrors+ListDevices, and WriteSpec when representable in the Go types. "+
		"plus 6 documents of 9001 devices (> 1 MiB), one valid and five with a defect in the last device. Oracle: independent validator over the document tree (refmodel.SpecTree). Distinct by construction; non-trivial = the model gives a definite verdict (valid/invalid)", len(bases), singles.Load(), pairs.Load())
	r.Assumptions = []string{"documents whose verdict the statement leaves open (null for an optional member, v-prefixed version, empty closID) are only checked for absence of panics",
		"kinds on which SPEC.md prose and the statement's grammar could differ are not generated", "member-name case variants and duplicate keys are not generated"}
	close(selfcheck)
	n := 0
	for s := range selfcheck {
		if n == 0 {
			fmt.Println("INFRA: generator and reference validator disagree (oracle self-check):")
		}
		fmt.Println("  ", s)
		n++
	}
	if n > 0 {
		os.RemoveAll(root)
		os.Exit(2)
	}
	r.Extra["bases"] = len(bases)
	r.Extra["single_defect_documents"] = singles.Load()
	r.Extra["defect_pair_documents"] = pairs.Load()
	r.Extra["encodings"] = 2
	r.Extra["yaml_renderings_skipped_as_unfaithful"] = unfaithful.Load()
	os.RemoveAll(root)
	r.Finish()
}

// normalise converts JSON-decoded replay trees (float64 numbers) back to the generator's shapes.
func normalise(v any) any {
	switch x := v.(type) {
	case map[string]any:
		for k, e := range x {
			x[k] = normalise(e)
		}
		return x
	case []any:
		for i, e := range x {
			x[i] = normalise(e)
		}
		return x
	case float64:
		if x == float64(int64(x)) && x > -9e15 && x < 9e15 {
			return int64(x)
		}
	}
	return v
}
