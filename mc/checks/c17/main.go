// C17 — the builtin schema validator decides exactly what the shipped schema files say.
// Documents: valid Specs and every single deviation (defects, type confusions, numeric
// boundary values) as JSON trees; oracle: jsonschema (Python, Draft7Validator) run on the
// current /repo/schema/*.json; every entry point and schema configuration is compared.
package main

import (
	"bytes"
	"encoding/json"
	"fmt"
	"os"
	"os/exec"
	"path/filepath"
	"reflect"
	"strings"

	sigsyaml "sigs.k8s.io/yaml"
	"tags.cncf.io/container-device-interface/schema"
	specs "tags.cncf.io/container-device-interface/specs-go"
	"verif/mc/gen"
	"verif/mc/hx"
	"verif/mc/refmodel"
)

type Case struct {
	Base      string         `json:"base"`
	Mutations []gen.Mutation `json:"mutations,omitempty"`
	Doc       any            `json:"document"`
	JSON      string         `json:"json_text"`
	Oracle    *bool          `json:"oracle_valid"`
	OracleMsg string         `json:"oracle_first_error,omitempty"`
	// JSONOnly: the JSON text uses spellings that have no YAML counterpart byte for byte (raw DEL /
	// C1 / non-characters, surrogate-pair escapes): only the JSON entry points are exercised
	JSONOnly bool `json:"json_text_only,omitempty"`
	// Installed: a history of schema.Set calls ("initial" = nothing installed yet); after every step the
	// package-level entry points must give the verdict of the schema installed last
	Installed []string `json:"history_of_installed_schemas,omitempty"`
	// the document an in-memory Spec decoded from Doc denotes (for ValidateType / Validate)
	typedJSON   string
	typedOracle *bool
	typed       *specs.Spec
}

func malformedAnnotations(doc any) bool {
	bad := func(a any) bool {
		m, ok := a.(map[string]any)
		if !ok {
			return false
		}
		size := 0
		for k, v := range m {
			if refmodel.K8sAnnotationKey(strings.ToLower(k)) != "" {
				return true
			}
			s, isStr := v.(string)
			if !isStr {
				return true
			}
			size += len(k) + len(s)
		}
		return size > 256*1024
	}
	t, ok := doc.(map[string]any)
	if !ok {
		return false
	}
	if bad(t["annotations"]) {
		return true
	}
	if devs, ok := t["devices"].([]any); ok {
		for _, d := range devs {
			if dm, ok := d.(map[string]any); ok && bad(dm["annotations"]) {
				return true
			}
		}
	}
	return false
}

func faithfulYAML(y, j []byte) bool {
	yj, err := sigsyaml.YAMLToJSON(y)
	if err != nil {
		return false
	}
	var a, b any
	da := json.NewDecoder(bytes.NewReader(yj))
	da.UseNumber()
	db := json.NewDecoder(bytes.NewReader(j))
	db.UseNumber()
	if da.Decode(&a) != nil || db.Decode(&b) != nil {
		return false
	}
	return reflect.DeepEqual(a, b)
}

type schemas struct {
	builtin, none, external *schema.Schema
}

func verdictOf(err error) bool { return err == nil }

func eval(c Case, sc schemas, dir string) hx.Result {
	return hx.Guard("", c, func() hx.Result {
		if c.Oracle == nil {
			return hx.Result{Outcome: "oracle-gave-no-verdict", Nontrivial: false}
		}
		want := *c.Oracle
		class := "base"
		if len(c.Mutations) > 0 {
			class = c.Mutations[0].Class
		}
		malformed := malformedAnnotations(c.Doc)
		fail := func(sig, msg string, exp, act any) hx.Result {
			return hx.Result{Outcome: "FAIL", Nontrivial: true, Fail: &hx.Failure{Sig: sig + ":" + class, Msg: msg + " [" + class + "] oracle: " + c.OracleMsg, Case: c, Expected: exp, Actual: act,
				Rank: int64(len(c.JSON))}}
		}
		j := []byte(c.JSON)
		yBlock := gen.RenderYAML(c.Doc)
		haveBlock := faithfulYAML(yBlock, j) && !c.JSONOnly
		yFlow := append([]byte("# the same document in YAML flow style\n"), j...)
		// further spellings of the block document: every key double-quoted, a document start marker, a
		// directive, a leading comment (each only when it still denotes the same document)
		type spelling struct {
			name string
			data []byte
		}
		var spellings []spelling
		if haveBlock {
			for _, sp := range []spelling{{"yaml-quoted-keys", gen.RenderYAMLQuotedKeys(c.Doc)}, {"yaml-document-marker", append([]byte("---\n"), yBlock...)},
				{"yaml-directive", append([]byte("%YAML 1.1\n---\n"), yBlock...)}, {"yaml-leading-comment", append([]byte("# [comment] \"first\"\n"), yBlock...)}} {
				if faithfulYAML(sp.data, j) {
					spellings = append(spellings, sp)
				}
			}
		}
		jsonPath := filepath.Join(dir, "doc.json")
		yamlPath := filepath.Join(dir, "doc.yaml")
		_ = os.WriteFile(jsonPath, j, 0o644)
		// the same file reached through other spellings of its path: a real sub-directory and "..", and a
		// symbolic link to a directory elsewhere followed by ".." (the operating system resolves the link
		// first: dir/link/../alt.json is <other>/alt.json, and nothing exists at dir/alt.json)
		other := dir + "-other"
		_ = os.MkdirAll(filepath.Join(other, "inner"), 0o755)
		_ = os.MkdirAll(filepath.Join(dir, "sub"), 0o755)
		if _, err := os.Lstat(filepath.Join(dir, "link")); err != nil {
			_ = os.Symlink(filepath.Join(other, "inner"), filepath.Join(dir, "link"))
		}
		_ = os.WriteFile(filepath.Join(other, "alt.json"), j, 0o644)
		spelled := map[string]string{"via sub/..": filepath.Join(dir, "sub") + "/../doc.json", "via symlinked-dir/..": filepath.Join(dir, "link") + "/../alt.json", "via //": dir + "//doc.json"}

		type ep struct {
			name string
			got  bool
		}
		var eps []ep
		for _, s := range []struct {
			name string
			s    *schema.Schema
		}{{"builtin", sc.builtin}, {"external-copy", sc.external}} {
			eps = append(eps, ep{s.name + ":ValidateData(json)", verdictOf(s.s.ValidateData(j))})
			if !c.JSONOnly {
				eps = append(eps, ep{s.name + ":ValidateData(yaml-flow)", verdictOf(s.s.ValidateData(yFlow))})
			}
			if haveBlock {
				eps = append(eps, ep{s.name + ":ValidateData(yaml-block)", verdictOf(s.s.ValidateData(yBlock))})
			}
			eps = append(eps, ep{s.name + ":ValidateFile(.json)", verdictOf(s.s.ValidateFile(jsonPath))})
			for how, p := range spelled {
				eps = append(eps, ep{s.name + ":ValidateFile(.json " + how + ")", verdictOf(s.s.ValidateFile(p))})
			}
			if !c.JSONOnly {
				_ = os.WriteFile(yamlPath, yFlow, 0o644)
				eps = append(eps, ep{s.name + ":ValidateFile(.yaml flow)", verdictOf(s.s.ValidateFile(yamlPath))})
			}
			if haveBlock {
				_ = os.WriteFile(yamlPath, yBlock, 0o644)
				eps = append(eps, ep{s.name + ":ValidateFile(.yaml block)", verdictOf(s.s.ValidateFile(yamlPath))})
			}
			for _, sp := range spellings {
				eps = append(eps, ep{s.name + ":ValidateData(" + sp.name + ")", verdictOf(s.s.ValidateData(sp.data))})
				_ = os.WriteFile(yamlPath, sp.data, 0o644)
				eps = append(eps, ep{s.name + ":ValidateFile(.yaml " + sp.name + ")", verdictOf(s.s.ValidateFile(yamlPath))})
			}
			eps = append(eps, ep{s.name + ":ValidateReader(json)", verdictOf(s.s.ValidateReader(bytes.NewReader(j)))})
			_, rerr := s.s.ReadAndValidate(bytes.NewReader(j))
			eps = append(eps, ep{s.name + ":ReadAndValidate(json)", verdictOf(rerr)})
		}
		// (ii) JSON and YAML encodings get the same verdict, for every document
		byName := map[string]bool{}
		for _, e := range eps {
			byName[e.name] = e.got
		}
		for _, pre := range []string{"builtin", "external-copy"} {
			jv := byName[pre+":ValidateData(json)"]
			ys := []string{":ValidateData(yaml-flow)", ":ValidateData(yaml-block)", ":ValidateFile(.yaml flow)", ":ValidateFile(.yaml block)"}
			for _, sp := range spellings {
				ys = append(ys, ":ValidateData("+sp.name+")", ":ValidateFile(.yaml "+sp.name+")")
			}
			for _, y := range ys {
				if yv, ok := byName[pre+y]; ok && yv != jv {
					kind := "annotations-well-formed"
					if malformed {
						kind = "annotations-malformed"
					}
					return fail("json-vs-yaml-verdict:"+kind+":json="+fmt.Sprint(jv), fmt.Sprintf("%s%s = %v but %s:ValidateData(json) = %v", pre, y, yv, pre, jv), jv, yv)
				}
			}
		}
		// (i) every entry point equals the draft-07 verdict when annotations are absent or well-formed
		if !malformed {
			for _, e := range eps {
				if e.got != want {
					return fail("differs-from-draft07:"+e.name[strings.IndexByte(e.name, ':')+1:]+":oracle="+fmt.Sprint(want), fmt.Sprintf("%s = %v, draft-07 verdict %v", e.name, e.got, want), want, e.got)
				}
			}
			if c.typed != nil && c.typedOracle != nil {
				for name, err := range map[string]error{"ValidateType": sc.builtin.ValidateType(c.typed), "Validate": sc.builtin.Validate(c.typed), "external:Validate": sc.external.Validate(c.typed)} {
					if verdictOf(err) != *c.typedOracle {
						return fail("differs-from-draft07:"+name+":oracle="+fmt.Sprint(*c.typedOracle), fmt.Sprintf("%s(in-memory Spec) = %v, draft-07 verdict of the document it denotes %v", name, verdictOf(err), *c.typedOracle), *c.typedOracle, verdictOf(err))
					}
				}
			}
		}
		// (iii) the 'none' schema and a nil schema never reject a parseable document
		var nilSchema *schema.Schema
		_, isObject := c.Doc.(map[string]any)
		for name, s := range map[string]*schema.Schema{"none": sc.none, "nil": nilSchema} {
			if !isObject {
				break // a document that is not an object is outside the statement's quantifier for this clause
			}
			checks := map[string]error{"ValidateData(json)": s.ValidateData(j), "ValidateFile(.json)": s.ValidateFile(jsonPath), "ValidateReader": s.ValidateReader(bytes.NewReader(j))}
			if !c.JSONOnly {
				checks["ValidateData(yaml-flow)"] = s.ValidateData(yFlow)
			}
			if haveBlock {
				checks["ValidateData(yaml-block)"] = s.ValidateData(yBlock)
			}
			for _, sp := range spellings {
				checks["ValidateData("+sp.name+")"] = s.ValidateData(sp.data)
			}
			if c.typed != nil {
				checks["Validate"] = s.Validate(c.typed)
			}
			for ename, err := range checks {
				if err != nil {
					kind := "annotations-well-formed"
					if malformed {
						kind = "annotations-malformed"
					}
					return fail("no-op-schema-rejects:"+name+":"+ename+":"+kind, fmt.Sprintf("schema %q: %s rejected a parseable document: %v", name, ename, err), true, false)
				}
			}
		}
		out := "invalid"
		if want {
			out = "valid"
		}
		return hx.Result{Outcome: "agree:" + out, Nontrivial: true}
	})
}

// evalInstalled: the package-level entry points (schema.ValidateData, ...) validate with the schema
// installed last by schema.Set; the builtin one before anything is installed. Runs alone (the
// installed schema is process-wide state).
func evalInstalled(c Case, sc schemas, dir string) hx.Result {
	return hx.Guard("", c, func() hx.Result {
		defer schema.Set(sc.builtin)
		if c.Oracle == nil {
			return hx.Result{Outcome: "oracle-gave-no-verdict", Nontrivial: false}
		}
		j := []byte(c.JSON)
		jsonPath := filepath.Join(dir, "doc.json")
		_ = os.WriteFile(jsonPath, j, 0o644)
		setters := map[string]*schema.Schema{"builtin": sc.builtin, "none": sc.none, "nil": nil, "external-copy": sc.external}
		for step, name := range c.Installed {
			want := *c.Oracle
			if name != "initial" {
				schema.Set(setters[name])
				if name == "none" || name == "nil" {
					want = true
				}
			}
			_, rerr := schema.ReadAndValidate(bytes.NewReader(j))
			got := map[string]error{"ValidateData": schema.ValidateData(j), "ValidateFile": schema.ValidateFile(jsonPath), "ValidateReader": schema.ValidateReader(bytes.NewReader(j)), "ReadAndValidate": rerr}
			for _, ep := range []string{"ValidateData", "ValidateFile", "ValidateReader", "ReadAndValidate"} {
				if verdictOf(got[ep]) != want {
					return hx.Result{Outcome: "FAIL", Nontrivial: true, Fail: &hx.Failure{Sig: fmt.Sprintf("installed-schema:%s:after-%s:package-level-%s=%v", name, strings.Join(c.Installed[:step], ","), ep, verdictOf(got[ep])),
						Msg:  fmt.Sprintf("after installing %v the package-level %s gives %v (%v); the schema installed last (%s) gives %v", c.Installed[:step+1], ep, verdictOf(got[ep]), got[ep], name, want),
						Case: c, Expected: want, Actual: verdictOf(got[ep]), Rank: int64(len(c.Installed)*100000 + len(c.JSON))}}
				}
			}
			if c.typed != nil && c.typedOracle != nil {
				wt := *c.typedOracle || name == "none" || name == "nil"
				if err := schema.ValidateType(c.typed); verdictOf(err) != wt {
					return hx.Result{Outcome: "FAIL", Nontrivial: true, Fail: &hx.Failure{Sig: fmt.Sprintf("installed-schema:%s:after-%s:package-level-ValidateType=%v", name, strings.Join(c.Installed[:step], ","), verdictOf(err)),
						Msg:  fmt.Sprintf("after installing %v the package-level ValidateType gives %v; the schema installed last gives %v", c.Installed[:step+1], verdictOf(err), wt),
						Case: c, Expected: wt, Actual: verdictOf(err), Rank: int64(len(c.Installed)*100000 + len(c.JSON))}}
				}
			}
		}
		return hx.Result{Outcome: fmt.Sprintf("installed-schema-history-agrees:len=%d", len(c.Installed)), Nontrivial: true}
	})
}

func main() {
	r := hx.Start("C17", "model_checking")
	base, err := os.MkdirTemp("/dev/shm", "verif-c17-")
	if err != nil {
		base, _ = os.MkdirTemp("", "verif-c17-")
	}
	defer os.RemoveAll(base)
	die := func(code int, a ...any) {
		fmt.Println(a...)
		os.RemoveAll(base)
		os.Exit(code)
	}
	// schema configurations
	var sc schemas
	sc.builtin, err = schema.Load("builtin")
	if err != nil {
		die(2, "INFRA: Load(builtin):", err)
	}
	sc.none, _ = schema.Load("none")
	extDir := filepath.Join(base, "ext")
	_ = os.MkdirAll(extDir, 0o755)
	// the path the external copy is loaded from has a past: a schema that accepts everything, then
	// the shipped schema.json next to relaxed definitions, were loaded from it before the shipped
	// files were put there (a loader that remembers documents by location would serve stale ones)
	shipped := map[string][]byte{}
	for _, f := range []string{"schema.json", "defs.json"} {
		b, e := os.ReadFile(filepath.Join(hx.RepoRoot, "schema", f))
		if e != nil {
			die(2, "INFRA:", e)
		}
		shipped[f] = b
	}
	_ = os.WriteFile(filepath.Join(extDir, "schema.json"), []byte(`{}`), 0o644)
	_ = os.WriteFile(filepath.Join(extDir, "defs.json"), []byte(`{}`), 0o644)
	if _, e := schema.Load(filepath.Join(extDir, "schema.json")); e != nil {
		die(2, "INFRA: Load(<schema that accepts everything>):", e)
	}
	_ = os.WriteFile(filepath.Join(extDir, "schema.json"), shipped["schema.json"], 0o644)
	_ = os.WriteFile(filepath.Join(extDir, "defs.json"), bytes.ReplaceAll(shipped["defs.json"], []byte(`"additionalProperties": false`), []byte(`"additionalProperties": true`)), 0o644)
	if _, e := schema.Load(filepath.Join(extDir, "schema.json")); e != nil {
		die(2, "INFRA: Load(<shipped schema.json with relaxed definitions>):", e)
	}
	for f, b := range shipped {
		_ = os.WriteFile(filepath.Join(extDir, f), b, 0o644)
	}
	sc.external, err = schema.Load(filepath.Join(extDir, "schema.json"))
	if err != nil {
		die(2, "INFRA: Load(<copy of schema.json>):", err)
	}

	// documents
	var bases []gen.Base
	all := gen.Bases(0)
	for i, b := range all {
		if r.Thorough() && i%3 == 0 {
			bases = append(bases, b)
		} else if strings.Contains(b.Name, "ann=true,specEdits=env,devs=all,devAnn=true,kind=vendor.com/class") || strings.Contains(b.Name, "ann=false,specEdits=,devs=env,devAnn=false,kind=vendor.com/class") ||
			strings.Contains(b.Name, "ann=false,specEdits=,devs=env+dnFull+env") {
			bases = append(bases, b)
		}
	}
	var cases []Case
	addDoc := func(baseName string, ms []gen.Mutation, doc any) {
		cases = append(cases, Case{Base: baseName, Mutations: ms, Doc: doc, JSON: string(gen.RenderJSON(doc))})
	}
	numeric := []struct {
		name string
		v    any
	}{{"minus-one", json.Number("-1")}, {"two-pow-32-minus-1", json.Number("4294967295")}, {"two-pow-32", json.Number("4294967296")}, {"int64-max", json.Number("9223372036854775807")},
		{"two-pow-63", json.Number("9223372036854775808")}, {"int64-min", json.Number("-9223372036854775808")}, {"below-int64-min", json.Number("-9223372036854775809")},
		{"one-point-five", json.Number("1.5")}, {"one-point-zero", json.Number("1.0")}, {"1e3", json.Number("1e3")}, {"zero", json.Number("0")}}
	for _, b := range bases {
		addDoc(b.Name, nil, b.Tree)
		for _, m := range gen.Defects(b.Tree) {
			if strings.HasPrefix(m.Class, "annotations-too-large") || strings.HasPrefix(m.Class, "annotations-at-size") {
				continue
			}
			addDoc(b.Name, []gen.Mutation{m}, gen.Apply(b.Tree, m))
		}
		for _, m := range gen.Confusions(b.Tree) {
			addDoc(b.Name, []gen.Mutation{m}, gen.Apply(b.Tree, m))
			// numeric boundary values at every member position as well
			if strings.HasSuffix(m.Class, "<-zero") {
				for _, n := range numeric {
					mm := m
					mm.Class = strings.TrimSuffix(m.Class, "zero") + "number:" + n.name
					mm.Value = n.v
					addDoc(b.Name, []gen.Mutation{mm}, gen.Apply(b.Tree, mm))
				}
			}
		}
	}
	for _, extra := range []string{`{}`, `[]`, `"string"`, `5`, `null`, `true`, `{"cdiVersion":"x","kind":"y","devices":[]}`, `{"cdiVersion":"x","kind":"y","devices":[{}]}`} {
		var t any
		_ = json.Unmarshal([]byte(extra), &t)
		cases = append(cases, Case{Base: "hand-written:" + extra, Doc: t, JSON: extra})
	}
	// JSON texts whose strings are spelled in ways only JSON knows: the same document with one
	// string value written with a raw DEL / C1 control / non-character / unescaped non-BMP
	// character, or with \u escapes (incl. a surrogate pair). The JSON entry points must treat
	// them as the JSON they are (not feed them to a YAML reader).
	if len(bases) > 0 {
		const ph = "@@PLACEHOLDER@@"
		b := bases[0]
		tree := gen.Apply(b.Tree, gen.Mutation{Class: "json-spelling", Path: gen.Path{"devices", 0, "containerEdits", "env"}, Op: "set", Value: []any{"A=" + ph}})
		text := string(gen.RenderJSON(tree))
		if strings.Contains(text, ph) {
			for name, lit := range map[string]string{"raw-DEL": "a\x7fb", "raw-C1": "a\u0085b\u009f", "raw-U+FFFE": "\ufffe", "raw-non-BMP": "\U0001F600", "escaped-surrogate-pair": `\ud83d\ude00`,
				"escaped-DEL": `\u007f`, "escaped-NUL": `\u0000`, "escaped-slash-and-quotes": `\/\"\\`, "plain": "plain"} {
				jt := strings.Replace(text, ph, lit, 1)
				var doc any
				if json.Unmarshal([]byte(jt), &doc) != nil {
					die(2, "INFRA: hand-made JSON text does not parse:", name)
				}
				cases = append(cases, Case{Base: b.Name, Mutations: []gen.Mutation{{Class: "json-spelling:" + name}}, Doc: doc, JSON: jt, JSONOnly: true})
			}
		}
	}
	// large documents (several MiB of JSON): a valid one, and the same with one defect at its end
	if len(bases) > 0 {
		b := bases[0]
		nDev := 12000
		if r.Thorough() {
			nDev = 60000
		}
		var devs []any
		for i := 0; i < nDev; i++ {
			devs = append(devs, map[string]any{"name": fmt.Sprintf("dev%05d", i), "containerEdits": map[string]any{"env": []any{fmt.Sprintf("INDEX=%d", i), "PAD=" + strings.Repeat("x", 64)}}})
		}
		good := gen.Apply(b.Tree, gen.Mutation{Class: "large-document", Path: gen.Path{"devices"}, Op: "set", Value: devs})
		addDoc(b.Name, []gen.Mutation{{Class: "large-document:valid"}}, good)
		devs2 := append(append([]any{}, devs...), map[string]any{"name": "last", "containerEdits": map[string]any{"env": []any{"A=b"}}, "unknownMember": true})
		bad := gen.Apply(b.Tree, gen.Mutation{Class: "large-document", Path: gen.Path{"devices"}, Op: "set", Value: devs2})
		addDoc(b.Name, []gen.Mutation{{Class: "large-document:defect-in-last-device"}}, bad)
		// annotation sets that are each below their 256 KiB limit and together above it (Spec level + two devices)
		pad := strings.Repeat("x", 200*1024)
		annDevs := []any{map[string]any{"name": "a0", "annotations": map[string]any{"pad.example.com/p": pad}, "containerEdits": map[string]any{"env": []any{"A=b"}}},
			map[string]any{"name": "a1", "annotations": map[string]any{"pad.example.com/q": pad}, "containerEdits": map[string]any{"env": []any{"A=b"}}}}
		ann := gen.Apply(b.Tree, gen.Mutation{Path: gen.Path{"devices"}, Op: "set", Value: annDevs}, gen.Mutation{Path: gen.Path{"annotations"}, Op: "set", Value: map[string]any{"pad.example.com/spec": pad}},
			gen.Mutation{Path: gen.Path{"cdiVersion"}, Op: "set", Value: "0.6.0"})
		addDoc(b.Name, []gen.Mutation{{Class: "large-document:annotation-sets-each-below-the-limit"}}, ann)
	}
	if r.Replay != "" {
		var c Case
		r.LoadReplay(&c)
		cases = []Case{c}
	}
	// in-memory Specs: decode strictly; the document they denote is rendered by the hand-written reference
	for i := range cases {
		var gs specs.Spec
		dec := json.NewDecoder(strings.NewReader(cases[i].JSON))
		dec.DisallowUnknownFields()
		if dec.Decode(&gs) == nil {
			cases[i].typed = &gs
			// the denoted document is rendered by a hand-written reference (refmodel.SpecDoc), not
			// through the struct tags of the code under test; it must agree with what the code's
			// own marshalling produces today (self-check of the reference, exit 2 on disagreement)
			b, _ := json.Marshal(refmodel.SpecDoc(&gs))
			cases[i].typedJSON = string(b)
		}
	}
	// oracle run
	docsFile, outFile := filepath.Join(base, "docs.jsonl"), filepath.Join(base, "verdicts.jsonl")
	var buf bytes.Buffer
	nTyped := 0
	for _, c := range cases {
		buf.WriteString(c.JSON + "\n")
	}
	for _, c := range cases {
		if c.typed != nil {
			buf.WriteString(c.typedJSON + "\n")
			nTyped++
		}
	}
	_ = os.WriteFile(docsFile, buf.Bytes(), 0o644)
	cmd := exec.Command("python3-vt", filepath.Join(hx.VerifRoot, "oracle", "draft07.py"), filepath.Join(hx.RepoRoot, "schema"), docsFile, outFile)
	cmd.Stderr = os.Stderr
	if err := cmd.Run(); err != nil {
		if ee, ok := err.(*exec.ExitError); ok && ee.ExitCode() == 3 {
			// (iv) the shipped files do not form a loadable draft-07 schema
			r.Fail(&hx.Failure{Sig: "shipped-schema-does-not-load", Msg: "the shipped schema files do not load / resolve under draft-07 (see stderr)", Case: "schema files"})
			r.Rule = "schema files broken"
			r.AddEvals(1, 1)
			os.RemoveAll(base)
			r.Finish()
		}
		die(2, "INFRA: oracle failed:", err)
	}
	vb, _ := os.ReadFile(outFile)
	lines := strings.Split(strings.TrimSpace(string(vb)), "\n")
	if len(lines) != len(cases)+nTyped {
		die(2, "INFRA: oracle returned", len(lines), "verdicts for", len(cases)+nTyped, "documents")
	}
	parse := func(l string) (*bool, string) {
		var v struct {
			Valid *bool  `json:"valid"`
			First string `json:"first"`
			Err   string `json:"oracle_error"`
		}
		_ = json.Unmarshal([]byte(l), &v)
		if v.Valid == nil {
			return nil, v.Err
		}
		return v.Valid, v.First
	}
	k := len(cases)
	for i := range cases {
		cases[i].Oracle, cases[i].OracleMsg = parse(lines[i])
		if cases[i].typed != nil {
			cases[i].typedOracle, _ = parse(lines[k])
			k++
		}
	}
	// (iv) the builtin schema is not a silent no-op
	if err := sc.builtin.ValidateData([]byte(`{}`)); err == nil {
		r.Fail(&hx.Failure{Sig: "builtin-schema-accepts-empty-object", Msg: "the builtin schema accepts {}: it is (or fell back to) a no-op schema", Case: "{}"})
	}
	if r.Replay != "" && len(cases[0].Installed) > 0 {
		res := evalInstalled(cases[0], sc, base)
		os.RemoveAll(base)
		hx.ReplayExit("C17", res)
	}
	if r.Replay != "" {
		res := eval(cases[0], sc, base)
		os.RemoveAll(base)
		hx.ReplayExit("C17", res)
	}
	nw := 16
	pool := make(chan string, nw)
	for i := 0; i < nw; i++ {
		d := filepath.Join(base, fmt.Sprintf("w%d", i))
		_ = os.MkdirAll(d, 0o755)
		pool <- d
	}
	r.ParallelL(int64(len(cases)), func(i int64, l *hx.Local) {
		d := <-pool
		res := eval(cases[i], sc, d)
		pool <- d
		l.Record(res, func() any {
			return map[string]any{"base": cases[i].Base, "mutations": cases[i].Mutations, "oracle_valid": cases[i].Oracle, "outcome": res.Outcome}
		})
	})
	// one in-memory Spec object holding two documents in turn: validated, overwritten in place,
	// validated again (every ordered pair of a few valid and invalid typed documents); the second
	// verdict is the second document's
	{
		var typedCases []Case
		nv, ni := 0, 0
		for _, c := range cases {
			if c.typed == nil || c.typedOracle == nil || len(c.JSON) > 5000 || malformedAnnotations(c.Doc) {
				continue
			}
			if *c.typedOracle && nv < 3 {
				nv++
				typedCases = append(typedCases, c)
			} else if !*c.typedOracle && ni < 6 {
				ni++
				typedCases = append(typedCases, c)
			}
		}
		nObj := 0
		for _, a := range typedCases {
			for _, b := range typedCases {
				for name, s := range map[string]*schema.Schema{"builtin": sc.builtin, "external-copy": sc.external} {
					obj := new(specs.Spec)
					_ = json.Unmarshal([]byte(a.JSON), obj)
					first := s.Validate(obj)
					*obj = specs.Spec{}
					_ = json.Unmarshal([]byte(b.JSON), obj)
					second := s.Validate(obj)
					nObj++
					r.AddEvals(1, 1)
					if verdictOf(first) != *a.typedOracle || verdictOf(second) != *b.typedOracle {
						cl := func(c Case) string {
							if len(c.Mutations) > 0 {
								return c.Mutations[0].Class
							}
							return "base"
						}
						r.Fail(&hx.Failure{Sig: fmt.Sprintf("same-object-validated-twice:%s:first-valid=%v:second-valid=%v:got=%v,%v", name, *a.typedOracle, *b.typedOracle, verdictOf(first), verdictOf(second)),
							Msg:  fmt.Sprintf("%s.Validate on one Spec object holding [%s] and then, overwritten in place, [%s]: verdicts %v then %v, draft-07 verdicts of the two documents %v then %v", name, cl(a), cl(b), verdictOf(first), verdictOf(second), *a.typedOracle, *b.typedOracle),
							Case: map[string]any{"first_document": json.RawMessage(a.JSON), "second_document": json.RawMessage(b.JSON)}, Rank: int64(len(a.JSON) + len(b.JSON))})
					}
				}
			}
		}
		r.Extra["one_object_validated_twice"] = nObj
	}
	// histories of installed schemas (process-wide state: run one at a time, after the sweep)
	var picked []Case
	nValid, nInvalid := 0, 0
	for _, c := range cases {
		_, isObj := c.Doc.(map[string]any)
		if c.Oracle == nil || c.JSONOnly || !isObj || len(c.JSON) > 5000 || malformedAnnotations(c.Doc) {
			continue
		}
		if *c.Oracle && nValid < 2 && c.typed != nil {
			nValid++
			picked = append(picked, c)
		} else if !*c.Oracle && nInvalid < 6 && len(picked)%2 == 0 {
			nInvalid++
			picked = append(picked, c)
		} else if !*c.Oracle && nInvalid < 6 && c.typed != nil {
			nInvalid++
			picked = append(picked, c)
		}
	}
	var hist [][]string
	names := []string{"builtin", "none", "nil", "external-copy"}
	var rec func(cur []string)
	rec = func(cur []string) {
		if len(cur) > 0 {
			hist = append(hist, append([]string{}, cur...))
		}
		if len(cur) == 3 {
			return
		}
		for _, n := range names {
			rec(append(cur, n))
		}
	}
	rec([]string{"initial"})
	nInst := 0
	for _, h := range hist {
		for _, c := range picked {
			c.Installed = h
			res := evalInstalled(c, sc, base)
			nInst++
			r.AddEvals(1, 1)
			r.Outcome(res.Outcome)
			if res.Fail != nil {
				r.Fail(res.Fail)
			}
			if strings.HasPrefix(h[0], "initial") && len(h) > 1 {
				// the same history without the untouched initial state in front
				c.Installed = h[1:]
				if res := evalInstalled(c, sc, base); res.Fail != nil {
					r.Fail(res.Fail)
				}
				nInst++
				r.AddEvals(1, 1)
			}
		}
	}
	r.Extra["installed_schema_histories"] = map[string]any{"histories": len(hist), "documents": len(picked), "evaluations": nInst}
	r.Rule = fmt.Sprintf("%d base documents + every single defect, every type confusion at every member position and 11 numeric boundary values (-1, 2^32-1, 2^32, int64 max, 2^63, int64 min, below, 1.5, 1.0, 1e3, 0) at every member position: %d JSON documents (+%d documents denoted by the in-memory Specs they decode to); "+
		"each through ValidateData (JSON, YAML flow, YAML block), ValidateFile (.json, .yaml), ValidateReader, ReadAndValidate, ValidateType/Validate for the builtin schema and for a copy of schema.json loaded by path next to defs.json, and through the 'none' and nil schemas. "+
		"One in-memory Spec object holding two documents in turn (all ordered pairs of 9 typed documents). Then every history of <=3 schema.Set calls over {builtin, none, nil, external copy} (and the untouched initial state) with the package-level entry points judged after every step against the schema installed last, on 8 documents. " +
		"Oracle: Python jsonschema Draft7Validator on the current /repo/schema files; JSON==YAML for every document; equality with the oracle when annotations are absent or well-formed; no-op schemas accept everything. Distinct by construction; all non-trivial",
		len(bases), len(cases), nTyped)
	r.Traces.Add(int64(len(cases) + nTyped))
	r.Extra["documents_judged_by_independent_oracle"] = len(cases) + nTyped
	r.Assumptions = []string{"the independent oracle is jsonschema 4.x Draft7Validator (python3-vt)", "documents with malformed annotation keys are only required to get the same verdict in both encodings"}
	os.RemoveAll(base)
	r.Finish()
}
