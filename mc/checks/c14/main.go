// C14 — injection changes nothing but the OCI spec and is repeatable.
// Histories (to a depth bound) of {InjectDevices, Device.ApplyEdits, Spec.ApplyEdits, host
// node replaced by another number / another type, WriteSpec of the cached raw Spec} on caches
// whose device nodes leave hostPath / type / major unspecified in every combination.
package main

import (
	"encoding/json"
	"fmt"
	"os"
	"path/filepath"
	"reflect"
	"strings"

	oci "github.com/opencontainers/runtime-spec/specs-go"
	"tags.cncf.io/container-device-interface/pkg/cdi"
	specs "tags.cncf.io/container-device-interface/specs-go"
	"verif/mc/gen"
	"verif/mc/hx"
	"verif/mc/refmodel"
)

var ops = []string{"inject", "device-apply", "spec-apply", "host-renumber", "host-retype", "write-back", "inject-both", "inject-other", "inject-two-specs", "inject-failing"}

type Case struct {
	Version  string   `json:"declared_version"`
	SpecNode string   `json:"spec_level_node"`
	DevNode  string   `json:"device_node"`
	History  []string `json:"history"`
	Behind   bool     `json:"directory_changed_after_the_cache_loaded_it,omitempty"`
}

// node templates; %c = char node, %b block, %f fifo, %2 = second char node
func node(tmpl string, n *gen.HostNodes) *specs.DeviceNode {
	switch tmpl {
	case "none":
		return nil
	case "path-only-char":
		return &specs.DeviceNode{Path: n.Path("char")}
	case "hostpath-char":
		return &specs.DeviceNode{Path: "/dev/ctr-c", HostPath: n.Path("char")}
	case "type-only-block":
		return &specs.DeviceNode{Path: n.Path("block"), Type: "b"}
	case "fully-specified":
		return &specs.DeviceNode{Path: n.Path("char2"), Type: "c", Major: 10, Minor: 200}
	case "hostpath-fifo":
		return &specs.DeviceNode{Path: "/dev/ctr-f", HostPath: n.Path("fifo")}
	case "type-p":
		return &specs.DeviceNode{Path: n.Path("fifo"), Type: "p"}
	case "hostpath-block-perm":
		return &specs.DeviceNode{Path: "/dev/ctr-b", HostPath: n.Path("block"), Permissions: "rw"}
	case "major-only-char":
		return &specs.DeviceNode{Path: n.Path("char"), Major: 77, Minor: 7}
	case "minor-only-char":
		// a minor number without a major: the major is unspecified, so the numbers come from the host node
		return &specs.DeviceNode{Path: n.Path("char"), Minor: 9}
	case "minor-only-typed-char":
		return &specs.DeviceNode{Path: n.Path("char2"), Type: "c", Minor: 9}
	case "hostpath-char-mode-uid-gid":
		// every optional (pointer) member set; the mode as a generator that copies st_mode records it (S_IFCHR|0666)
		fm, uid, gid := os.FileMode(0o20666), uint32(7), uint32(8)
		return &specs.DeviceNode{Path: "/dev/ctr-m", HostPath: n.Path("char"), FileMode: &fm, UID: &uid, GID: &gid, Permissions: "rwm"}
	}
	panic(tmpl)
}

var nodeTemplates = []string{"path-only-char", "hostpath-char", "type-only-block", "fully-specified", "hostpath-fifo", "type-p", "hostpath-block-perm", "major-only-char", "hostpath-char-mode-uid-gid", "minor-only-char", "minor-only-typed-char"}

func usesHostPath(t string) bool { return strings.HasPrefix(t, "hostpath") }

func image(v any) string {
	b, _ := json.Marshal(v)
	return string(b)
}

func eval(c Case, dir string) hx.Result {
	return hx.Guard("", c, func() hx.Result {
		_ = os.RemoveAll(dir)
		nodes, err := gen.MakeHostNodes(filepath.Join(dir, "nodes"))
		if err != nil {
			panic(err)
		}
		specDir := filepath.Join(dir, "specs")
		_ = os.MkdirAll(specDir, 0o755)
		raw := &specs.Spec{Version: c.Version, Kind: "vendor.com/class"}
		if sn := node(c.SpecNode, nodes); sn != nil {
			raw.ContainerEdits.DeviceNodes = []*specs.DeviceNode{sn}
		}
		raw.ContainerEdits.Env = []string{"SPEC=1"}
		raw.Devices = []specs.Device{
			{Name: "dev", ContainerEdits: specs.ContainerEdits{DeviceNodes: []*specs.DeviceNode{node(c.DevNode, nodes)}, Env: []string{"DEV=1"}}},
			{Name: "other", ContainerEdits: specs.ContainerEdits{Env: []string{"OTHER=1"}}},
		}
		if c.Version == "1.0.0" {
			// rich variant: every edit kind at spec level and in both devices, so that anything an
			// injection writes through a shared pointer or slice of the cached Spec shows up
			rich := func(tag string) specs.ContainerEdits {
				tm, zero := 3, 0
				return specs.ContainerEdits{
					Env: []string{"E_" + tag + "=1", "SHARED=" + tag},
					Mounts: []*specs.Mount{{HostPath: "/h/" + tag, ContainerPath: "/c/" + tag, Options: []string{"ro", tag}}, {HostPath: "/h2/" + tag, ContainerPath: "/shared"},
						// spellings that are not in cleaned form (what an injection normalises must not be written back into the cache)
						{HostPath: "/h3/" + tag, ContainerPath: "/c/" + tag + "/unclean/"}, {HostPath: "//h4/./" + tag, ContainerPath: "//dbl/./" + tag}},
					// scalars that are present but zero / empty (a hook timeout of 0, an empty argument, an empty value) next to populated ones
					Hooks: []*specs.Hook{{HookName: "prestart", Path: "/hook/" + tag, Args: []string{"a", tag}, Env: []string{"H=" + tag}, Timeout: &tm},
						{HookName: "poststop", Path: "/hook/zero-" + tag, Args: []string{"", "x"}, Env: []string{"EMPTY="}, Timeout: &zero}},
					IntelRdt:       &specs.IntelRdt{ClosID: "clos-" + tag, L3CacheSchema: "L3:" + tag, EnableCMT: tag == "spec"},
					AdditionalGIDs: []uint32{0, 7, 0, uint32(len(tag)), 7}, // ignored zeros and a repeat between the values: whatever filters them must not do so in place
				}
			}
			se := rich("spec")
			se.DeviceNodes = raw.ContainerEdits.DeviceNodes
			raw.ContainerEdits = se
			de := rich("dev")
			de.DeviceNodes = raw.Devices[0].ContainerEdits.DeviceNodes
			raw.Devices[0].ContainerEdits = de
			raw.Devices[1].ContainerEdits = rich("other")
		}
		// a second Spec file of another vendor whose spec-level and device edits collide with the
		// first one's (same variable, same mount destination, RDT class): the order in which the
		// two files' edits are merged is observable
		second := &specs.Spec{Version: c.Version, Kind: "second.org/class", ContainerEdits: specs.ContainerEdits{Env: []string{"SPEC=2", "SPEC2=1"}},
			Devices: []specs.Device{{Name: "dev2", ContainerEdits: specs.ContainerEdits{Env: []string{"DEV=2"}}}}}
		if c.Version == "1.0.0" {
			second.ContainerEdits = raw.ContainerEdits
			second.ContainerEdits.DeviceNodes = nil
			second.ContainerEdits.Env = []string{"E_second=1", "SHARED=second"}
			second.ContainerEdits.IntelRdt = &specs.IntelRdt{ClosID: "clos-second"}
			second.ContainerEdits.Hooks = []*specs.Hook{{HookName: "prestart", Path: "/hook/second"}}
			second.Devices[0].ContainerEdits.Env = []string{"SHARED=dev2"}
			second.Devices[0].ContainerEdits.Mounts = []*specs.Mount{{HostPath: "/h/dev2", ContainerPath: "/shared"}}
		}
		secondImage := image(second)
		original := image(raw)
		if err := os.WriteFile(filepath.Join(specDir, "s.json"), []byte(original), 0o644); err != nil {
			panic(err)
		}
		if err := os.WriteFile(filepath.Join(specDir, "t.json"), []byte(secondImage), 0o644); err != nil {
			panic(err)
		}
		cache, _ := cdi.NewCache(cdi.WithSpecDirs(specDir), cdi.WithAutoRefresh(false))
		if errs := cache.GetErrors(); len(errs) > 0 {
			return hx.Result{Outcome: "spec-not-loadable", Nontrivial: false} // e.g. hostPath with 0.3.0: filtered by construction, kept as a guard
		}
		const q = "vendor.com/class=dev"
		cachedImage := func() string {
			var parts []string
			for _, v := range cache.ListVendors() {
				for _, s := range cache.GetVendorSpecs(v) {
					parts = append(parts, image(s.Spec))
				}
			}
			for _, d := range cache.ListDevices() {
				parts = append(parts, image(cache.GetDevice(d).Device))
			}
			return strings.Join(parts, "\n")
		}
		loaded := cachedImage()
		if c.Behind {
			// the directory changes behind the back of the (manual-refresh) cache: a new Spec file of another
			// vendor and a new version of t.json. Nothing below asks for a refresh, so the cache must keep
			// answering from what it loaded.
			_ = os.WriteFile(filepath.Join(specDir, "unseen.json"), []byte(`{"cdiVersion":"0.3.0","kind":"unseen.org/class","devices":[{"name":"u","containerEdits":{"env":["UNSEEN=1"]}}]}`), 0o644)
		}
		fail := func(sig, msg string, step int, exp, act any) hx.Result {
			cc := c
			cc.History = c.History[:step+1]
			return hx.Result{Outcome: "FAIL", Nontrivial: true, Fail: &hx.Failure{Sig: sig, Msg: fmt.Sprintf("after step %d (%s): %s", step, c.History[step], msg), Case: cc, Expected: exp, Actual: act,
				Rank: int64(step*100 + len(c.SpecNode) + len(c.DevNode))}}
		}
		rawCopy := func() *specs.Spec {
			var s specs.Spec
			_ = json.Unmarshal([]byte(original), &s)
			return &s
		}
		injections := 0
		// the caller builds every request of the history in one buffer of its own (what a runtime that
		// reuses a scratch slice does): what an earlier call was given is overwritten by the next request
		reqBuf := make([]string, 4)
		request := func(names ...string) []string { return reqBuf[:copy(reqBuf, names)] }
		for step, op := range c.History {
			initial := func() *oci.Spec {
				// the OCI spec already lists devices at the paths the templates use, with other types and
				// numbers (what a runtime, or an injection before the host changed, put there): an injected
				// node replaces them, and what the Spec leaves open comes from the host as it is now
				return &oci.Spec{Process: &oci.Process{Env: []string{"PATH=/bin"}, User: oci.User{UID: 1000}},
					Linux: &oci.Linux{Devices: []oci.LinuxDevice{
						{Path: nodes.Path("char"), Type: "b", Major: 99, Minor: 98}, {Path: nodes.Path("block"), Type: "c", Major: 97, Minor: 96},
						{Path: nodes.Path("fifo"), Type: "c", Major: 95, Minor: 94}, {Path: nodes.Path("char2"), Type: "p"},
						{Path: "/dev/ctr-c", Type: "b", Major: 93, Minor: 92}, {Path: "/dev/unrelated", Type: "c", Major: 1, Minor: 3}}}}
			}
			var wantEdits specs.ContainerEdits
			var applyErr error
			got := initial()
			check := false
			switch op {
			case "inject":
				_, applyErr = cache.InjectDevices(got, request(q)...)
				r := rawCopy()
				wantEdits = r.ContainerEdits
				appendEdits(&wantEdits, r.Devices[0].ContainerEdits)
				check = true
			case "inject-both":
				_, applyErr = cache.InjectDevices(got, request(q, "vendor.com/class=other")...)
				r := rawCopy()
				wantEdits = r.ContainerEdits
				appendEdits(&wantEdits, r.Devices[0].ContainerEdits)
				appendEdits(&wantEdits, r.Devices[1].ContainerEdits)
				check = true
			case "inject-other":
				_, applyErr = cache.InjectDevices(got, request("vendor.com/class=other")...)
				r := rawCopy()
				wantEdits = r.ContainerEdits
				appendEdits(&wantEdits, r.Devices[1].ContainerEdits)
				check = true
			case "inject-two-specs":
				// both request orders, several times each: the result is the edits in request order
				// (each file's spec-level edits before its first device), every time
				var sec specs.Spec
				_ = json.Unmarshal([]byte(secondImage), &sec)
				for rep := 0; rep < 6; rep++ {
					r := rawCopy()
					var w specs.ContainerEdits
					req := request(q, "second.org/class=dev2")
					if rep%2 == 0 {
						w = r.ContainerEdits
						appendEdits(&w, r.Devices[0].ContainerEdits)
						appendEdits(&w, sec.ContainerEdits)
						appendEdits(&w, sec.Devices[0].ContainerEdits)
					} else {
						req = request("second.org/class=dev2", q)
						w = sec.ContainerEdits
						appendEdits(&w, sec.Devices[0].ContainerEdits)
						appendEdits(&w, r.ContainerEdits)
						appendEdits(&w, r.Devices[0].ContainerEdits)
					}
					g := initial()
					_, ierr := cache.InjectDevices(g, req...)
					want, werr := refmodel.ApplyEdits(initial(), &w, gen.Stat)
					if (werr != nil) != (ierr != nil) {
						return fail("injection-error-mismatch:"+op, fmt.Sprintf("model error %v, implementation error %v", werr, ierr), step, fmt.Sprint(werr), fmt.Sprint(ierr))
					}
					if werr == nil {
						if ok, where := refmodel.OCIEqual(want, g); !ok {
							return fail("two-spec-injection-differs:"+where, fmt.Sprintf("injecting %v (repetition %d) does not give the edits of the two Spec files in request order", req, rep), step, refmodel.Normalise(want), refmodel.Normalise(g))
						}
					}
				}
				injections++
			case "inject-failing":
				// a request that fails (one name does not resolve) must leave nothing behind: neither in
				// the OCI spec passed in nor in the cache (later injections of the history are judged as always)
				g := initial()
				req := request(q, "vendor.com/class=no-such-device", "second.org/class=dev2", "second.org/class=no-such-either")
				sent := append([]string{}, req...)
				unres, ferr := cache.InjectDevices(g, req...)
				if !reflect.DeepEqual(req, sent) {
					return fail("failing-injection-modified-the-request", fmt.Sprintf("a failed injection changed the caller's request slice from %v to %v", sent, req), step, sent, req)
				}
				if ferr == nil || len(unres) != 2 {
					return fail("failing-injection-accepted", fmt.Sprintf("a request with an unknown device returned %v, %v", unres, ferr), step, nil, nil)
				}
				if ok, where := refmodel.OCIEqual(initial(), g); !ok {
					return fail("failing-injection-modified-oci-spec:"+where, "a failed injection changed the OCI spec", step, refmodel.Normalise(initial()), refmodel.Normalise(g))
				}
			case "device-apply":
				applyErr = cache.GetDevice(q).ApplyEdits(got)
				wantEdits = rawCopy().Devices[0].ContainerEdits
				check = true
			case "spec-apply":
				applyErr = cache.GetDevice(q).GetSpec().ApplyEdits(got)
				wantEdits = rawCopy().ContainerEdits
				check = true
			case "host-renumber":
				_ = nodes.Replace("char", "c", 1, 5)
				_ = nodes.Replace("block", "b", 7, 9)
			case "host-retype":
				_ = nodes.Replace("char", "b", 8, 8)
				_ = nodes.Replace("fifo", "c", 4, 4)
			case "write-back":
				sp := cache.GetDevice(q).GetSpec()
				werr := cache.WriteSpec(sp.Spec, "copy.json")
				if werr != nil {
					return fail("write-back-fails:"+c.Version+":after-"+fmt.Sprint(injections)+"-injections", "writing the cached Spec back failed: "+werr.Error(), step, nil, werr.Error())
				}
				back, rerr := cdi.ReadSpec(filepath.Join(specDir, "copy.json"), 0)
				_ = os.Remove(filepath.Join(specDir, "copy.json"))
				if rerr != nil {
					return fail("write-back-unreadable", "the written copy does not load: "+rerr.Error(), step, nil, nil)
				}
				if image(back.Spec) != original {
					return fail("write-back-differs:"+diffField(original, image(back.Spec)), "the written copy differs from the Spec as loaded", step, json.RawMessage(original), json.RawMessage(image(back.Spec)))
				}
			}
			if check {
				injections++
				want, werr := refmodel.ApplyEdits(initial(), &wantEdits, gen.Stat)
				if (werr != nil) != (applyErr != nil) {
					return fail("injection-error-mismatch:"+op, fmt.Sprintf("model error %v, implementation error %v", werr, applyErr), step, fmt.Sprint(werr), fmt.Sprint(applyErr))
				}
				if werr == nil {
					if ok, where := refmodel.OCIEqual(want, got); !ok {
						return fail("stale-or-wrong-host-attributes:"+op+":"+where, "injection result does not reflect the Spec and the current host node", step, refmodel.Normalise(want), refmodel.Normalise(got))
					}
				}
			}
			if now := cachedImage(); now != loaded {
				return fail("cached-spec-mutated:"+diffField(loaded, now), "the cached Spec/Device images changed", step, loaded, now)
			}
		}
		return hx.Result{Outcome: fmt.Sprintf("holds:%d-steps", len(c.History)), Nontrivial: injections > 0}
	})
}

func appendEdits(dst *specs.ContainerEdits, e specs.ContainerEdits) {
	dst.Env = append(dst.Env, e.Env...)
	dst.DeviceNodes = append(dst.DeviceNodes, e.DeviceNodes...)
	dst.Hooks = append(dst.Hooks, e.Hooks...)
	dst.Mounts = append(dst.Mounts, e.Mounts...)
	if e.IntelRdt != nil {
		dst.IntelRdt = e.IntelRdt
	}
	dst.AdditionalGIDs = append(dst.AdditionalGIDs, e.AdditionalGIDs...)
}

// diffField names the JSON member names that appear in b but not in a (or "values").
func diffField(a, b string) string {
	var fields []string
	for _, f := range []string{"hostPath", "type", "major", "minor"} {
		if strings.Count(a, `"`+f+`"`) != strings.Count(b, `"`+f+`"`) {
			fields = append(fields, f)
		}
	}
	if len(fields) == 0 {
		return "values"
	}
	return strings.Join(fields, "+")
}

func main() {
	r := hx.Start("C14", "model_checking")
	base, err := os.MkdirTemp("/dev/shm", "verif-c14-")
	if err != nil {
		base, _ = os.MkdirTemp("", "verif-c14-")
	}
	defer os.RemoveAll(base)
	if r.Replay != "" {
		var c Case
		r.LoadReplay(&c)
		res := eval(c, filepath.Join(base, "replay"))
		os.RemoveAll(base)
		hx.ReplayExit("C14", res)
	}
	depth := 3
	if r.Thorough() {
		depth = 4
	}
	var histories [][]string
	var rec func(cur []string)
	rec = func(cur []string) {
		if len(cur) > 0 {
			histories = append(histories, append([]string{}, cur...))
		}
		if len(cur) == depth {
			return
		}
		for _, o := range ops {
			rec(append(cur, o))
		}
	}
	rec(nil)
	var cases []Case
	for _, ver := range []string{"0.3.0", "0.5.0", "1.0.0"} {
		for _, sn := range append([]string{"none"}, nodeTemplates...) {
			for _, dn := range nodeTemplates {
				if ver == "0.3.0" && (usesHostPath(sn) || usesHostPath(dn)) {
					continue
				}
				if !r.Thorough() && sn != "none" && sn != "path-only-char" && sn != "type-only-block" && sn != "hostpath-char" {
					continue
				}
				if ver == "1.0.0" && !r.Thorough() && !(dn == "hostpath-char" || dn == "fully-specified" || dn == "type-only-block" || dn == "hostpath-char-mode-uid-gid" || dn == "minor-only-typed-char") {
					continue
				}
				for _, h := range histories {
					cases = append(cases, Case{Version: ver, SpecNode: sn, DevNode: dn, History: h})
					if ver != "0.5.0" && (sn == "none" || sn == "hostpath-char") {
						cases = append(cases, Case{Version: ver, SpecNode: sn, DevNode: dn, History: h, Behind: true})
					}
				}
			}
		}
	}
	_ = reflect.DeepEqual
	r.Rule = fmt.Sprintf("Spec contents = declared version {0.3.0, 0.5.0} x spec-level device node {none + templates} x device-level device node over the templates %v (hostPath / type / major specified or not; hostPath only with 0.5.0), real mknod host nodes; "+
		"histories = every sequence of length 1..%d over %v (%d histories) replayed on a freshly loaded cache, for part of the contents also with a Spec file added to the directory after the (manual-refresh) cache loaded it. Oracle after every step: JSON image of every cached Spec and Device unchanged; every injection equals the reference transformer applied to the Spec as written with the host node as it is now; "+
		"write-back of the cached raw Spec succeeds and reads back equal. Distinct by construction; non-trivial = the history contains at least one injection/apply", nodeTemplates, depth, ops, len(histories))
	r.Assumptions = []string{"host changes are limited to two renumberings and two type changes of the nodes", "one Spec file with two devices per cache"}
	nw := 16
	pool := make(chan string, nw)
	for i := 0; i < nw; i++ {
		pool <- filepath.Join(base, fmt.Sprintf("w%d", i))
	}
	r.ParallelL(int64(len(cases)), func(i int64, l *hx.Local) {
		d := <-pool
		res := eval(cases[i], d)
		pool <- d
		r.Transitions.Add(int64(len(cases[i].History)))
		r.States.Add(1)
		l.Record(res, func() any { return map[string]any{"case": cases[i], "outcome": res.Outcome} })
	})
	os.RemoveAll(base)
	r.Finish()
}
