package main

import (
	"encoding/json"
	"fmt"
	"os"
	"os/exec"
	"path/filepath"

	"verif/mc/hx"
)

type resOut struct {
	Cycles         int    `json:"cycles"`
	Fds            int    `json:"fds"`
	InotifyFds     int    `json:"inotify_fds"`
	Watches        int    `json:"watches"`
	Goroutines     int    `json:"goroutines"`
	ShortageOK     bool   `json:"shortage_cache_answers_current_contents"`
	ShortageDetail string `json:"shortage_detail"`
}

// realResources: on the unmodified build, descriptor / inotify watch / goroutine counts after 10
// and after 60 reconfiguration cycles must be equal, and a cache created while no descriptor
// is available (RLIMIT_NOFILE) must answer from the current directory contents afterwards.
func realResources(r *hx.Run) {
	helper := filepath.Join(hx.VerifRoot, ".bin", "c11real")
	run := func(cycles int) (*resOut, error) {
		in, out := filepath.Join(scratch, "res-in.json"), filepath.Join(scratch, "res-out.json")
		_ = os.WriteFile(in, []byte(fmt.Sprintf(`{"deadline_ms": %d}`, cycles)), 0o644)
		if o, err := exec.Command(helper, "resources", in, out).CombinedOutput(); err != nil {
			return nil, fmt.Errorf("%v: %s", err, o)
		}
		b, err := os.ReadFile(out)
		if err != nil {
			return nil, err
		}
		var ro resOut
		return &ro, json.Unmarshal(b, &ro)
	}
	a, err := run(10)
	if err != nil {
		r.Extra["real_resources"] = "skipped: " + err.Error()
		return
	}
	b, err := run(60)
	if err != nil {
		r.Extra["real_resources"] = "skipped: " + err.Error()
		return
	}
	r.Extra["real_resources"] = map[string]any{"after_10_cycles": a, "after_60_cycles": b}
	r.Traces.Add(2)
	if a.Fds != b.Fds || a.InotifyFds != b.InotifyFds || a.Watches != b.Watches || a.Goroutines != b.Goroutines {
		r.Fail(&hx.Failure{Sig: "real-resource-growth", Msg: fmt.Sprintf("unmodified build: resources grow with the number of reconfigurations: after 10 cycles %+v, after 60 cycles %+v", *a, *b), Case: "resources 10 vs 60 cycles"})
	}
	if !a.ShortageOK {
		r.Fail(&hx.Failure{Sig: "real-descriptor-shortage", Msg: "unmodified build: a cache created while no descriptor was available does not answer from the current directory contents: " + a.ShortageDetail, Case: "RLIMIT_NOFILE"})
	}
}
