// C20 — reconfiguring a cache equals creating a new one, with bounded resources.
// Engine B: histories (bounded depth) of option changes, directory changes and queries on one
// cache object (and on the package-level default cache) run under the controlled scheduler
// with the watcher goroutines and the virtual fsnotify readers; watcher pacing within the
// preemption bound; failures of watcher creation (EMFILE) and watch registration (ENOSPC)
// within the fault bound. After the history: drain, query twice, probe every directory.
package main

import (
	"bytes"
	"encoding/json"
	"fmt"
	"os"
	"os/exec"
	"path/filepath"
	"reflect"
	"runtime/debug"
	"sort"
	"strconv"
	"strings"
	"time"

	"tags.cncf.io/container-device-interface/pkg/cdi"
	"tags.cncf.io/container-device-interface/verifshim/sched"
	"tags.cncf.io/container-device-interface/verifshim/vfs"
	"verif/mc/dirmodel"
	"verif/mc/explore"
	"verif/mc/fsops"
	"verif/mc/hx"
)

type modelFS struct{}

func (modelFS) WriteFile(p string, d []byte, m os.FileMode) error { return vfs.WriteFile(p, d, m) }
func (modelFS) Rename(o, n string) error                          { return vfs.Rename(o, n) }
func (modelFS) Remove(p string) error                             { return vfs.Remove(p) }
func (modelFS) RemoveAll(p string) error                          { return vfs.RemoveAll(p) }
func (modelFS) Mkdir(p string, m os.FileMode) error               { return vfs.Mkdir(p, m) }
func (modelFS) Link(o, n string) error                            { return vfs.Link(o, n) }
func (modelFS) Symlink(o, n string) error                         { return vfs.Symlink(o, n) }
func (modelFS) CreateEmpty(p string) error                        { return vfs.CreateEmpty(p) }

// Step is one history element.
type Step struct {
	Kind string    `json:"kind"` // configure | fs | query
	Dirs []string  `json:"dirs"` // nil = not changed; empty = reconfigured with an empty directory list
	Auto *bool     `json:"auto_refresh,omitempty"`
	Op   *fsops.Op `json:"op,omitempty"`
}

func (s Step) String() string {
	switch s.Kind {
	case "configure":
		var p []string
		if s.Dirs != nil {
			p = append(p, "dirs="+strings.Join(s.Dirs, ","))
		}
		if s.Auto != nil {
			p = append(p, fmt.Sprintf("auto=%v", *s.Auto))
		}
		return "Configure(" + strings.Join(p, " ") + ")"
	case "fs":
		return s.Op.String()
	}
	return "query"
}

type Case struct {
	Flavor   string   `json:"cache"` // own | default
	History  []Step   `json:"history"`
	Mode     string   `json:"mode"`
	Eager    bool     `json:"eager_default_order"`
	Choices  []int    `json:"choices"`
	Schedule []string `json:"schedule,omitempty"`
}

func bp(b bool) *bool { return &b }

// smallAlphabet: the operations that matter most for reconfiguration (used where the depth or
// the deviation bound is higher).
func smallAlphabet() []Step {
	var a []Step
	a = append(a, Step{Kind: "configure", Dirs: []string{"d1", "d0"}}, Step{Kind: "configure", Dirs: []string{"d0"}}, Step{Kind: "configure", Auto: bp(true)}, Step{Kind: "configure", Auto: bp(false)},
		Step{Kind: "configure", Dirs: []string{}})
	for _, o := range []fsops.Op{{Kind: "write", Dir: "d0", Name: "x.yaml", Content: "A"}, {Kind: "mkdir", Dir: "d1"}, {Kind: "rmtree", Dir: "d1"}} {
		o := o
		a = append(a, Step{Kind: "fs", Op: &o})
	}
	a = append(a, Step{Kind: "query"})
	return a
}

func alphabet() []Step {
	var a []Step
	for _, d := range [][]string{{"d0", "d1"}, {"d1", "d0"}, {"d0"}, {"d0", "d1", "d2"}, {}} {
		a = append(a, Step{Kind: "configure", Dirs: d})
	}
	a = append(a, Step{Kind: "configure", Auto: bp(true)}, Step{Kind: "configure", Auto: bp(false)}, Step{Kind: "configure", Dirs: []string{"d1", "d2"}, Auto: bp(true)})
	for _, o := range []fsops.Op{{Kind: "write", Dir: "d0", Name: "x.yaml", Content: "A"}, {Kind: "write", Dir: "d1", Name: "x.yaml", Content: "B"}, {Kind: "mkdir", Dir: "d1"}, {Kind: "rmtree", Dir: "d1"}, {Kind: "unlink", Dir: "d0", Name: "x.yaml"},
		{Kind: "move-in", Dir: "d2", Name: "y.json", Content: "Y"}} {
		o := o
		a = append(a, Step{Kind: "fs", Op: &o})
	}
	a = append(a, Step{Kind: "query"})
	return a
}

var scratch string
var initialDirs = []string{"d0", "d1"} // d1 is missing at the start
var presentDirs = []string{"d0", "d2"}

func setupTree(root string) {
	_ = os.RemoveAll(root)
	_ = os.MkdirAll(filepath.Join(root, "outside"), 0o755)
	for _, d := range presentDirs {
		_ = os.MkdirAll(filepath.Join(root, d), 0o755)
	}
}

func histories(depth int, small bool) [][]Step {
	alpha := alphabet()
	if small {
		alpha = smallAlphabet()
	}
	var out [][]Step
	root := filepath.Join(scratch, "enum")
	var rec func(cur []Step)
	rec = func(cur []Step) {
		if len(cur) == depth {
			return
		}
		for _, st := range alpha {
			h := append(append([]Step{}, cur...), st)
			// applicability of the file-system steps
			setupTree(root)
			ok := true
			for i, s := range h {
				if s.Kind == "fs" {
					if err := fsops.Apply(fsops.RealFS{}, root, *s.Op, i); err != nil {
						ok = false
						break
					}
				}
			}
			if !ok {
				continue
			}
			// two queries in a row or a trailing query add nothing
			if st.Kind == "query" && len(cur) > 0 && cur[len(cur)-1].Kind == "query" {
				continue
			}
			out = append(out, h)
			rec(h)
		}
	}
	rec(nil)
	_ = os.RemoveAll(root)
	return out
}

type finalOpts struct {
	dirs []string
	auto bool
}

func finalOptions(h []Step) finalOpts {
	f := finalOpts{dirs: initialDirs, auto: true}
	for _, s := range h {
		if s.Kind == "configure" {
			if s.Dirs != nil {
				f.dirs = s.Dirs
			}
			if s.Auto != nil {
				f.auto = *s.Auto
			}
		}
	}
	return f
}

func absDirs(root string, ds []string) []string {
	var p []string
	for _, d := range ds {
		p = append(p, filepath.Join(root, d))
	}
	return p
}

func fileErrs(o dirmodel.Observation, dirSet map[string]bool) []string {
	var e []string
	for _, p := range o.ErrPaths {
		if !dirSet[p] {
			e = append(e, filepath.Base(filepath.Dir(p))+"/"+filepath.Base(p))
		}
	}
	return e
}

func sameAnswers(a, b dirmodel.Observation, dirSet map[string]bool) (bool, string, string) {
	if !reflect.DeepEqual(a.Devices, b.Devices) && !(len(a.Devices) == 0 && len(b.Devices) == 0) {
		return false, "devices", fmt.Sprintf("devices %v, a new cache lists %v", a.Devices, b.Devices)
	}
	if !reflect.DeepEqual(a.Paths, b.Paths) || !reflect.DeepEqual(a.Markers, b.Markers) || !reflect.DeepEqual(a.Prios, b.Prios) {
		return false, "definitions", fmt.Sprintf("definitions %v %v, a new cache has %v %v", a.Markers, a.Prios, b.Markers, b.Prios)
	}
	ea, eb := fileErrs(a, dirSet), fileErrs(b, dirSet)
	if !reflect.DeepEqual(ea, eb) && !(len(ea) == 0 && len(eb) == 0) {
		return false, "errors", fmt.Sprintf("files in error %v, a new cache reports %v", ea, eb)
	}
	return true, "", ""
}

func keysOf(m map[string]error, root string) []string {
	var k []string
	for p := range m {
		r, _ := filepath.Rel(root, p)
		k = append(k, r)
	}
	sort.Strings(k)
	return k
}

func scenario(flavor string, h []Step, mode string, eager bool) *explore.Scenario {
	sc := &explore.Scenario{Name: fmt.Sprint(h), Eager: eager, MaxSteps: 100000}
	switch mode {
	case "p1":
		sc.Bounds = explore.Bounds{Preemptions: 1}
	case "p2":
		sc.Bounds = explore.Bounds{Preemptions: 2}
	case "f1":
		sc.Bounds = explore.Bounds{Faults: 1}
	case "f1p1":
		sc.Bounds = explore.Bounds{Faults: 1, Preemptions: 1}
	case "f2":
		sc.Bounds = explore.Bounds{Faults: 2}
	case "p3":
		sc.Bounds = explore.Bounds{Preemptions: 3}
	case "p4":
		sc.Bounds = explore.Bounds{Preemptions: 4}
	case "f1p2":
		sc.Bounds = explore.Bounds{Faults: 1, Preemptions: 2}
	case "pall": // every schedule (no preemption bound; feasible with the explorer's state cache)
		sc.Bounds = explore.Bounds{Preemptions: 1 << 20}
	case "f1pall":
		sc.Bounds = explore.Bounds{Faults: 1, Preemptions: 1 << 20}
	}
	faulty := strings.HasPrefix(mode, "f")
	sc.New = func() *explore.Instance {
		root := filepath.Join(scratch, "x")
		setupTree(root)
		w := vfs.Reset(root)
		w.CoarseReads = true
		w.FaultFor = func(t *sched.Thread, op, path string) []string {
			if !faulty {
				return nil
			}
			switch op {
			case "inotify_init":
				return []string{"EMFILE"}
			case "inotify_add_watch":
				return []string{"ENOSPC"}
			}
			return nil
		}
		fin := finalOptions(h)
		var obs2 dirmodel.Observation
		var dirErrGot, dirErrFresh []string
		var probeSeen map[string]bool
		var liveInstances, liveWatches, liveWatchGoroutines int
		var watchPaths string
		var applyErr error
		manualMismatch := ""
		faultHit := false
		in := &explore.Instance{Names: []string{"main"}}
		in.Threads = []func(){func() {
			var cache *cdi.Cache
			configure := func(opts ...cdi.Option) {
				if flavor == "default" {
					_ = cdi.Configure(opts...)
					cache = cdi.GetDefaultCache()
				} else if cache == nil {
					cache, _ = cdi.NewCache(opts...)
				} else {
					_ = cache.Configure(opts...)
				}
			}
			if flavor == "default" {
				cdi.VerifResetDefaultCache()
				cdi.DefaultSpecDirs = absDirs(root, initialDirs)
			} else {
				opt, reuse := dirmodel.Dirs(absDirs(root, initialDirs)...)
				configure(opt)
				reuse() // the caller's slice is used for something else once the call has returned
			}
			for i, s := range h {
				switch s.Kind {
				case "configure":
					var opts []cdi.Option
					reuse := func() {}
					if s.Dirs != nil {
						var opt cdi.Option
						opt, reuse = dirmodel.Dirs(absDirs(root, s.Dirs)...)
						opts = append(opts, opt)
					}
					if s.Auto != nil {
						opts = append(opts, cdi.WithAutoRefresh(*s.Auto))
					}
					configure(opts...)
					reuse()
					// a cache switched (or left) in manual mode by a reconfiguration must answer like a new
					// manual cache created now: a new cache scans when it is created, so the reconfigured
					// one must have scanned too (later directory changes are invisible to both)
					cur := finalOptions(h[:i+1])
					if !cur.auto && cache != nil && manualMismatch == "" {
						ds := map[string]bool{}
						for _, p := range absDirs(root, []string{"d0", "d1", "d2"}) {
							ds[p] = true
						}
						nc, _ := cdi.NewCache(cdi.WithSpecDirs(absDirs(root, cur.dirs)...), cdi.WithAutoRefresh(false))
						if ok, what, detail := sameAnswers(dirmodel.Observe(cache), dirmodel.Observe(nc), ds); !ok {
							manualMismatch = what + ": right after " + s.String() + ": " + detail
						}
					}
				case "fs":
					if err := fsops.Apply(modelFS{}, root, *s.Op, i); err != nil {
						applyErr = fmt.Errorf("%s: %w", s, err)
						return
					}
				case "query":
					if cache == nil {
						configure()
						cache = cdi.GetDefaultCache()
					}
					_ = cache.ListDevices()
				}
			}
			if cache == nil {
				cache = cdi.GetDefaultCache()
			}
			sched.Quiesce("history done")
			if !fin.auto {
				// manual mode: a new cache scans when it is created; this one when it is told to
				_ = cache.Refresh()
			}
			_ = dirmodel.Observe(cache)
			sched.Quiesce("first queries done")
			obs2 = dirmodel.Observe(cache)
			dirErrGot = keysOf(cache.GetSpecDirErrors(), root)
			liveInstances, liveWatches = vfs.LiveInstances(), vfs.LiveWatches()
			liveWatchGoroutines = sched.AliveNamed("watch")
			watchPaths = vfs.WatchSummary()
			// a new cache with the final options, for the directory-error comparison
			w.FaultFor = nil
			var opts []cdi.Option
			opts = append(opts, cdi.WithSpecDirs(absDirs(root, fin.dirs)...), cdi.WithAutoRefresh(fin.auto))
			fresh, _ := cdi.NewCache(opts...)
			_ = fresh.ListDevices()
			dirErrFresh = keysOf(fresh.GetSpecDirErrors(), root)
			_ = fresh.Configure(cdi.WithAutoRefresh(false))
			// probes: a new Spec in every existing directory; visible without Refresh iff auto-refresh is on and the directory is configured
			probeSeen = map[string]bool{}
			for _, d := range []string{"d0", "d1", "d2"} {
				if _, err := os.Stat(filepath.Join(root, d)); err != nil {
					continue
				}
				_ = vfs.WriteFile(filepath.Join(root, d, "probe.json"), []byte(`{"cdiVersion":"0.5.0","kind":"probe.org/`+d+`","devices":[{"name":"p","containerEdits":{"env":["P=1"]}}]}`), 0o644)
			}
			sched.Quiesce("probes written")
			_ = cache.ListDevices()
			sched.Quiesce("probe query 1")
			for _, q := range cache.ListDevices() {
				if strings.HasPrefix(q, "probe.org/") {
					probeSeen[strings.TrimSuffix(strings.TrimPrefix(q, "probe.org/"), "=p")] = true
				}
			}
		}}
		in.Check = func(e *sched.Exec) (string, string, any) {
			if applyErr != nil {
				return "harness-op-failed", applyErr.Error(), nil
			}
			for _, p := range e.Trace {
				if p.Kind != sched.KindSched && p.Chosen != 0 {
					faultHit = true
				}
			}
			last := ""
			for _, s := range h {
				if s.Kind == "configure" {
					last = "after-" + s.String()
				}
			}
			if manualMismatch != "" {
				return "manual-reconfiguration-differs-from-new-cache:" + strings.SplitN(manualMismatch, ":", 2)[0], fmt.Sprintf("in %v: %s", h, manualMismatch), nil
			}
			// (1) answers equal a new cache with the final options on the tree as it was before the probes
			for _, d := range []string{"d0", "d1", "d2"} {
				_ = os.Remove(filepath.Join(root, d, "probe.json"))
			}
			dirSet := map[string]bool{}
			for _, p := range absDirs(root, []string{"d0", "d1", "d2"}) {
				dirSet[p] = true
			}
			freshManual, _ := cdi.NewCache(cdi.WithSpecDirs(absDirs(root, fin.dirs)...), cdi.WithAutoRefresh(false))
			if ok, what, detail := sameAnswers(obs2, dirmodel.Observe(freshManual), dirSet); !ok {
				return "differs-from-new-cache:" + what + ":" + last, fmt.Sprintf("after %v: %s", h, detail), nil
			}
			// (2) directory errors, when no fault was injected
			if !faultHit && !reflect.DeepEqual(dirErrGot, dirErrFresh) && !(len(dirErrGot) == 0 && len(dirErrFresh) == 0) {
				return "directory-errors-differ:" + last, fmt.Sprintf("after %v: directory errors %v, a new cache with the final options reports %v", h, dirErrGot, dirErrFresh), nil
			}
			// (3) auto-refresh live iff enabled, in exactly the final directories
			for _, d := range []string{"d0", "d1", "d2"} {
				if _, err := os.Stat(filepath.Join(root, d)); err != nil {
					continue
				}
				configured := false
				for _, f := range fin.dirs {
					if f == d {
						configured = true
					}
				}
				want := configured && fin.auto
				if probeSeen[d] != want {
					return fmt.Sprintf("auto-refresh-liveness:%s:probe-seen=%v:want=%v:%s", map[bool]string{true: "configured-dir", false: "dropped-dir"}[configured], probeSeen[d], want, last),
						fmt.Sprintf("after %v: a Spec written to %s (configured=%v, auto-refresh=%v) became visible without Refresh: %v", h, d, configured, fin.auto, probeSeen[d]), nil
				}
			}
			// (4) bounded resources
			maxInst := 1
			if !fin.auto {
				maxInst = 0
			}
			if liveInstances > maxInst || liveWatches > len(fin.dirs) || liveWatchGoroutines > maxInst {
				return fmt.Sprintf("resource-leak:instances=%d:watches=%d:goroutines=%d:%s", liveInstances, liveWatches, liveWatchGoroutines, last),
					fmt.Sprintf("after %v: %d inotify instances, %d watches (%s), %d watcher goroutines alive; final options: %d directories, auto-refresh %v", h, liveInstances, liveWatches, watchPaths, liveWatchGoroutines, len(fin.dirs), fin.auto), nil
			}
			return "", "", nil
		}
		in.Observe = func() string {
			return fmt.Sprintf("devices=%v auto=%v inst=%d watches=%d probes=%v", obs2.Devices, fin.auto, liveInstances, liveWatches, probeSeen)
		}
		return in
	}
	return sc
}

type workerOut struct {
	Index      int                 `json:"index"`
	Flavor     string              `json:"flavor"`
	Mode       string              `json:"mode"`
	Eager      bool                `json:"eager"`
	Executions int64               `json:"executions"`
	Points     int64               `json:"points"`
	Outcomes   map[string]int64    `json:"outcomes"`
	Violations []explore.Violation `json:"violations"`
	Capped     bool                `json:"capped"`
	Infra      string              `json:"infra"`
	Pruned     int64               `json:"pruned"`
	States     int64               `json:"hb_states"`
}

type plan struct {
	depth   int
	small   bool     // small alphabet
	modes   []string // deviation bounds
	flavors []string // own | default
}

func plans(thorough bool) []plan {
	if s := os.Getenv("VERIF_C20_PLAN"); s != "" { // e.g. "3,small,p2,own" (experiments)
		f := strings.Split(s, ",")
		d, _ := strconv.Atoi(f[0])
		return []plan{{d, f[1] == "small", []string{f[2]}, []string{f[3]}}}
	}
	if thorough {
		return []plan{{2, false, []string{"p2", "f1p1", "f2"}, []string{"own", "default"}}, {3, false, []string{"p1", "f1"}, []string{"own", "default"}},
			{3, true, []string{"p2", "f1p1"}, []string{"own"}}, {4, true, []string{"p1"}, []string{"own"}}, {2, true, []string{"p3"}, []string{"own"}}}
	}
	return []plan{{2, true, []string{"p2", "f1p1"}, []string{"own"}}, {2, false, []string{"p1", "f1"}, []string{"own", "default"}}, {3, true, []string{"p1"}, []string{"own"}}}
}

// state-cache statistics of the explorer, summed over scenarios
var cutExecs, hbStates int64

func main() {
	explore.BeforeExec = []func(){cdi.VerifResetGlobals}
	for i, a := range os.Args {
		if a == "-worker" {
			debug.SetGCPercent(800)
			debug.SetMemoryLimit(2 << 30) // one of up to 16 worker processes: the collector works harder near 2 GiB instead of letting the heap grow to 9x the live data
			var err error
			scratch, err = os.MkdirTemp("/dev/shm", "verif-c20w-")
			if err != nil {
				scratch, _ = os.MkdirTemp("", "verif-c20w-")
			}
			parts := strings.Split(os.Args[i+1], "/")
			wi, _ := strconv.Atoi(parts[0])
			wn, _ := strconv.Atoi(parts[1])
			thorough := os.Args[i+2] == "thorough"
			dl, _ := strconv.ParseInt(os.Args[i+3], 10, 64)
			enc := json.NewEncoder(os.Stdout)
			k := 0
			done := map[string]bool{}
			for _, pl := range plans(thorough) {
				for hi, h := range histories(pl.depth, pl.small) {
					for _, mode := range pl.modes {
						key := fmt.Sprint(h, mode, pl.flavors)
						if done[key] {
							continue
						}
						done[key] = true
						// two preemptions only pay off where a watcher goroutine can meet a reconfiguration:
						// the history must contain both a Configure and a directory change
						if mode != "p1" && mode != "f1" && mode != "f2" {
							hasC, hasF := false, false
							for _, s := range h {
								hasC = hasC || s.Kind == "configure"
								hasF = hasF || s.Kind == "fs"
							}
							if !hasC || !hasF {
								continue
							}
						}
						for _, flavor := range pl.flavors {
							for _, eager := range []bool{true, false} {
								if eager && mode != "p1" && mode != "f1" && mode != "f1p1" {
									continue // with two deviations the lazy order's schedule set covers the eager default's neighbourhood
								}
								k++
								if k%wn != wi {
									continue
								}
								res := explore.Explore(scenario(flavor, h, mode, eager), time.Unix(dl, 0))
								_ = enc.Encode(workerOut{Index: hi, Flavor: flavor, Mode: mode, Eager: eager, Executions: res.Executions, Points: res.Points, Outcomes: res.Outcomes, Violations: res.Violations, Capped: res.Capped, Infra: res.Infra, Pruned: res.Pruned, States: res.States})
							}
						}
					}
				}
			}
			os.RemoveAll(scratch)
			return
		}
	}
	r := hx.Start("C20", "model_checking")
	var err error
	scratch, err = os.MkdirTemp("/dev/shm", "verif-c20-")
	if err != nil {
		scratch, _ = os.MkdirTemp("", "verif-c20-")
	}
	defer os.RemoveAll(scratch)
	if r.Replay != "" {
		var c Case
		r.LoadReplay(&c)
		sc := scenario(c.Flavor, c.History, "p2", c.Eager)
		sc.Bounds = explore.Bounds{Preemptions: 99, Faults: 99}
		if strings.HasPrefix(c.Mode, "f") {
			sc = scenario(c.Flavor, c.History, "f2", c.Eager)
			sc.Bounds = explore.Bounds{Preemptions: 99, Faults: 99}
		}
		_, _, v1 := explore.RunOnce(sc, c.Choices, true)
		_, _, v2 := explore.RunOnce(sc, c.Choices, true)
		os.RemoveAll(scratch)
		if (v1 == nil) != (v2 == nil) {
			fmt.Println("INFRA: replay is not deterministic")
			os.Exit(2)
		}
		if v1 != nil {
			fmt.Printf("replay: still FAILS: %s: %s\nVIOLATION property=C20 replay=(replayed)\n", v1.Sig, v1.Msg)
			os.Exit(1)
		}
		fmt.Println("replay: case passes now")
		os.Exit(0)
	}
	// recorded schedules of earlier findings are replayed first (cheap regression guard; the
	// exploration below does not depend on them)
	regs, _ := filepath.Glob(filepath.Join(hx.VerifRoot, "regress", "C20-*.json"))
	replayed := 0
	for _, f := range regs {
		b, err := os.ReadFile(f)
		if err != nil {
			continue
		}
		var doc struct {
			Case Case `json:"case"`
		}
		if json.Unmarshal(b, &doc) != nil || len(doc.Case.History) == 0 {
			continue
		}
		sc := scenario(doc.Case.Flavor, doc.Case.History, "p2", doc.Case.Eager)
		e, _, v := explore.RunOnce(sc, doc.Case.Choices, false)
		if e.Diverged != "" {
			continue // the code changed shape; the recorded schedule no longer applies
		}
		replayed++
		r.AddEvals(1, 1)
		if v != nil {
			r.Fail(&hx.Failure{Sig: v.Sig, Msg: v.Msg + " [recorded schedule " + filepath.Base(f) + "]", Case: doc.Case, Rank: 1})
		}
	}
	r.Extra["recorded_schedules_replayed"] = replayed
	nw := 16
	results := make(chan workerOut, 8192)
	done := make(chan error, nw)
	for w := 0; w < nw; w++ {
		go func(w int) {
			cmd := exec.Command(os.Args[0], "-worker", fmt.Sprintf("%d/%d", w, nw), r.Tier, strconv.FormatInt(r.Deadline.Unix(), 10))
			cmd.Stderr = os.Stderr
			out, err := cmd.Output()
			dec := json.NewDecoder(bytes.NewReader(out))
			for {
				var o workerOut
				if dec.Decode(&o) != nil {
					break
				}
				results <- o
			}
			done <- err
		}(w)
	}
	go func() {
		for w := 0; w < nw; w++ {
			if err := <-done; err != nil {
				fmt.Println("INFRA: worker failed:", err)
				os.Exit(2)
			}
		}
		close(results)
	}()
	hcache := map[int][][]Step{}
	for _, pl := range plans(r.Thorough()) {
		hcache[pl.depth*2+map[bool]int{true: 1}[pl.small]] = histories(pl.depth, pl.small)
	}
	scen := 0
	for o := range results {
		scen++
		if o.Infra != "" {
			fmt.Println("INFRA:", o.Infra)
			os.RemoveAll(scratch)
			os.Exit(2)
		}
		if o.Capped {
			r.Cap("time cap hit")
		}
		r.AddEvals(o.Executions, o.Executions)
		cutExecs, hbStates = cutExecs+o.Pruned, hbStates+o.States
		r.Extra["executions_cut_at_an_explored_state"], r.Extra["happens_before_states_stored"] = cutExecs, hbStates
		r.States.Add(o.Points)
		r.Transitions.Add(o.Points)
		for k := range o.Outcomes {
			r.Outcome(k)
		}
		if scen%97 == 1 {
			// a few scenarios as they were explored: which cache, which bounds, how many complete executions, what was observed at their ends
			r.AddSample(map[string]any{"history_index_in_its_plan": o.Index, "cache": o.Flavor, "deviation_bounds": o.Mode, "eager_default_order": o.Eager, "executions": o.Executions, "choice_points": o.Points, "final_observations": o.Outcomes})
		}
		for _, v := range o.Violations {
			// recover the history from the message-independent data: the worker's scenario name is in Msg; keep choices
			r.Fail(&hx.Failure{Sig: v.Sig, Msg: v.Msg + fmt.Sprintf(" [cache=%s mode=%s eager=%v]", o.Flavor, o.Mode, o.Eager), Case: Case{Flavor: o.Flavor, Mode: o.Mode, Eager: o.Eager, Choices: v.Choices, Schedule: v.Schedule,
				History: parseHistory(v.Msg, hcache)}, Rank: int64(len(v.Choices))})
		}
	}
	realResources(r)
	r.Extra["scenarios"] = scen
	var alpha []string
	for _, s := range alphabet() {
		alpha = append(alpha, s.String())
	}
	r.Rule = fmt.Sprintf("histories = every applicable sequence over %v to the depths of the plan %v (depth, deviation bounds: pN = N preemptions, fN = N failures of watcher creation (EMFILE) / watch registration (ENOSPC)), on a Cache object and on the package-level default cache (first use after cdi.Configure or by a query), "+
		"initial configuration [d0 present, d1 missing], under an eager and a lazy default order; evaluations = complete executions; states/transitions = choice points. "+
		"Oracle after drain and two query rounds: answers and file errors equal a new cache with the final options; directory errors equal (when no fault was injected); a probe Spec written to every existing directory becomes visible without Refresh iff auto-refresh is on and the directory is configured; live inotify instances <=1 (0 when off), watches <= number of final directories, watcher goroutines <=1. non-trivial = every execution", alpha, plans(r.Thorough()))
	r.Assumptions = []string{"read-only file-system calls are not scheduling points in this check (coarse points) to keep two preemptions affordable", "descriptor shortage is modelled where the statement names it: creation of the watcher and registration of watches; scan failures belong to C13",
		"real descriptor / watch / goroutine counts are compared between 10 and 60 reconfigurations on the unmodified build (evidence key real_resources)"}
	os.RemoveAll(scratch)
	r.Finish()
}

// parseHistory finds the history whose printed form occurs in the violation message.
func parseHistory(msg string, hc map[int][][]Step) []Step {
	best := []Step(nil)
	for _, hs := range hc {
		for _, h := range hs {
			if strings.Contains(msg, "after "+fmt.Sprint(h)+":") && len(h) >= len(best) {
				best = h
			}
		}
	}
	return best
}
