// C03 — container edits are applied to the OCI spec with the documented semantics.
// Product of initial-OCI-spec dimensions x edit-list dimensions (quick: all pairs of
// dimensions against two defaults; thorough: full product), real host nodes made with
// mknod, against a straight-line reference transformer (refmodel.ApplyEdits).
package main

import (
	"fmt"
	"os"
	"path/filepath"
	"strings"

	oci "github.com/opencontainers/runtime-spec/specs-go"
	"tags.cncf.io/container-device-interface/pkg/cdi"
	specs "tags.cncf.io/container-device-interface/specs-go"
	"verif/mc/gen"
	"verif/mc/hx"
	"verif/mc/refmodel"
)

var nodes *gen.HostNodes

func u32(v uint32) *uint32 { return &v }
func i64(v int64) *int64   { return &v }
func fmode(v os.FileMode) *os.FileMode {
	return &v
}
func iptr(v int) *int { return &v }

// ---- initial OCI spec dimensions
type dim struct {
	name string
	opts []string
}

var dims = []dim{
	{"process", []string{"nil", "root-env", "uid1000-gid2000-env", "uid1000-gid0", "uid0-gid2000", "gids-5-7"}},
	{"linux", []string{"nil", "empty", "devices+rules", "devices+rules+rdt", "rules-identical-to-edits", "rules-with-wildcards"}},
	{"mounts", []string{"nil", "unsorted-existing", "many-equal-depth", "many-mixed-depth"}},
	{"hooks", []string{"nil", "existing"}},
	{"env", []string{"none", "new", "override", "repeated", "override+repeated+new"}},
	{"devnodes", []string{"none", "char-unspecified", "char-specified", "block-unspecified", "fifo-unspecified", "fifo-specified", "block-type-only",
		"char-full-attrs", "char-uid0", "replace-existing", "same-path-twice", "same-path-twice-different-type", "replace+new", "no-hostpath-specified", "char-perm-r", "major-only", "only-uid-set", "only-gid-set", "uid-set-gid-zero", "mode-with-type-and-special-bits", "hostpath-names-a-node-of-the-container"}},
	{"edit-mounts", []string{"none", "new", "replace-existing", "same-dest-twice", "deep-then-shallow", "non-clean-dest", "replace+siblings", "children-before-parents-spelled-with-trailing-slash"}},
	{"edit-hooks", []string{"none", "prestart", "createRuntime", "createContainer", "startContainer", "poststart", "poststop", "two-in-one-stage", "one-per-stage"}},
	{"gids", []string{"none", "zero-only", "dup-5-5", "new-9-11", "zero-9-zero-7", "process-gid-2000-1-uid-1000"}},
	{"rdt", []string{"nil", "set", "set-empty-closid"}},
}

type Case struct {
	Idx   []int    `json:"dimension_indices"`
	Names []string `json:"dimension_values"`
	Entry string   `json:"entry_point"` // ContainerEdits.Apply | Device.ApplyEdits | Spec.ApplyEdits
	// Chain, when set, is a history of Apply calls over shared objects: step {E,S} applies edit
	// object E of chainEdits (built once per history and reused) to OCI spec S of chainSpecs.
	Chain []Step `json:"chain,omitempty"`
}

type Step struct{ E, S int }

// edit objects and initial OCI specs of the histories (index vectors into dims)
var chainEdits = [][]int{
	{0, 0, 0, 0, 1, 0, 0, 0, 0, 1},  // env new + rdt set
	{0, 0, 0, 0, 0, 0, 0, 0, 3, 2},  // gids + rdt without closid
	{0, 0, 0, 0, 4, 0, 6, 0, 0, 0},  // env override/repeated + mounts replace+siblings
	{0, 0, 0, 0, 0, 12, 0, 8, 0, 0}, // device nodes replace+new + a hook per stage
	{0, 0, 0, 0, 0, 0, 4, 0, 4, 1},  // mounts deep-then-shallow + gids + rdt set (another closid)
	{0, 0, 0, 0, 3, 7, 2, 7, 2, 0},  // env repeated, char node with all attributes, mount replaced, two hooks in a stage, gids
}
var chainSpecs = [][]int{
	{0, 0, 0, 0, 0, 0, 0, 0, 0, 0},
	{2, 3, 1, 1, 0, 0, 0, 0, 0, 0},
}

func evalChain(c Case, scratch string) hx.Result {
	return hx.Guard("", c, func() hx.Result {
		fail := func(sig, msg string, exp, act any) hx.Result {
			return hx.Result{Outcome: "FAIL", Nontrivial: true, Fail: &hx.Failure{Sig: "history:" + c.Entry + ":" + sig, Msg: msg, Case: c, Expected: exp, Actual: act, Rank: int64(len(c.Chain))}}
		}
		pristine := make([]*specs.ContainerEdits, len(chainEdits))
		for k, idx := range chainEdits {
			pristine[k] = buildEdits(Case{Idx: idx})
			if pristine[k].IntelRdt != nil && pristine[k].IntelRdt.ClosID != "" {
				pristine[k].IntelRdt.ClosID = fmt.Sprintf("clos-%d", k)
			}
		}
		// the objects under test: built once, used by every step of the history
		apply := make([]func(*oci.Spec) error, len(chainEdits))
		if c.Entry == "ContainerEdits.Apply" {
			for k := range pristine {
				e := &cdi.ContainerEdits{ContainerEdits: refmodel.CopyEdits(pristine[k])}
				apply[k] = e.Apply
			}
		} else {
			raw := &specs.Spec{Version: "1.0.0", Kind: "vendor.com/class"}
			for k := range pristine {
				raw.Devices = append(raw.Devices, specs.Device{Name: fmt.Sprintf("dev%d", k), ContainerEdits: *refmodel.CopyEdits(pristine[k])})
			}
			path := filepath.Join(scratch, "chain.json")
			if e2 := os.WriteFile(path, gen.RenderJSON(raw), 0o644); e2 != nil {
				panic(e2)
			}
			sp, rerr := cdi.ReadSpec(path, 0)
			if rerr != nil {
				return fail("spec-not-loadable", "the Spec holding the edit objects does not load: "+rerr.Error(), nil, nil)
			}
			for k := range pristine {
				apply[k] = sp.GetDevice(fmt.Sprintf("dev%d", k)).ApplyEdits
			}
		}
		want := make([]*oci.Spec, len(chainSpecs))
		got := make([]*oci.Spec, len(chainSpecs))
		for j, idx := range chainSpecs {
			want[j] = buildOCI(Case{Idx: idx})
			got[j] = refmodel.CopyOCI(want[j])
		}
		for n, st := range c.Chain {
			w, werr := refmodel.ApplyEdits(want[st.S], pristine[st.E], gen.Stat)
			if werr != nil {
				return hx.Result{Outcome: "history-model-error", Nontrivial: false}
			}
			want[st.S] = w
			if err := apply[st.E](got[st.S]); err != nil {
				return fail(fmt.Sprintf("unexpected-error:step%d", n+1), "Apply failed: "+err.Error(), nil, err.Error())
			}
			// every OCI spec of the history is compared, not only the one just edited
			for j := range want {
				if ok, where := refmodel.OCIEqual(want[j], got[j]); !ok {
					which := "the-spec-just-edited"
					if j != st.S {
						which = "another-spec"
					}
					return fail(fmt.Sprintf("differs-in:%s:%s:at-step-%d-of-%d", where, which, n+1, len(c.Chain)),
						fmt.Sprintf("after step %d of the history the OCI spec %d differs from the reference model in section(s) %s", n+1, j, where), refmodel.Normalise(want[j]), refmodel.Normalise(got[j]))
				}
			}
		}
		return hx.Result{Outcome: fmt.Sprintf("history-equal:len=%d", len(c.Chain)), Nontrivial: true}
	})
}

func (c Case) opt(d int) string { return dims[d].opts[c.Idx[d]] }

func buildOCI(c Case) *oci.Spec {
	s := &oci.Spec{Version: "1.1.0", Hostname: "keep", Root: &oci.Root{Path: "rootfs"}, Annotations: map[string]string{"keep": "me"}}
	// besides the variables the edits name, variables whose names extend or are a prefix of an
	// edited name, or differ in case: they must keep their values
	env := []string{"PATH=/bin", "VAR=old", "OTHER=keep", "EMPTY=", "VAR_EXTRA=keep", "VA=keep", "NEWER=keep", "NE=keep", "REP2=keep", "var=lower-case", "EMPTY_X=keep"}
	switch c.opt(0) {
	case "nil":
	case "root-env":
		s.Process = &oci.Process{Env: env, Cwd: "/", Args: []string{"sh"}}
	case "uid1000-gid2000-env":
		s.Process = &oci.Process{Env: env, User: oci.User{UID: 1000, GID: 2000}, Cwd: "/"}
	case "uid1000-gid0":
		s.Process = &oci.Process{User: oci.User{UID: 1000}}
	case "uid0-gid2000":
		s.Process = &oci.Process{User: oci.User{GID: 2000}, NoNewPrivileges: true}
	case "gids-5-7":
		s.Process = &oci.Process{Env: env, User: oci.User{UID: 1, GID: 1, AdditionalGids: []uint32{5, 7}}}
	}
	switch c.opt(1) {
	case "nil":
	case "empty":
		s.Linux = &oci.Linux{}
	case "rules-identical-to-edits":
		// the device cgroup rule list already holds, before a deny-all rule, allow rules identical to
		// the ones the node templates produce (the list is ordered: an appended rule is not redundant)
		s.Linux = &oci.Linux{Resources: &oci.LinuxResources{Devices: []oci.LinuxDeviceCgroup{
			{Allow: true, Type: "c", Major: i64(1), Minor: i64(3), Access: "rwm"}, {Allow: true, Type: "c", Major: i64(10), Minor: i64(200), Access: "rw"},
			{Allow: true, Type: "b", Major: i64(7), Minor: i64(0), Access: "rwm"}, {Allow: true, Type: "c", Major: i64(10), Minor: i64(20), Access: "rwm"},
			{Allow: true, Type: "c", Major: i64(1), Minor: i64(3), Access: "r"}, {Allow: true, Type: "c", Major: i64(10), Minor: i64(200), Access: "rwm"},
			{Allow: false, Access: "rwm"}}}}
	case "rules-with-wildcards":
		// rules as runtimes write them: nil (wildcard) major and / or minor for the types, majors and access
		// strings the node templates use
		var rules []oci.LinuxDeviceCgroup
		for _, ty := range []string{"c", "b", "a"} {
			for _, acc := range []string{"rwm", "rw", "r"} {
				for _, maj := range []*int64{nil, i64(1), i64(10), i64(7), i64(240)} {
					rules = append(rules, oci.LinuxDeviceCgroup{Allow: true, Type: ty, Major: maj, Access: acc})
				}
				rules = append(rules, oci.LinuxDeviceCgroup{Allow: true, Type: ty, Minor: i64(3), Access: acc})
			}
		}
		s.Linux = &oci.Linux{Resources: &oci.LinuxResources{Devices: append(rules, oci.LinuxDeviceCgroup{Allow: false, Access: "rwm"})}}
	case "devices+rules", "devices+rules+rdt":
		s.Linux = &oci.Linux{
			Devices: []oci.LinuxDevice{{Path: "/dev/existing", Type: "c", Major: 5, Minor: 6, UID: u32(7)}, {Path: "/dev/keep", Type: "b", Major: 8, Minor: 1, FileMode: fmode(0o600)}},
			Resources: &oci.LinuxResources{Devices: []oci.LinuxDeviceCgroup{{Allow: false, Access: "rwm"}, {Allow: true, Type: "c", Major: i64(5), Minor: i64(6), Access: "rw"}},
				Memory: &oci.LinuxMemory{Limit: i64(1024)}},
			Namespaces: []oci.LinuxNamespace{{Type: "pid"}},
		}
		if c.opt(1) == "devices+rules+rdt" {
			s.Linux.IntelRdt = &oci.LinuxIntelRdt{ClosID: "old", L3CacheSchema: "oldL3", EnableCMT: true}
		}
	}
	if c.opt(2) == "unsorted-existing" {
		s.Mounts = []oci.Mount{
			{Destination: "/a/b/c/d", Source: "/deep", Type: "bind"},
			{Destination: "/proc", Source: "proc", Type: "proc"},
			{Destination: "/existing/dest", Source: "/old", Options: []string{"rw"}},
			{Destination: "/x//y/", Source: "/nonclean"},
			{Destination: "/sys", Source: "sysfs", Type: "sysfs"},
		}
	}
	switch c.opt(2) {
	case "many-equal-depth":
		// more mounts than any small-slice special case of a sorting routine: 16 at the same depth
		for i := 0; i < 16; i++ {
			s.Mounts = append(s.Mounts, oci.Mount{Destination: fmt.Sprintf("/run/m%02d", (i*7)%16), Source: fmt.Sprintf("/src/%d", i)})
		}
		s.Mounts = append(s.Mounts, oci.Mount{Destination: "/existing/dest", Source: "/old"})
	case "many-mixed-depth":
		for i := 0; i < 40; i++ {
			d := "/k" + strings.Repeat(fmt.Sprintf("/p%d", i%5), i%4)
			s.Mounts = append(s.Mounts, oci.Mount{Destination: fmt.Sprintf("%s/n%02d", d, (i*11)%40), Source: fmt.Sprintf("/src/%d", i)})
		}
		s.Mounts = append(s.Mounts, oci.Mount{Destination: "/existing/dest", Source: "/old"})
	}
	if c.opt(3) == "existing" {
		s.Hooks = &oci.Hooks{Prestart: []oci.Hook{{Path: "/old/prestart", Args: []string{"a"}}}, CreateRuntime: []oci.Hook{{Path: "/old/cr"}},
			StartContainer: []oci.Hook{{Path: "/old/sc"}}, Poststop: []oci.Hook{{Path: "/old/ps1"}, {Path: "/old/ps2"}}}
	}
	return s
}

func buildEdits(c Case) *specs.ContainerEdits {
	e := &specs.ContainerEdits{}
	switch c.opt(4) {
	case "new":
		e.Env = []string{"NEW=1"}
	case "override":
		e.Env = []string{"VAR=new"}
	case "repeated":
		e.Env = []string{"REP=1", "REP=2", "REP=3"}
	case "override+repeated+new":
		e.Env = []string{"VAR=a", "NEW=1", "VAR=b", "EMPTY=now", "NEW=2=x"}
	}
	ch, ch2, bl, ff := nodes.Path("char"), nodes.Path("char2"), nodes.Path("block"), nodes.Path("fifo")
	switch c.opt(5) {
	case "char-unspecified":
		e.DeviceNodes = []*specs.DeviceNode{{Path: "/dev/ctr0", HostPath: ch}}
	case "char-specified":
		e.DeviceNodes = []*specs.DeviceNode{{Path: "/dev/ctr0", HostPath: "/nonexistent/host", Type: "c", Major: 10, Minor: 20}}
	case "block-unspecified":
		e.DeviceNodes = []*specs.DeviceNode{{Path: "/dev/ctr0", HostPath: bl}}
	case "fifo-unspecified":
		e.DeviceNodes = []*specs.DeviceNode{{Path: "/dev/ctr0", HostPath: ff}}
	case "fifo-specified":
		e.DeviceNodes = []*specs.DeviceNode{{Path: "/dev/ctr0", HostPath: "/nonexistent/fifo", Type: "p"}}
	case "block-type-only":
		e.DeviceNodes = []*specs.DeviceNode{{Path: "/dev/ctr0", HostPath: bl, Type: "b"}}
	case "char-full-attrs":
		e.DeviceNodes = []*specs.DeviceNode{{Path: "/dev/ctr0", HostPath: ch2, FileMode: fmode(0o640), Permissions: "rw", UID: u32(42), GID: u32(43)}}
	case "char-uid0":
		e.DeviceNodes = []*specs.DeviceNode{{Path: "/dev/ctr0", HostPath: ch, UID: u32(0), GID: u32(0), Permissions: "m"}}
	case "replace-existing":
		e.DeviceNodes = []*specs.DeviceNode{{Path: "/dev/existing", HostPath: ch2}}
	case "same-path-twice":
		e.DeviceNodes = []*specs.DeviceNode{{Path: "/dev/ctr0", HostPath: ch}, {Path: "/dev/ctr0", HostPath: ch2, Permissions: "r"}}
	case "same-path-twice-different-type":
		e.DeviceNodes = []*specs.DeviceNode{{Path: "/dev/ctr0", HostPath: bl}, {Path: "/dev/ctr0", HostPath: ff}}
	case "replace+new":
		e.DeviceNodes = []*specs.DeviceNode{{Path: "/dev/new", HostPath: bl, Permissions: "rw"}, {Path: "/dev/existing", HostPath: ff}, {Path: "/dev/new2", HostPath: ch}}
	case "hostpath-names-a-node-of-the-container":
		// host paths that are, as container paths, nodes the OCI spec already has or an earlier edit added:
		// a host path says where the node comes from, it replaces nothing
		e.DeviceNodes = []*specs.DeviceNode{{Path: "/dev/ctr0", HostPath: "/dev/keep", Type: "c", Major: 10, Minor: 20}, {Path: "/dev/ctr1", HostPath: "/nonexistent/host", Type: "b", Major: 11, Minor: 21},
			{Path: "/dev/ctr2", HostPath: "/dev/ctr1", Type: "c", Major: 12, Minor: 22}, {Path: "/dev/ctr3", HostPath: "/dev/existing", Type: "p"}}
	case "no-hostpath-specified":
		e.DeviceNodes = []*specs.DeviceNode{{Path: ch}} // container path = host path
	case "char-perm-r":
		e.DeviceNodes = []*specs.DeviceNode{{Path: "/dev/ctr0", HostPath: ch, Permissions: "r"}, {Path: "/dev/ctr1", HostPath: bl, Permissions: "wm"}}
	case "only-uid-set":
		e.DeviceNodes = []*specs.DeviceNode{{Path: "/dev/ctr0", HostPath: ch, UID: u32(42)}}
	case "only-gid-set":
		e.DeviceNodes = []*specs.DeviceNode{{Path: "/dev/ctr0", HostPath: bl, GID: u32(43)}, {Path: "/dev/ctr1", HostPath: ch}}
	case "uid-set-gid-zero":
		e.DeviceNodes = []*specs.DeviceNode{{Path: "/dev/ctr0", HostPath: ch, UID: u32(7), GID: u32(0)}, {Path: "/dev/ctr1", HostPath: ch2, UID: u32(0)}}
	case "mode-with-type-and-special-bits":
		// modes as a generator that copies st_mode records them (S_IFCHR|0666), and with setuid / sticky bits
		e.DeviceNodes = []*specs.DeviceNode{{Path: "/dev/ctr0", HostPath: ch, FileMode: fmode(0o20666)}, {Path: "/dev/ctr1", HostPath: bl, FileMode: fmode(0o4755)}, {Path: "/dev/ctr2", HostPath: ch2, FileMode: fmode(0o1777)}}
	case "major-only":
		e.DeviceNodes = []*specs.DeviceNode{{Path: "/dev/ctr0", HostPath: ch, Major: 99, Minor: 98}} // type from host, numbers as given
	}
	switch c.opt(6) {
	case "new":
		e.Mounts = []*specs.Mount{{HostPath: "/h/new", ContainerPath: "/c/new", Options: []string{"ro"}, Type: "bind"}}
	case "replace-existing":
		e.Mounts = []*specs.Mount{{HostPath: "/h/repl", ContainerPath: "/existing/dest"}}
	case "same-dest-twice":
		e.Mounts = []*specs.Mount{{HostPath: "/h/1", ContainerPath: "/c/same"}, {HostPath: "/h/2", ContainerPath: "/c/same", Options: []string{"second"}}}
	case "deep-then-shallow":
		e.Mounts = []*specs.Mount{{HostPath: "/h/deep", ContainerPath: "/m/a/b/c"}, {HostPath: "/h/shallow", ContainerPath: "/m"}, {HostPath: "/h/mid", ContainerPath: "/m/a"}, {HostPath: "/h/mid2", ContainerPath: "/n/a"}}
	case "non-clean-dest":
		e.Mounts = []*specs.Mount{{HostPath: "/h/nc", ContainerPath: "/q//r/../s/"}, {HostPath: "/h/root", ContainerPath: "/"}}
	case "children-before-parents-spelled-with-trailing-slash":
		// each parent is exactly one level above a child that precedes it; parents are spelled with a trailing slash, a trailing "/." or plainly
		e.Mounts = []*specs.Mount{{HostPath: "/h/c1", ContainerPath: "/data/models/cache"}, {HostPath: "/h/p1", ContainerPath: "/data/models/"}, {HostPath: "/h/c2", ContainerPath: "/srv/a/b/"},
			{HostPath: "/h/p2", ContainerPath: "/srv/a/."}, {HostPath: "/h/c3", ContainerPath: "/opt/x"}, {HostPath: "/h/p3", ContainerPath: "/opt"}, {HostPath: "/h/p0", ContainerPath: "/data/"}}
	case "replace+siblings":
		e.Mounts = []*specs.Mount{{HostPath: "/h/s1", ContainerPath: "/existing/z"}, {HostPath: "/h/repl", ContainerPath: "/existing/dest", Type: "tmpfs"}, {HostPath: "/h/s2", ContainerPath: "/existing/a"}}
	}
	hk := func(stage, tag string) *specs.Hook {
		return &specs.Hook{HookName: stage, Path: "/hook/" + tag, Args: []string{tag, "--x"}, Env: []string{"H=" + tag}, Timeout: iptr(7)}
	}
	switch c.opt(7) {
	case "none":
	case "two-in-one-stage":
		e.Hooks = []*specs.Hook{hk("poststop", "first"), hk("prestart", "p"), hk("poststop", "second")}
	case "one-per-stage":
		for _, st := range []string{"poststop", "prestart", "createRuntime", "startContainer", "createContainer", "poststart"} {
			e.Hooks = append(e.Hooks, hk(st, st))
		}
	default:
		e.Hooks = []*specs.Hook{{HookName: c.opt(7), Path: "/hook/min"}}
	}
	switch c.opt(8) {
	case "zero-only":
		e.AdditionalGIDs = []uint32{0}
	case "dup-5-5":
		e.AdditionalGIDs = []uint32{5, 5}
	case "new-9-11":
		e.AdditionalGIDs = []uint32{9, 11}
	case "zero-9-zero-7":
		e.AdditionalGIDs = []uint32{0, 9, 0, 7, 9}
	case "process-gid-2000-1-uid-1000":
		// values that are also the primary gid / the uid of the process in some initial specs
		e.AdditionalGIDs = []uint32{2000, 1, 1000, 7}
	}
	switch c.opt(9) {
	case "set":
		e.IntelRdt = &specs.IntelRdt{ClosID: "newclos", L3CacheSchema: "L3:0=ff", MemBwSchema: "MB:0=10", EnableMBM: true}
	case "set-empty-closid":
		e.IntelRdt = &specs.IntelRdt{L3CacheSchema: "only-schema"}
	}
	return e
}

var specDir string

func eval(c Case, scratch string) hx.Result {
	if len(c.Chain) > 0 {
		return evalChain(c, scratch)
	}
	c.Names = make([]string, len(dims))
	for d := range dims {
		c.Names[d] = dims[d].name + "=" + c.opt(d)
	}
	return hx.Guard("", c, func() hx.Result {
		initial := buildOCI(c)
		edits := buildEdits(c)
		want, werr := refmodel.ApplyEdits(initial, edits, gen.Stat)
		fail := func(sig, msg string, exp, act any) hx.Result {
			return hx.Result{Outcome: "FAIL", Nontrivial: true, Fail: &hx.Failure{Sig: c.Entry + ":" + sig, Msg: msg, Case: c, Expected: exp, Actual: act, Rank: rank(c)}}
		}
		got := refmodel.CopyOCI(initial)
		var err error
		switch c.Entry {
		case "ContainerEdits.Apply":
			err = (&cdi.ContainerEdits{ContainerEdits: refmodel.CopyEdits(edits)}).Apply(got)
		default:
			// a Spec file whose device (resp. spec-level edits) carry the edit list
			raw := &specs.Spec{Version: "1.0.0", Kind: "vendor.com/class"}
			if c.Entry == "Device.ApplyEdits" {
				raw.Devices = []specs.Device{{Name: "dev", ContainerEdits: *refmodel.CopyEdits(edits)}}
			} else {
				raw.ContainerEdits = *refmodel.CopyEdits(edits)
				raw.Devices = []specs.Device{{Name: "dev", ContainerEdits: specs.ContainerEdits{Env: []string{"UNUSED=1"}}}}
			}
			path := filepath.Join(scratch, "s.json")
			if e2 := os.WriteFile(path, gen.RenderJSON(raw), 0o644); e2 != nil {
				panic(e2)
			}
			sp, rerr := cdi.ReadSpec(path, 0)
			if rerr != nil {
				// e.g. device with empty edits: not a valid Spec, so this entry point does not apply
				return hx.Result{Outcome: "not-loadable-as-spec", Nontrivial: false}
			}
			if c.Entry == "Device.ApplyEdits" {
				err = sp.GetDevice("dev").ApplyEdits(got)
			} else {
				err = sp.ApplyEdits(got)
			}
		}
		if werr != nil {
			if err == nil {
				return fail("no-error", "the reference model fails ("+werr.Error()+") but Apply succeeded", "error", got)
			}
			return hx.Result{Outcome: "error-both", Nontrivial: true}
		}
		if err != nil {
			return fail("unexpected-error", "Apply failed: "+err.Error(), want, err.Error())
		}
		if ok, where := refmodel.OCIEqual(want, got); !ok {
			return fail("differs-in:"+where+":"+blame(c, where), "result differs from the reference model in section(s) "+where, refmodel.Normalise(want), refmodel.Normalise(got))
		}
		return hx.Result{Outcome: "equal", Nontrivial: rank(c) > 0}
	})
}

// blame names the edit dimensions that are active and touch the differing section.
func blame(c Case, where string) string {
	var b []string
	for d := 4; d < len(dims); d++ {
		if c.Idx[d] != 0 {
			b = append(b, dims[d].name+"="+c.opt(d))
		}
	}
	_ = where
	return strings.Join(b, ",")
}

func rank(c Case) int64 {
	n := int64(0)
	for d, i := range c.Idx {
		if i != 0 {
			n += 1
			if d >= 4 {
				n += 10
			}
		}
	}
	return n
}

func main() {
	r := hx.Start("C03", "model_checking")
	root, err := os.MkdirTemp("/dev/shm", "verif-c03-")
	if err != nil {
		root, _ = os.MkdirTemp("", "verif-c03-")
	}
	defer os.RemoveAll(root)
	nodes, err = gen.MakeHostNodes(filepath.Join(root, "nodes"))
	if err != nil {
		fmt.Println("INFRA: cannot create host device nodes:", err)
		os.RemoveAll(root)
		os.Exit(2)
	}
	if r.Replay != "" {
		var c Case
		r.LoadReplay(&c)
		res := eval(c, root)
		os.RemoveAll(root)
		hx.ReplayExit("C03", res)
	}
	radix := make([]int, len(dims))
	for d := range dims {
		radix[d] = len(dims[d].opts)
	}
	seen := map[string]bool{}
	var cases []Case
	add := func(idx []int) {
		k := fmt.Sprint(idx)
		if seen[k] {
			return
		}
		seen[k] = true
		cases = append(cases, Case{Idx: append([]int{}, idx...), Entry: "ContainerEdits.Apply"})
	}
	{
		// all pairs of dimensions, the other dimensions at "none/nil" and at a busy default
		busy := []int{2, 2, 1, 1, 4, 12, 6, 8, 4, 1}
		for _, def := range [][]int{make([]int, len(dims)), busy} {
			for a := 0; a < len(dims); a++ {
				for b := a + 1; b < len(dims); b++ {
					for x := 0; x < radix[a]; x++ {
						for y := 0; y < radix[b]; y++ {
							idx := append([]int{}, def...)
							idx[a], idx[b] = x, y
							add(idx)
						}
					}
				}
			}
		}
		// plus all triples (process, linux, devnodes): where uid/gid, existing devices and host nodes meet
		for x := 0; x < radix[0]; x++ {
			for y := 0; y < radix[1]; y++ {
				for z := 0; z < radix[5]; z++ {
					idx := make([]int, len(dims))
					idx[0], idx[1], idx[5] = x, y, z
					add(idx)
				}
			}
		}
	}
	// thorough: the full product is enumerated by index further down (streamed: tens of millions of
	// cases are not kept in memory); the pairs set is then only used for the second pass
	pairSet := cases
	if r.Thorough() {
		cases = nil
	}
	// the other two entry points on every case whose edit list is a non-empty, valid edit list (subsampled by construction: pairs set)
	base := len(cases)
	for i := 0; i < base; i++ {
		if !r.Thorough() || i%7 == 0 {
			c := cases[i]
			cases = append(cases, Case{Idx: c.Idx, Entry: "Device.ApplyEdits"}, Case{Idx: c.Idx, Entry: "Spec.ApplyEdits"})
		}
	}
	var dimDesc []string
	for _, d := range dims {
		dimDesc = append(dimDesc, fmt.Sprintf("%s{%s}", d.name, strings.Join(d.opts, "|")))
	}
	r.Rule = "cases = points of the product of 10 dimensions " + strings.Join(dimDesc, " x ") + "; " +
		map[bool]string{true: "thorough: the full product", false: "quick: all pairs of dimensions against an all-none and a busy default, plus all (process,linux,devnodes) triples"}[r.Thorough()] +
		"; each through ContainerEdits.Apply, and through Device.ApplyEdits / Spec.ApplyEdits of a Spec read from a file; host nodes are real mknod b/c/p nodes. " +
		"Oracle: straight-line reference transformer from the statement; env compared by name, devices by path, GIDs as a set, cgroup rules/mounts/hooks by position, everything else exactly. " +
		"Then histories: every sequence of a fixed length (3 quick, 4 thorough) of Apply calls of 6 edit objects built once (resp. the devices of one loaded Spec) on 2 OCI specs, both specs compared with the model after every step. " +
		"Distinct by construction; non-trivial = at least one dimension is not none/nil"
	r.Assumptions = []string{"initial specs contain no duplicate env names / device paths / mount destinations (outcome not defined by the statement)",
		"device type 'u' and edit destinations that equal an existing one only after path cleaning are not generated (not defined by the statement)",
		"when the host node is missing or of another type both sides must fail; the OCI spec after a failed Apply is not compared"}
	nw := 16
	scr := make(chan string, nw)
	for i := 0; i < nw; i++ {
		d := filepath.Join(root, fmt.Sprintf("w%d", i))
		_ = os.MkdirAll(d, 0o755)
		scr <- d
	}
	record := func(l *hx.Local, c Case, d string) {
		res := eval(c, d)
		l.Record(res, func() any {
			n := make([]string, len(dims))
			for k := range dims {
				n[k] = dims[k].name + "=" + c.opt(k)
			}
			return map[string]any{"entry": c.Entry, "case": n, "outcome": res.Outcome}
		})
	}
	if r.Thorough() {
		r.ParallelL(hx.Product(radix), func(i int64, l *hx.Local) {
			d := <-scr
			idx := hx.Digits(i, radix)
			record(l, Case{Idx: idx, Entry: "ContainerEdits.Apply"}, d)
			if i%7 == 0 {
				record(l, Case{Idx: idx, Entry: "Device.ApplyEdits"}, d)
				record(l, Case{Idx: idx, Entry: "Spec.ApplyEdits"}, d)
			}
			scr <- d
		})
	}
	r.ParallelL(int64(len(cases)), func(i int64, l *hx.Local) {
		d := <-scr
		record(l, cases[i], d)
		scr <- d
	})
	// second pass: the host nodes are re-created with other numbers and types (a driver reload),
	// in the same process; every case that has device nodes is applied again and judged against
	// the host as it is NOW (whatever the first pass left behind must not matter)
	_ = nodes.Replace("char", "c", 240, 7)
	_ = nodes.Replace("char2", "b", 11, 201)
	_ = nodes.Replace("block", "c", 9, 9)
	_ = nodes.Replace("fifo", "p", 0, 0)
	var again []Case
	src := cases
	if r.Thorough() {
		src = pairSet
	}
	for _, c := range src {
		if c.opt(5) != "none" && len(again) < 4000 {
			again = append(again, c)
		}
	}
	r.ParallelL(int64(len(again)), func(i int64, l *hx.Local) {
		d := <-scr
		res := eval(again[i], d)
		scr <- d
		if res.Fail != nil {
			res.Fail.Sig = "after-host-nodes-were-recreated:" + res.Fail.Sig
		}
		l.Record(res, func() any { return map[string]any{"entry": again[i].Entry, "pass": "host nodes re-created", "outcome": res.Outcome} })
	})
	r.Extra["cases_repeated_after_host_nodes_were_recreated"] = len(again)
	// third pass: histories. Edit objects (resp. the devices of one loaded Spec) are built once
	// and applied repeatedly, to two OCI specs, in every order of up to chainLen steps; after every
	// step both OCI specs must equal the model's (which works on pristine copies of the edits).
	chainLen := 3
	if r.Thorough() {
		chainLen = 4
	}
	var chains []Case
	nst := len(chainEdits) * len(chainSpecs)
	for _, entry := range []string{"ContainerEdits.Apply", "Device.ApplyEdits"} {
		total := int64(1)
		for i := 0; i < chainLen; i++ {
			total *= int64(nst)
		}
		rad := make([]int, chainLen)
		for i := range rad {
			rad[i] = nst
		}
		for i := int64(0); i < total; i++ {
			var ch []Step
			for _, d := range hx.Digits(i, rad) {
				ch = append(ch, Step{E: d / len(chainSpecs), S: d % len(chainSpecs)})
			}
			chains = append(chains, Case{Entry: entry, Chain: ch})
		}
	}
	r.ParallelL(int64(len(chains)), func(i int64, l *hx.Local) {
		d := <-scr
		res := eval(chains[i], d)
		scr <- d
		l.Record(res, func() any { return map[string]any{"entry": chains[i].Entry, "history": chains[i].Chain, "outcome": res.Outcome} })
	})
	r.Extra["histories_of_apply_calls_over_shared_edit_objects"] = map[string]any{"length": chainLen, "edit_objects": len(chainEdits), "oci_specs": len(chainSpecs), "histories": len(chains)}
	os.RemoveAll(root)
	r.Finish()
}
