// c11real: the unmodified library and the real fsnotify on the real file system, used by the
// Engine B checks (C11, C20) to (1) validate the virtual inotify/fsnotify model against real
// event streams and (2) confirm model-found violations end to end.
//
//	c11real events  <in.json> <out.json>   histories -> real (name, op) event sequences, with a barrier after every operation
//	c11real replay  <in.json> <out.json>   histories -> does a real auto-refresh cache converge to a fresh cache's answers?
package main

import (
	"encoding/json"
	"fmt"
	"os"
	"path/filepath"
	"reflect"
	"runtime"
	"strings"
	"syscall"
	"time"

	"github.com/fsnotify/fsnotify"
	"tags.cncf.io/container-device-interface/pkg/cdi"
	"verif/mc/dirmodel"
	"verif/mc/fsops"
)

type Input struct {
	Histories  [][]fsops.Op `json:"histories"`
	Dirs       []string     `json:"dirs"`    // configured directories (short names)
	Present    []string     `json:"present"` // directories existing at the start
	DeadlineMs int          `json:"deadline_ms"`
	PaceMs     int          `json:"pace_ms"` // pause after every operation (0 = as fast as possible; >0 = the watcher keeps up)
	Probe      bool         `json:"probe"`
	GetOnly    bool         `json:"get_only"` // observe through GetDevice of the known names only   // after convergence, write a probe Spec into every existing configured directory
}

type EventsOut struct {
	Sequences [][]string `json:"sequences"` // per history: "relname:OP" in delivery order
}

type ReplayOut struct {
	Converged []bool   `json:"converged"`
	AfterMs   []int64  `json:"after_ms"`
	Detail    []string `json:"detail"`
}

func scratch() string {
	d, err := os.MkdirTemp("/dev/shm", "verif-c11real-")
	if err != nil {
		d, _ = os.MkdirTemp("", "verif-c11real-")
	}
	return d
}

func setup(root string, in Input) {
	_ = os.MkdirAll(filepath.Join(root, "outside"), 0o755)
	for _, d := range in.Present {
		_ = os.MkdirAll(filepath.Join(root, d), 0o755)
	}
}

func events(in Input) EventsOut {
	var out EventsOut
	for _, h := range in.Histories {
		root := scratch()
		setup(root, in)
		sentinel := filepath.Join(root, "sentinel")
		_ = os.MkdirAll(sentinel, 0o755)
		w, err := fsnotify.NewWatcher()
		if err != nil {
			fmt.Println("INFRA: fsnotify.NewWatcher:", err)
			os.Exit(2)
		}
		_ = w.Add(sentinel)
		for _, d := range in.Dirs {
			_ = w.Add(filepath.Join(root, d)) // fails for missing ones, like the cache's first attempt
		}
		var seq []string
		barrier := func(n int) {
			mark := filepath.Join(sentinel, fmt.Sprintf("b%d", n))
			_ = os.WriteFile(mark, []byte("x"), 0o644)
			deadline := time.After(5 * time.Second)
			for {
				select {
				case ev := <-w.Events:
					if ev.Name == mark {
						if ev.Op&fsnotify.Write != 0 {
							return
						}
						continue
					}
					if strings.HasPrefix(ev.Name, sentinel) {
						continue
					}
					rel, _ := filepath.Rel(root, ev.Name)
					seq = append(seq, rel+":"+ev.Op.String())
				case <-deadline:
					fmt.Println("INFRA: barrier event not seen within 5 s")
					os.Exit(2)
				}
			}
		}
		var steps []fsops.Op
		for _, op := range h {
			steps = append(steps, fsops.Steps(op)...)
		}
		for i, op := range steps {
			if err := fsops.Apply(fsops.RealFS{}, root, op, i); err != nil {
				seq = append(seq, "INAPPLICABLE:"+op.String())
				break
			}
			if op.Kind == "mkdir" || op.Kind == "mvdir-in" {
				_ = w.Add(filepath.Join(root, op.Dir))
			}
			barrier(i)
			if op.Kind == "mvdir-away" {
				// as the cache does once it has seen the Rename event of a watched directory: drop the watch of the moved
				// directory (fsnotify 1.5.1 loses the path of a watch that is added again under a name it still knows)
				_ = w.Remove(filepath.Join(root, op.Dir))
			}
		}
		_ = w.Close()
		_ = os.RemoveAll(root)
		out.Sequences = append(out.Sequences, seq)
	}
	return out
}

func same(a, b dirmodel.Observation, dirs map[string]bool) (bool, string) {
	fileErrs := func(o dirmodel.Observation) []string {
		var e []string
		for _, p := range o.ErrPaths {
			if !dirs[p] {
				e = append(e, p)
			}
		}
		return e
	}
	if !reflect.DeepEqual(a.Devices, b.Devices) && !(len(a.Devices) == 0 && len(b.Devices) == 0) {
		return false, fmt.Sprintf("devices %v vs fresh %v", a.Devices, b.Devices)
	}
	if !reflect.DeepEqual(a.Paths, b.Paths) || !reflect.DeepEqual(a.Markers, b.Markers) {
		return false, fmt.Sprintf("definitions %v %v vs fresh %v %v", a.Paths, a.Markers, b.Paths, b.Markers)
	}
	ea, eb := fileErrs(a), fileErrs(b)
	if !reflect.DeepEqual(ea, eb) && !(len(ea) == 0 && len(eb) == 0) {
		return false, fmt.Sprintf("files in error %v vs fresh %v", ea, eb)
	}
	return true, ""
}

// pacedFS pauses after every system call (also between the open/truncate and the write of an
// in-place rewrite), so that the watcher keeps up after each of them: the real counterpart of
// the model's eager default order.
type pacedFS struct{ pace time.Duration }

func (p pacedFS) nap() { time.Sleep(p.pace) }
func (p pacedFS) WriteFile(path string, d []byte, m os.FileMode) error {
	f, err := os.OpenFile(path, os.O_WRONLY|os.O_CREATE|os.O_TRUNC, m)
	if err != nil {
		return err
	}
	p.nap()
	_, err = f.Write(d)
	p.nap()
	if cerr := f.Close(); err == nil {
		err = cerr
	}
	return err
}
func (p pacedFS) Rename(o, n string) error { defer p.nap(); return os.Rename(o, n) }
func (p pacedFS) Remove(x string) error    { defer p.nap(); return os.Remove(x) }
func (p pacedFS) RemoveAll(x string) error {
	// entry by entry, like rm -r
	var names []string
	if d, err := os.Open(x); err == nil {
		names, _ = d.Readdirnames(-1)
		d.Close()
	}
	for _, n := range names {
		_ = p.RemoveAll(filepath.Join(x, n))
	}
	defer p.nap()
	return os.Remove(x)
}
func (p pacedFS) Mkdir(x string, m os.FileMode) error { defer p.nap(); return os.Mkdir(x, m) }
func (p pacedFS) Link(o, n string) error              { defer p.nap(); return os.Link(o, n) }
func (p pacedFS) Symlink(o, n string) error           { defer p.nap(); return os.Symlink(o, n) }
func (p pacedFS) CreateEmpty(x string) error          { defer p.nap(); return fsops.RealFS{}.CreateEmpty(x) }

func replay(in Input) ReplayOut {
	// watchdog: a history whose queries never return (a lock that is never released) must not hang the check
	go func() {
		limit := time.Duration(len(in.Histories))*(time.Duration(in.DeadlineMs)*time.Millisecond*3+5*time.Second) + 30*time.Second
		time.Sleep(limit)
		fmt.Println("HUNG: the replay did not finish within", limit)
		os.Exit(2)
	}()
	var out ReplayOut
	deadline := time.Duration(in.DeadlineMs) * time.Millisecond
	if deadline == 0 {
		deadline = 3 * time.Second
	}
	for _, h := range in.Histories {
		root := scratch()
		setup(root, in)
		var paths []string
		dirSet := map[string]bool{}
		for _, d := range in.Dirs {
			p := filepath.Join(root, d)
			paths = append(paths, p)
			dirSet[p] = true
		}
		cache, _ := cdi.NewCache(cdi.WithSpecDirs(paths...))
		if !in.GetOnly {
			_ = cache.ListDevices()
		}
		applicable := true
		for i, op := range h {
			var fs fsops.FS = fsops.RealFS{}
			if in.PaceMs > 0 {
				fs = pacedFS{time.Duration(in.PaceMs) * time.Millisecond}
			}
			if err := fsops.Apply(fs, root, op, i); err != nil {
				applicable = false
				break
			}
		}
		start := time.Now()
		conv, detail := false, "history not applicable"
		for applicable && in.GetOnly {
			// convergence as seen through GetDevice only (no listing call is ever made on this cache)
			fresh, _ := cdi.NewCache(cdi.WithSpecDirs(paths...), cdi.WithAutoRefresh(false))
			names := dirmodel.Resolved(fresh)
			a, b := dirmodel.GetOnly(cache, names), dirmodel.GetOnly(fresh, names)
			if reflect.DeepEqual(a, b) {
				break
			}
			if time.Since(start) > deadline {
				applicable = false
				detail = fmt.Sprintf("GetDevice-only view %v, fresh cache %v", a, b)
				break
			}
			time.Sleep(2 * time.Millisecond)
		}
		if in.GetOnly && !applicable && detail != "history not applicable" {
			out.Converged = append(out.Converged, false)
			out.AfterMs = append(out.AfterMs, time.Since(start).Milliseconds())
			out.Detail = append(out.Detail, detail)
			_ = cache.Configure(cdi.WithAutoRefresh(false))
			_ = os.RemoveAll(root)
			continue
		}
		for applicable {
			fresh, _ := cdi.NewCache(cdi.WithSpecDirs(paths...), cdi.WithAutoRefresh(false))
			var ok bool
			ok, detail = same(dirmodel.Observe(cache), dirmodel.Observe(fresh), dirSet)
			if ok {
				conv = true
				break
			}
			if time.Since(start) > deadline {
				break
			}
			time.Sleep(2 * time.Millisecond)
		}
		// probe phase (as in the explorer): a Spec written now into every configured directory that
		// exists must become visible without Refresh: the directory is still (or again) watched
		if conv && in.Probe {
			// the explorer writes the probes at quiescence (watcher idle, every pending timer fired); here
			// that is approximated by a pause: a watcher still busy with the history's own events would
			// otherwise pick the probes up by accident when it finally rescans
			time.Sleep(150 * time.Millisecond)
			var want []string
			for _, d := range in.Dirs {
				if _, err := os.Stat(filepath.Join(root, d)); err == nil {
					_ = os.WriteFile(filepath.Join(root, d, "probe.json"), []byte(`{"cdiVersion":"0.5.0","kind":"probe.org/`+d+`","devices":[{"name":"p","containerEdits":{"env":["P=1"]}}]}`), 0o644)
					want = append(want, "probe.org/"+d+"=p")
				}
			}
			pstart := time.Now()
			for {
				seen := map[string]bool{}
				for _, q := range cache.ListDevices() {
					seen[q] = true
				}
				missing := ""
				for _, q := range want {
					if !seen[q] {
						missing = q
					}
				}
				if missing == "" {
					break
				}
				if time.Since(pstart) > deadline {
					conv, detail = false, "a Spec written to a configured directory never becomes visible: "+missing
					break
				}
				time.Sleep(2 * time.Millisecond)
			}
		}
		_ = cache.Configure(cdi.WithAutoRefresh(false))
		out.Converged = append(out.Converged, conv)
		out.AfterMs = append(out.AfterMs, time.Since(start).Milliseconds())
		out.Detail = append(out.Detail, detail)
		_ = os.RemoveAll(root)
	}
	return out
}

// resources: descriptor, inotify watch and goroutine counts after n reconfigurations, and
// behaviour of a cache created under a real descriptor shortage (RLIMIT_NOFILE).
type ResourcesOut struct {
	Cycles         int    `json:"cycles"`
	Fds            int    `json:"fds"`
	InotifyFds     int    `json:"inotify_fds"`
	Watches        int    `json:"watches"`
	Goroutines     int    `json:"goroutines"`
	ShortageOK     bool   `json:"shortage_cache_answers_current_contents"`
	ShortageDetail string `json:"shortage_detail"`
}

func countFds() (fds, inotify, watches int) {
	ents, _ := os.ReadDir("/proc/self/fd")
	for _, e := range ents {
		fds++
		t, _ := os.Readlink("/proc/self/fd/" + e.Name())
		if strings.Contains(t, "inotify") {
			inotify++
			b, _ := os.ReadFile("/proc/self/fdinfo/" + e.Name())
			watches += strings.Count(string(b), "inotify wd:")
		}
	}
	return
}

func resources(in Input) ResourcesOut {
	root := scratch()
	defer os.RemoveAll(root)
	for _, d := range []string{"d0", "d1", "d2"} {
		_ = os.MkdirAll(filepath.Join(root, d), 0o755)
	}
	p := func(ds ...string) []string {
		var o []string
		for _, d := range ds {
			o = append(o, filepath.Join(root, d))
		}
		return o
	}
	cycles := in.DeadlineMs // reused field: number of cycles
	cache, _ := cdi.NewCache(cdi.WithSpecDirs(p("d0", "d1")...))
	for i := 0; i < cycles; i++ {
		_ = cache.Configure(cdi.WithSpecDirs(p("d1", "d0", "d2")...))
		_ = os.WriteFile(filepath.Join(root, "d0", "x.json"), fsops.Content("A", "x.json", "m"), 0o644)
		_ = cache.Configure(cdi.WithAutoRefresh(false))
		_ = cache.Configure(cdi.WithAutoRefresh(true))
		_ = cache.Configure(cdi.WithSpecDirs(p("d0", "d1")...))
		_ = cache.ListDevices()
	}
	time.Sleep(300 * time.Millisecond)
	out := ResourcesOut{Cycles: cycles}
	out.Fds, out.InotifyFds, out.Watches = countFds()
	out.Goroutines = runtime.NumGoroutine()
	_ = cache.Configure(cdi.WithAutoRefresh(false))
	// real shortage: no descriptor left while the cache is created
	var lim syscall.Rlimit
	_ = syscall.Getrlimit(syscall.RLIMIT_NOFILE, &lim)
	fds, _, _ := countFds()
	low := lim
	low.Cur = uint64(fds) // nothing can be opened any more
	_ = syscall.Setrlimit(syscall.RLIMIT_NOFILE, &low)
	c2, _ := cdi.NewCache(cdi.WithSpecDirs(p("d2")...))
	_ = syscall.Setrlimit(syscall.RLIMIT_NOFILE, &lim)
	_ = os.WriteFile(filepath.Join(root, "d2", "late.json"), fsops.Content("Y", "late.json", "late"), 0o644)
	devs := c2.ListDevices()
	out.ShortageOK = len(devs) == 1
	out.ShortageDetail = fmt.Sprint(devs, " errors: ", c2.GetErrors())
	return out
}

func main() {
	if len(os.Args) != 4 {
		fmt.Println("usage: c11real events|replay <in.json> <out.json>")
		os.Exit(2)
	}
	b, err := os.ReadFile(os.Args[2])
	if err != nil {
		fmt.Println("INFRA:", err)
		os.Exit(2)
	}
	var in Input
	if err := json.Unmarshal(b, &in); err != nil {
		fmt.Println("INFRA:", err)
		os.Exit(2)
	}
	var res any
	switch os.Args[1] {
	case "events":
		res = events(in)
	case "replay":
		res = replay(in)
	case "resources":
		res = resources(in)
	}
	ob, _ := json.Marshal(res)
	_ = os.WriteFile(os.Args[3], ob, 0o644)
}
