// c10helper: the unmodified library writing one Spec file, for the strace layer of C10.
// usage: c10helper <dir> <name> <marker> [fsize-limit]
package main

import (
	"fmt"
	"os"
	"os/signal"
	"runtime"
	"strconv"
	"strings"
	"syscall"

	"tags.cncf.io/container-device-interface/pkg/cdi"
	specs "tags.cncf.io/container-device-interface/specs-go"
)

func init() { runtime.LockOSThread() }

func main() {
	dir, name, marker := os.Args[1], os.Args[2], os.Args[3]
	if len(os.Args) > 4 {
		k, _ := strconv.ParseUint(os.Args[4], 10, 64)
		signal.Ignore(syscall.SIGXFSZ)
		_ = syscall.Setrlimit(syscall.RLIMIT_FSIZE, &syscall.Rlimit{Cur: k, Max: k})
	}
	raw := &specs.Spec{Version: "0.5.0", Kind: "vendor.com/class", Devices: []specs.Device{
		{Name: marker, ContainerEdits: specs.ContainerEdits{Env: []string{"MARK=" + marker, "PAD=" + strings.Repeat("x", 64)}}}}}
	c, _ := cdi.NewCache(cdi.WithSpecDirs(dir), cdi.WithAutoRefresh(false))
	// marker line so that the trace can be cut at the start of WriteSpec
	_, _ = syscall.Write(-1, []byte("BEGIN-WRITESPEC"))
	err := c.WriteSpec(raw, name)
	_, _ = syscall.Write(-1, []byte("END-WRITESPEC"))
	if err != nil {
		fmt.Println("error:", err)
		os.Exit(3)
	}
	fmt.Println("ok")
}
