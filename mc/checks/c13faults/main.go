// c13faults: the Engine B half of C13 (built through the overlay, run by the C13 driver).
// The real cache scans real directories through the environment model; every file-system
// call of the scan may be answered with an errno of its alphabet (files vanishing between
// listing and lstat / between lstat and read, unreadable files and directories, descriptor
// exhaustion), up to a fault bound, in the scan of NewCache and in the scan of Refresh; then a
// clean Refresh (the repair). Output: one JSON document on stdout.
package main

import (
	"encoding/json"
	"fmt"
	"os"
	"path/filepath"
	"sort"
	"strings"
	"time"

	"tags.cncf.io/container-device-interface/pkg/cdi"
	"tags.cncf.io/container-device-interface/verifshim/sched"
	"tags.cncf.io/container-device-interface/verifshim/vfs"
	"verif/mc/dirmodel"
	"verif/mc/explore"
)

type population struct {
	Name  string
	Files map[string]dirmodel.Kind // "d0/a.json" -> kind
}

var populations = []population{
	{"all-valid", map[string]dirmodel.Kind{"d0/a.json": dirmodel.X, "d0/b.yaml": dirmodel.Y, "d1/a.json": dirmodel.X, "d1/c.json": dirmodel.V2}},
	{"with-invalid-file", map[string]dirmodel.Kind{"d0/a.json": dirmodel.XY, "d0/bad.yaml": dirmodel.Syn, "d1/c.json": dirmodel.V2, "d1/y.yaml": dirmodel.Y}},
}

var faultAlphabet = map[string][]string{
	"lstat":   {"ENOENT"},
	"opendir": {"EACCES", "EMFILE"},
	"open":    {"ENOENT", "EACCES", "EMFILE"},
	"read":    {"EIO"},
}

type Out struct {
	Executions int64               `json:"executions"`
	Points     int64               `json:"points"`
	Outcomes   map[string]int64    `json:"outcomes"`
	Violations []explore.Violation `json:"violations"`
	Capped     bool                `json:"capped"`
	Infra      string              `json:"infra"`
	Scenarios  int                 `json:"scenarios"`
}

var scratch string

type phaseFaults struct {
	files map[string]string // path -> errno (file-level faults)
	dirs  map[string]string // path -> errno (directory-level faults)
}

// faultsIn parses the operation log of one phase: "op path => ERRNO".
func faultsIn(log []string, root string, dirList []string) phaseFaults {
	pf := phaseFaults{files: map[string]string{}, dirs: map[string]string{}}
	isDir := map[string]bool{}
	for _, d := range dirList {
		isDir["/"+d] = true
	}
	for _, l := range log {
		i := strings.Index(l, " => ")
		if i < 0 {
			continue
		}
		f := strings.Fields(l[:i])
		if len(f) < 2 {
			continue
		}
		p, errno := f[1], l[i+4:]
		if isDir[p] {
			pf.dirs[p] = errno
		} else {
			pf.files[p] = errno
		}
	}
	return pf
}

func scenario(pop population, faults int) *explore.Scenario {
	sc := &explore.Scenario{Name: pop.Name, Bounds: explore.Bounds{Faults: faults}, MaxSteps: 100000}
	dirList := []string{"d0", "missing", "d1"}
	sc.New = func() *explore.Instance {
		root := filepath.Join(scratch, "x")
		_ = os.RemoveAll(root)
		tree := dirmodel.NewTree()
		for p, k := range pop.Files {
			d, n := filepath.Split(p)
			tree.Set(filepath.Clean(d), n, k)
		}
		_ = tree.Materialise(root, []string{"d0", "d1"})
		w := vfs.Reset(root)
		w.LogOps = true
		injecting := true
		w.FaultFor = func(t *sched.Thread, op, path string) []string {
			if !injecting {
				return nil
			}
			if op == "lstat" && (strings.HasSuffix(path, "/missing")) {
				return nil
			}
			return faultAlphabet[op]
		}
		abs := func(d string) string { return filepath.Join(root, d) }
		var paths []string
		for _, d := range dirList {
			paths = append(paths, abs(d))
		}
		type snap struct {
			obs        dirmodel.Observation
			refreshErr error
			faults     phaseFaults
		}
		var phases []snap
		in := &explore.Instance{Names: []string{"main"}}
		in.Threads = []func(){func() {
			mark := len(w.OpLog)
			cache, _ := cdi.NewCache(cdi.WithSpecDirs(paths...), cdi.WithAutoRefresh(false))
			injecting = false
			phases = append(phases, snap{obs: dirmodel.Observe(cache), faults: faultsIn(w.OpLog[mark:], root, dirList)})
			injecting = true
			mark = len(w.OpLog)
			err := cache.Refresh()
			injecting = false
			phases = append(phases, snap{obs: dirmodel.Observe(cache), refreshErr: err, faults: faultsIn(w.OpLog[mark:], root, dirList)})
			// the repair: the causes are gone, one clean refresh
			err = cache.Refresh()
			phases = append(phases, snap{obs: dirmodel.Observe(cache), refreshErr: err, faults: phaseFaults{files: map[string]string{}, dirs: map[string]string{}}})
		}}
		in.Check = func(e *sched.Exec) (string, string, any) {
			for pi, ph := range phases {
				phase := []string{"NewCache", "Refresh", "clean-Refresh"}[pi]
				// the model: affected files and the files of unscannable directories are out
				t := tree.Clone()
				var mustReport []string
				vanished := false
				for p, errno := range ph.faults.files {
					d, n := filepath.Split(strings.TrimPrefix(p, "/"))
					d = filepath.Clean(d)
					if t.Get(d, n) == dirmodel.Absent {
						continue
					}
					if errno == "ENOENT" {
						vanished = true
						t.Set(d, n, dirmodel.Absent)
					} else {
						t.Set(d, n, dirmodel.Syn) // in error, must be reported
						mustReport = append(mustReport, abs(d)+"/"+n)
					}
				}
				for p := range ph.faults.dirs {
					d := strings.TrimPrefix(p, "/")
					for n := range t.Files[d] {
						t.Set(d, n, dirmodel.Absent)
					}
				}
				want := dirmodel.Resolve(dirList, t, func(d string) string { return filepath.Clean(abs(d)) })
				ctx := func() string {
					var f []string
					for p, e := range ph.faults.files {
						f = append(f, "file:"+e+"@"+filepath.Base(p))
					}
					for p, e := range ph.faults.dirs {
						f = append(f, "dir:"+e+"@"+filepath.Base(p))
					}
					sort.Strings(f)
					return strings.Join(f, ",")
				}
				if ok, what, detail := ph.obs.Check(want); !ok {
					return "isolation:" + what + ":" + phase + ":" + classOf(ph.faults), fmt.Sprintf("%s with faults [%s] on population %s: %s", phase, ctx(), pop.Name, detail), nil
				}
				if pi > 0 {
					if len(want.Invalid) > 0 && ph.refreshErr == nil {
						return "refresh-returns-nil-with-file-in-error:" + phase, fmt.Sprintf("%s returned nil although %v are in error (faults [%s])", phase, want.Invalid, ctx()), nil
					}
					if len(want.Invalid) == 0 && !vanished && len(ph.faults.dirs) == 0 && ph.refreshErr != nil {
						return "refresh-error-with-everything-valid:" + phase, fmt.Sprintf("%s returned %v although every directory is readable and every Spec file valid", phase, ph.refreshErr), nil
					}
				}
				if pi == 2 {
					// no stale entries after the repair
					inv := map[string]bool{}
					for _, p := range want.Invalid {
						inv[p] = true
					}
					for _, p := range ph.obs.ErrPaths {
						if !inv[p] {
							return "stale-error-entry-after-repair", "after a clean refresh there is still an error entry for " + p, nil
						}
					}
				}
			}
			return "", "", nil
		}
		in.Observe = func() string {
			if len(phases) < 3 {
				return "incomplete"
			}
			return fmt.Sprintf("new:%d-devs,%d-errs refresh:%d-devs,%d-errs", len(phases[0].obs.Devices), len(phases[0].obs.ErrPaths), len(phases[1].obs.Devices), len(phases[1].obs.ErrPaths))
		}
		return in
	}
	return sc
}

// defaultFirstUse: the package-level Refresh() is the first use of the default cache in the
// process (the package state is reset before every execution): same verdict as for any cache.
func defaultFirstUse(pop population, first string) *explore.Scenario {
	sc := &explore.Scenario{Name: pop.Name + " default-cache first use: " + first, MaxSteps: 100000}
	dirList := []string{"d0", "missing", "d1"}
	sc.New = func() *explore.Instance {
		root := filepath.Join(scratch, "x")
		_ = os.RemoveAll(root)
		tree := dirmodel.NewTree()
		for p, k := range pop.Files {
			d, n := filepath.Split(p)
			tree.Set(filepath.Clean(d), n, k)
		}
		_ = tree.Materialise(root, []string{"d0", "d1"})
		vfs.Reset(root)
		abs := func(d string) string { return filepath.Join(root, d) }
		var paths []string
		for _, d := range dirList {
			paths = append(paths, abs(d))
		}
		var firstErr, secondErr error
		var obs dirmodel.Observation
		in := &explore.Instance{Names: []string{"main"}}
		in.Threads = []func(){func() {
			cdi.DefaultSpecDirs = paths
			switch first {
			case "Refresh":
				firstErr = cdi.Refresh()
			case "Configure(manual)+Refresh":
				_ = cdi.Configure(cdi.WithAutoRefresh(false))
				firstErr = cdi.Refresh()
			case "GetErrors+Refresh":
				_ = cdi.GetErrors()
				firstErr = cdi.Refresh()
			}
			secondErr = cdi.Refresh()
			obs = dirmodel.Observe(cdi.GetDefaultCache())
			_ = cdi.Configure(cdi.WithAutoRefresh(false))
		}}
		in.Check = func(e *sched.Exec) (string, string, any) {
			want := dirmodel.Resolve(dirList, tree, func(d string) string { return filepath.Clean(abs(d)) })
			if ok, what, detail := obs.Check(want); !ok {
				return "default-cache:isolation:" + what, fmt.Sprintf("default cache (first use: %s) on population %s: %s", first, pop.Name, detail), nil
			}
			for i, err := range []error{firstErr, secondErr} {
				if len(want.Invalid) > 0 && err == nil {
					return fmt.Sprintf("default-cache:refresh-returns-nil-with-file-in-error:%s:call-%d", first, i+1), fmt.Sprintf("package-level Refresh() (first use of the default cache: %s; call %d) returned nil although %v are in error", first, i+1, want.Invalid), nil
				}
				if len(want.Invalid) == 0 && err != nil {
					return fmt.Sprintf("default-cache:refresh-error-with-everything-valid:%s:call-%d", first, i+1), fmt.Sprintf("package-level Refresh() returned %v although every Spec file is valid", err), nil
				}
			}
			return "", "", nil
		}
		in.Observe = func() string { return fmt.Sprintf("default first=%s errs=%v,%v", first, firstErr != nil, secondErr != nil) }
		return in
	}
	return sc
}

func classOf(pf phaseFaults) string {
	var c []string
	for _, e := range pf.files {
		c = append(c, "file-"+e)
	}
	for _, e := range pf.dirs {
		c = append(c, "dir-"+e)
	}
	sort.Strings(c)
	return strings.Join(c, "+")
}

func main() {
	explore.BeforeExec = []func(){cdi.VerifResetGlobals}
	tier := "quick"
	if len(os.Args) > 1 {
		tier = os.Args[1]
	}
	var err error
	scratch, err = os.MkdirTemp("/dev/shm", "verif-c13f-")
	if err != nil {
		scratch, _ = os.MkdirTemp("", "verif-c13f-")
	}
	defer os.RemoveAll(scratch)
	faults := 1
	budget := 40 * time.Second
	if tier == "thorough" {
		faults = 2
		budget = 15 * time.Minute
	}
	out := Out{Outcomes: map[string]int64{}}
	deadline := time.Now().Add(budget)
	for _, pop := range populations {
		res := explore.Explore(scenario(pop, faults), deadline)
		out.Scenarios++
		out.Executions += res.Executions
		out.Points += res.Points
		for k, n := range res.Outcomes {
			out.Outcomes[pop.Name+" "+k] += n
		}
		out.Violations = append(out.Violations, res.Violations...)
		out.Capped = out.Capped || res.Capped
		if res.Infra != "" {
			out.Infra = res.Infra
		}
		for _, first := range []string{"Refresh", "Configure(manual)+Refresh", "GetErrors+Refresh"} {
			res := explore.Explore(defaultFirstUse(pop, first), deadline)
			out.Scenarios++
			out.Executions += res.Executions
			out.Points += res.Points
			for k, n := range res.Outcomes {
				out.Outcomes[pop.Name+" "+k] += n
			}
			out.Violations = append(out.Violations, res.Violations...)
			if res.Infra != "" {
				out.Infra = res.Infra
			}
		}
	}
	_ = json.NewEncoder(os.Stdout).Encode(out)
}
