// C02 — injection is the ordered composition of the selected Specs' and devices' edits.
// C04 shares the cache contents (see checks/c04).
package main

import (
	"encoding/json"
	"fmt"
	"os"
	"path/filepath"
	"strings"
	"sync/atomic"
	"syscall"

	oci "github.com/opencontainers/runtime-spec/specs-go"
	"tags.cncf.io/container-device-interface/pkg/cdi"
	specs "tags.cncf.io/container-device-interface/specs-go"
	"verif/mc/gen"
	"verif/mc/hx"
	"verif/mc/refmodel"
)

func iptr(v int) *int { return &v }

// provEdits builds edits that are unique to prov and that collide with every other edit
// list on env name, device path, mount destination, hook stage and RDT.
func provEdits(prov string, n int, withRdt bool) specs.ContainerEdits {
	e := specs.ContainerEdits{
		Env: []string{"P_" + prov + "=1", "COLLIDE=" + prov},
		DeviceNodes: []*specs.DeviceNode{
			{Path: "/dev/" + prov, Type: "c", Major: int64(100 + n), Minor: 1},
			{Path: "/dev/collide", Type: "b", Major: int64(200 + n), Minor: 2, Permissions: "r"},
		},
		Mounts: []*specs.Mount{
			{HostPath: "/host/" + prov, ContainerPath: "/mnt/" + prov},
			{HostPath: "/host/collide/" + prov, ContainerPath: "/collide"},
		},
		Hooks:          []*specs.Hook{{HookName: "prestart", Path: "/hook/" + prov, Args: []string{prov}}, {HookName: "poststop", Path: "/hook/stop/" + prov, Timeout: iptr(n)}},
		AdditionalGIDs: []uint32{uint32(1000 + n), 100},
	}
	// entries whose complete value repeats in every second / third edit list: a selection can
	// contain the same entry twice with a different one in between (a, b, a) - merging must keep
	// all of them in order (last wins for env / mounts / device nodes, hooks all run)
	alt2, alt3 := fmt.Sprint(n%2), fmt.Sprint(n%3)
	e.Env = append(e.Env, "ALT2="+alt2, "ALT3="+alt3)
	e.DeviceNodes = append(e.DeviceNodes, &specs.DeviceNode{Path: "/dev/alt", Type: "c", Major: int64(300 + n%2), Minor: 3})
	e.Mounts = append(e.Mounts, &specs.Mount{HostPath: "/host/alt/" + alt2, ContainerPath: "/alt"})
	e.Hooks = append(e.Hooks, &specs.Hook{HookName: "prestart", Path: "/hook/alt", Args: []string{"alt", alt2}})
	e.AdditionalGIDs = append(e.AdditionalGIDs, uint32(2000+n%2))
	if withRdt {
		e.IntelRdt = &specs.IntelRdt{ClosID: "clos-" + prov}
	}
	return e
}

// onlyMembers: the members an edits object can be reduced to (Content.Only)
var onlyMembers = []string{"env", "deviceNodes", "mounts", "hooks", "additionalGids", "intelRdt"}

// editsFor is provEdits, reduced to the single member c.Only when that is set (an edits object is
// an edits object whichever of its members it uses: a file's Spec-level edits that consist of
// additional GIDs alone, or of an RDT class alone, take part in the composition like any other)
func editsFor(c Content, prov string, n int, withRdt bool) specs.ContainerEdits {
	e := provEdits(prov, n, withRdt || c.Only == "intelRdt")
	switch c.Only {
	case "":
		return e
	case "env":
		return specs.ContainerEdits{Env: e.Env}
	case "deviceNodes":
		return specs.ContainerEdits{DeviceNodes: e.DeviceNodes}
	case "mounts":
		return specs.ContainerEdits{Mounts: e.Mounts}
	case "hooks":
		return specs.ContainerEdits{Hooks: e.Hooks}
	case "additionalGids":
		return specs.ContainerEdits{AdditionalGIDs: e.AdditionalGIDs}
	case "intelRdt":
		return specs.ContainerEdits{IntelRdt: e.IntelRdt}
	}
	panic("harness: unknown member " + c.Only)
}

type fileDef struct {
	dir, name, kind string
	devs            []string
	specEdits       bool
}

// Content describes one cache population.
type Content struct {
	Name  string    `json:"name"`
	Files []fileDef `json:"-"`
	// DirOrder: the configured directory list (default d0, d1); a directory listed twice takes the
	// priority of its last position
	DirOrder []string `json:"directory_list,omitempty"`
	// Linked: the Spec files of the higher directory are symbolic links to files kept elsewhere
	Linked bool `json:"higher_directory_holds_symbolic_links,omitempty"`
	// Only: every edits object of the content (Spec-level and device-level) holds this one member only
	Only string `json:"every_edits_object_holds_only,omitempty"`
}

func (c Content) order() []string {
	if len(c.DirOrder) > 0 {
		return c.DirOrder
	}
	return []string{"d0", "d1"}
}

func (c Content) prio(dir string) int {
	p := -1
	for i, d := range c.order() {
		if d == dir {
			p = i
		}
	}
	return p
}

type Case struct {
	Content  string   `json:"content"`
	OCI      string   `json:"initial_oci"`
	Request  []string `json:"request"`
	contentI int
}

const K1, K2 = "vendor.com/k1", "vendor.com/k2"

func contents(thorough bool) []Content {
	var out []Content
	for mask := 0; mask < 8; mask++ {
		c := Content{Name: fmt.Sprintf("specEdits(F1,F2,F0)=%03b", mask)}
		c.Files = []fileDef{
			{"d1", "f1.json", K1, []string{"a", "b"}, mask&4 != 0},
			{"d1", "f2.yaml", K2, []string{"a", "c"}, mask&2 != 0}, // k2=a shares its unqualified name with k1=a
			{"d0", "f0.json", K1, []string{"a", "d"}, mask&1 != 0},
		}
		out = append(out, c)
		if mask == 7 {
			l := c
			l.Name += "+d1-files-are-symlinks"
			l.Linked = true
			out = append(out, l)
		}
		if mask == 7 {
			for _, m := range onlyMembers {
				o := c
				o.Name += "+only-" + m
				o.Only = m
				out = append(out, o)
			}
		}
		if mask == 5 || mask == 7 {
			// the low directory listed once more at the end: now it shadows the other one
			r := c
			r.Name += "+dirs=d0,d1,d0"
			r.DirOrder = []string{"d0", "d1", "d0"}
			out = append(out, r)
		}
		if thorough {
			c2 := Content{Name: c.Name + "+F3"}
			c2.Files = append(append([]fileDef{}, c.Files...), fileDef{"d1", "f3.yaml", K1, []string{"e"}, mask&4 == 0},
				fileDef{"d0", "f4.json", K2, []string{"c", "g"}, true})
			out = append(out, c2)
		}
	}
	return out
}

// resolution model for these contents: the file in the highest directory wins
func resolve(c Content, q string) *fileDef {
	var best *fileDef
	for i := range c.Files {
		f := &c.Files[i]
		for _, d := range f.devs {
			if f.kind+"="+d == q {
				if best == nil || c.prio(f.dir) > c.prio(best.dir) {
					best = f
				}
			}
		}
	}
	return best
}

func prov(f *fileDef, dev string) string {
	return strings.TrimSuffix(strings.TrimSuffix(f.name, ".json"), ".yaml") + "-" + dev
}

func fileIndex(c Content, f *fileDef) int {
	for i := range c.Files {
		if &c.Files[i] == f {
			return i
		}
	}
	return -1
}

func writeContent(root string, c Content) error {
	for i := range c.Files {
		f := &c.Files[i]
		raw := specs.Spec{Version: "1.0.0", Kind: f.kind}
		if f.specEdits {
			raw.ContainerEdits = editsFor(c, prov(f, "SPEC"), 10*i, true)
		}
		for j, d := range f.devs {
			raw.Devices = append(raw.Devices, specs.Device{Name: d, ContainerEdits: editsFor(c, prov(f, d), 10*i+j+1, j%2 == 0)})
		}
		dir := filepath.Join(root, f.dir)
		if err := os.MkdirAll(dir, 0o755); err != nil {
			return err
		}
		data := gen.RenderJSON(raw)
		if strings.HasSuffix(f.name, ".yaml") {
			data = gen.RenderYAML(jsonTree(data))
		}
		if c.Linked && f.dir == "d1" {
			store := filepath.Join(root, "store")
			_ = os.MkdirAll(store, 0o755)
			if err := os.WriteFile(filepath.Join(store, f.name), data, 0o644); err != nil {
				return err
			}
			if err := os.Symlink(filepath.Join(store, f.name), filepath.Join(dir, f.name)); err != nil {
				return err
			}
			continue
		}
		if err := os.WriteFile(filepath.Join(dir, f.name), data, 0o644); err != nil {
			return err
		}
	}
	return nil
}

func appendEdits(dst *specs.ContainerEdits, e specs.ContainerEdits) {
	dst.Env = append(dst.Env, e.Env...)
	dst.DeviceNodes = append(dst.DeviceNodes, e.DeviceNodes...)
	dst.Hooks = append(dst.Hooks, e.Hooks...)
	dst.Mounts = append(dst.Mounts, e.Mounts...)
	if e.IntelRdt != nil {
		dst.IntelRdt = e.IntelRdt
	}
	dst.AdditionalGIDs = append(dst.AdditionalGIDs, e.AdditionalGIDs...)
}

type env struct {
	cs     []Content
	caches []*cdi.Cache
	// degraded: per content, a cache in automatic-refresh mode whose watcher could not be created
	// (descriptor shortage while it was set up): every call on it rescans the directories first
	degraded []*cdi.Cache
	dirs     [][]string
	shapes   map[string]func() *oci.Spec
}

var failures atomic.Int64

func (v *env) eval(c Case) hx.Result {
	if failures.Load() > 50 {
		// the caches are shared by all cases of a content; once results are wrong there is no point
		// in piling more injections onto a cache that an aliasing bug may be growing without bound
		return hx.Result{Outcome: "skipped-after-many-failures"}
	}
	res := v.eval1(c)
	if res.Fail != nil {
		failures.Add(1)
	}
	return res
}

func (v *env) eval1(c Case) hx.Result {
	return hx.Guard("", c, func() hx.Result {
		content := v.cs[c.contentI]
		// a cache of its own for every case: results must not depend on earlier injections
		cache, _ := cdi.NewCache(cdi.WithSpecDirs(v.dirs[c.contentI]...), cdi.WithAutoRefresh(false))
		if len(c.Request)%2 == 0 {
			// half of the cases: a cache with a past - created in automatic mode for the same directories in
			// the reverse order, then reconfigured to the order under test (the order decides what shadows what)
			dirs := v.dirs[c.contentI]
			rev := make([]string, len(dirs))
			for i, d := range dirs {
				rev[len(dirs)-1-i] = d
			}
			cache, _ = cdi.NewCache(cdi.WithSpecDirs(rev...), cdi.WithAutoRefresh(true))
			_ = cache.ListDevices()
			_ = cache.Configure(cdi.WithSpecDirs(dirs...))
			defer func() { _ = cache.Configure(cdi.WithAutoRefresh(false)) }()
		}
		// reference composition
		combined := specs.ContainerEdits{}
		seen := map[*fileDef]bool{}
		involved := map[string]bool{}
		for _, q := range c.Request {
			f := resolve(content, q)
			if f == nil {
				panic("harness: request not resolvable in the model: " + q)
			}
			i := fileIndex(content, f)
			if !seen[f] {
				seen[f] = true
				if f.specEdits {
					appendEdits(&combined, editsFor(content, prov(f, "SPEC"), 10*i, true))
					involved[prov(f, "SPEC")] = true
				}
			}
			dev := q[strings.IndexByte(q, '=')+1:]
			for j, d := range f.devs {
				if d == dev {
					appendEdits(&combined, editsFor(content, prov(f, d), 10*i+j+1, j%2 == 0))
					involved[prov(f, d)] = true
				}
			}
		}
		want := v.shapes[c.OCI]()
		if err := (&cdi.ContainerEdits{ContainerEdits: &combined}).Apply(want); err != nil {
			panic("harness: reference Apply failed: " + err.Error())
		}
		got := v.shapes[c.OCI]()
		fail := func(sig, msg string, exp, act any) hx.Result {
			return hx.Result{Outcome: "FAIL", Nontrivial: true, Fail: &hx.Failure{Sig: sig, Msg: msg, Case: c, Expected: exp, Actual: act, Rank: int64(len(c.Request)*10 + c.contentI)}}
		}
		unresolved, err := cache.InjectDevices(got, c.Request...)
		if err != nil || len(unresolved) != 0 {
			return fail("resolvable-request-fails", fmt.Sprintf("injection of resolvable devices failed: %v %v", unresolved, err), nil, fmt.Sprint(err))
		}
		// the same request once more into an equal OCI spec, on the same cache: equal result
		again := v.shapes[c.OCI]()
		if u2, err2 := cache.InjectDevices(again, c.Request...); err2 != nil || len(u2) != 0 {
			return fail("second-injection-fails", fmt.Sprintf("the same request failed the second time: %v %v", u2, err2), nil, fmt.Sprint(err2))
		}
		if ok, where := refmodel.OCIEqual(got, again); !ok {
			return fail("second-injection-differs:"+where+":"+shapeOf(c), "injecting the same request into an equal OCI spec a second time gives a different result, in "+where, refmodel.Normalise(got), refmodel.Normalise(again))
		}
		// provenance: nothing of an unrequested device or an uninvolved/shadowed file
		if got.Process != nil {
			for _, kv := range got.Process.Env {
				if strings.HasPrefix(kv, "P_") {
					p := strings.TrimSuffix(strings.TrimPrefix(kv, "P_"), "=1")
					if !involved[p] {
						return fail("foreign-edits:"+shapeOf(c), "edits of "+p+" appear although it was neither requested nor the Spec of a requested device", keys(involved), got.Process.Env)
					}
				}
			}
		}
		if ok, where := refmodel.OCIEqual(want, got); !ok {
			// order-sensitive comparison is intended for mounts, hooks and cgroup rules; env/devices/gids compare by key
			return fail("composition-differs:"+where+":"+shapeOf(c), "injection result differs from applying the combined edit list, in "+where, refmodel.Normalise(want), refmodel.Normalise(got))
		}
		// the same request through the cache that rescans before every lookup: same result
		if len(c.Request) <= 3 {
			dg := v.shapes[c.OCI]()
			if u3, err3 := v.degraded[c.contentI].InjectDevices(dg, c.Request...); err3 != nil || len(u3) != 0 {
				return fail("injection-fails-on-cache-without-watcher", fmt.Sprintf("the request failed on an auto-refresh cache whose watcher could not be created: %v %v", u3, err3), nil, fmt.Sprint(err3))
			}
			if ok, where := refmodel.OCIEqual(want, dg); !ok {
				return fail("composition-differs-on-cache-without-watcher:"+where+":"+shapeOf(c), "on an auto-refresh cache whose watcher could not be created (it rescans on every call) the result differs from the combined edit list, in "+where, refmodel.Normalise(want), refmodel.Normalise(dg))
			}
		}
		// "exactly as applying one combined edit list": the expected value was produced by one real
		// Apply of the combined list, so the two OCI specs must also be identical member by member,
		// list order included (e.g. the order of process.env)
		jw, _ := json.Marshal(want)
		jg, _ := json.Marshal(got)
		if string(jw) != string(jg) {
			where := "?"
			var mw, mg map[string]json.RawMessage
			_ = json.Unmarshal(jw, &mw)
			_ = json.Unmarshal(jg, &mg)
			for _, k := range []string{"process", "mounts", "hooks", "linux", "annotations", "root", "hostname"} {
				if string(mw[k]) != string(mg[k]) {
					where = k
					break
				}
			}
			return fail("composition-differs-in-order:"+where+":"+shapeOf(c), "injection result equals the combined application only up to list order, in "+where, json.RawMessage(jw), json.RawMessage(jg))
		}
		return hx.Result{Outcome: fmt.Sprintf("equal:%d-devices", len(c.Request)), Nontrivial: len(c.Request) > 0}
	})
}

// shapeOf abstracts a request: how many devices, how many distinct files, whether a file repeats non-adjacently.
func shapeOf(c Case) string {
	return fmt.Sprintf("len=%d", len(c.Request))
}

func keys(m map[string]bool) []string {
	var k []string
	for s := range m {
		k = append(k, s)
	}
	return k
}

func jsonTree(data []byte) any {
	var t any
	if err := jsonUnmarshal(data, &t); err != nil {
		panic(err)
	}
	return t
}

func orderedSelections(items []string, max int) [][]string {
	out := [][]string{{}}
	var rec func(cur []string, used int)
	rec = func(cur []string, used int) {
		if len(cur) > 0 {
			out = append(out, append([]string{}, cur...))
		}
		if len(cur) == max {
			return
		}
		for i, it := range items {
			if used&(1<<i) == 0 {
				rec(append(cur, it), used|1<<i)
			}
		}
	}
	rec(nil, 0)
	return out
}

func main() {
	r := hx.Start("C02", "model_checking")
	root, err := os.MkdirTemp("/dev/shm", "verif-c02-")
	if err != nil {
		root, _ = os.MkdirTemp("", "verif-c02-")
	}
	defer os.RemoveAll(root)
	v := &env{cs: contents(r.Thorough() || r.Replay != ""), shapes: map[string]func() *oci.Spec{}}
	for _, s := range gen.OCIShapes() {
		v.shapes[s.Name] = s.Make
	}
	for i, c := range v.cs {
		dir := filepath.Join(root, fmt.Sprintf("c%d", i))
		if err := writeContent(dir, c); err != nil {
			fmt.Println("INFRA:", err)
			os.Exit(2)
		}
		var dirList []string
		for _, d := range c.order() {
			dirList = append(dirList, filepath.Join(dir, d))
		}
		cache, _ := cdi.NewCache(cdi.WithSpecDirs(dirList...), cdi.WithAutoRefresh(false))
		if errs := cache.GetErrors(); len(errs) != 0 {
			fmt.Println("INFRA: generated Spec files do not load:", errs)
			os.RemoveAll(root)
			os.Exit(2)
		}
		v.caches = append(v.caches, cache)
		v.dirs = append(v.dirs, dirList)
		// still single-threaded here: no descriptor can be opened while this cache is created
		var lim, zero syscall.Rlimit
		_ = syscall.Getrlimit(syscall.RLIMIT_NOFILE, &lim)
		zero = lim
		zero.Cur = 0
		_ = syscall.Setrlimit(syscall.RLIMIT_NOFILE, &zero)
		dc, _ := cdi.NewCache(cdi.WithSpecDirs(dirList...), cdi.WithAutoRefresh(true))
		_ = syscall.Setrlimit(syscall.RLIMIT_NOFILE, &lim)
		v.degraded = append(v.degraded, dc)
	}
	if r.Replay != "" {
		var c Case
		r.LoadReplay(&c)
		for i, x := range v.cs {
			if x.Name == c.Content {
				c.contentI = i
			}
		}
		res := v.eval(c)
		os.RemoveAll(root)
		hx.ReplayExit("C02", res)
	}
	maxLen := 4
	shapeNames := []string{"empty", "populated"}
	if r.Thorough() {
		maxLen = 5
		shapeNames = nil
		for _, s := range gen.OCIShapes() {
			shapeNames = append(shapeNames, s.Name)
		}
	}
	var cases []Case
	for i, c := range v.cs {
		var resolvable []string
		seen := map[string]bool{}
		for _, f := range c.Files {
			for _, d := range f.devs {
				q := f.kind + "=" + d
				if !seen[q] {
					seen[q] = true
					resolvable = append(resolvable, q)
				}
			}
		}
		for _, req := range orderedSelections(resolvable, maxLen) {
			for _, sh := range shapeNames {
				cases = append(cases, Case{Content: c.Name, OCI: sh, Request: req, contentI: i})
			}
		}
	}
	r.Rule = fmt.Sprintf("%d cache contents (files F1{a,b},F2{c} in the high directory, F0{a(shadowed),d} in the low one; spec-level edits present/absent per file; six contents in which every edits object holds one member only - env, deviceNodes, mounts, hooks, additionalGids, intelRdt; thorough adds F3,F4) x every ordered selection of distinct resolvable devices up to length %d x %d initial OCI specs; "+
		"every edit list carries a provenance-unique variable and entries colliding with every other list (env name, device path, mount destination, hook stage, RDT, GID). Oracle: edit list composed independently per the statement, applied once; provenance scan. "+
		"Distinct by construction; non-trivial = non-empty request", len(v.cs), maxLen, len(shapeNames))
	r.Assumptions = []string{"device nodes in the edits specify type and major, so no host lookup takes part", "the expected value uses the real ContainerEdits.Apply once on the combined list, exactly as the statement is worded (Apply itself is C03's subject)"}
	r.ParallelL(int64(len(cases)), func(i int64, l *hx.Local) {
		res := v.eval(cases[i])
		l.Record(res, func() any { return map[string]any{"case": cases[i], "outcome": res.Outcome} })
	})
	os.RemoveAll(root)
	r.Finish()
}
