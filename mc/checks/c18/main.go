// C18 — every Spec the library accepts also passes the builtin schema.
package main

import (
	"bytes"
	"encoding/json"
	"fmt"
	"os"
	"path/filepath"
	"strings"

	"tags.cncf.io/container-device-interface/pkg/cdi"
	"tags.cncf.io/container-device-interface/schema"
	specs "tags.cncf.io/container-device-interface/specs-go"
	"verif/mc/gen"
	"verif/mc/hx"
)

type Case struct {
	Base      string         `json:"base"`
	Mutations []gen.Mutation `json:"mutations,omitempty"`
	Doc       any            `json:"document"`
	// phase 1 results (no validator installed)
	libAccepts   bool
	writeAccepts bool
	tree         gen.M // the base document; the case's document is rebuilt on demand (thorough: the documents do not fit in memory)
}

// doc returns the document of the case.
func (c *Case) doc() any {
	if c.Doc != nil {
		return c.Doc
	}
	if len(c.Mutations) == 0 {
		return c.tree
	}
	d := gen.Apply(c.tree, c.Mutations[0])
	gen.RaiseVersion(d, c.Mutations)
	return d
}

var sensitive = []string{"yes", "no", "on", "~", "null", "", " ", "0123", "0x1f", "1_000", "1e3", ".inf", "2001-12-14", " lead", "trail ", "a\tb", "line\nbreak", "trailing\n", "a\r\nb", "'single'", "\"double\"",
	"#comment", "a: b", "- item", "---", "| pipe", "> fold", "&anchor", "*alias", "!tag", "%dir", "@at", "`tick", "{brace}", "[bracket]", "\\", "\u00e9", "\U0001F600", "\u00a0", "\ufeff", "=", "<<", "0", "true", strings.Repeat("x", 300),
	// control and non-characters the writer has to escape for one of the two readers
	"a\x7fb", "\x01", "a\x1bb", "\u0085", "a\u009fb", "\u2028", "\u2029", "\ufffe", "\uffff", "\U0010ffff", "\x00"}

type worker struct {
	dir   string
	cache *cdi.Cache
}

func newWorker(root string, i int) *worker {
	w := &worker{dir: filepath.Join(root, fmt.Sprintf("w%d", i))}
	_ = os.MkdirAll(filepath.Join(w.dir, "load"), 0o755)
	_ = os.MkdirAll(filepath.Join(w.dir, "write"), 0o755)
	w.cache, _ = cdi.NewCache(cdi.WithSpecDirs(filepath.Join(w.dir, "load")), cdi.WithAutoRefresh(false))
	return w
}

// readVerdict: does ReadSpec / cache load accept the JSON rendering?
func (w *worker) readVerdict(doc any) (read, cacheOK bool, spec *specs.Spec) {
	path := filepath.Join(w.dir, "load", "doc.json")
	_ = os.WriteFile(path, gen.RenderJSONASCII(doc), 0o644) // pure ASCII: readable whatever the strings contain
	defer os.Remove(path)
	s, err := cdi.ReadSpec(path, 0)
	_ = w.cache.Refresh()
	_, hasErr := w.cache.GetErrors()[path]
	cacheOK = !hasErr && len(w.cache.ListDevices()) > 0
	if err == nil {
		spec = s.Spec
	}
	return err == nil, cacheOK, spec
}

// leftovers: what interrupted or foreign writers left in the directory written to - temporary-looking
// neighbours of the names written, longer than any document of the sweep and not YAML. A writer
// that stages its output in a file it finds there must not let any of it through.
var leftoverNames = []string{"out.tmp", "out.json.tmp", "out.yaml.tmp", "spec.tmp", ".out.yaml.tmp", "out.yaml~"}
var leftoverBig = bytes.Repeat([]byte("stale: [ {\n"), 3<<20/11)
var leftoverSmall = bytes.Repeat([]byte("stale: [ {\n"), 64<<10/11)

func (w *worker) leftovers() {
	for i, n := range leftoverNames {
		p := filepath.Join(w.dir, "write", n)
		want := leftoverSmall
		if i == 0 {
			want = leftoverBig
		}
		if fi, err := os.Lstat(p); err != nil || fi.Size() != int64(len(want)) {
			_ = os.Remove(p)
			_ = os.WriteFile(p, want, 0o644)
		}
	}
}

func (w *worker) writeVerdict(spec *specs.Spec, name string) (bool, string) {
	w.leftovers()
	wc, _ := cdi.NewCache(cdi.WithSpecDirs(filepath.Join(w.dir, "write")), cdi.WithAutoRefresh(false))
	err := wc.WriteSpec(spec, name)
	p := filepath.Join(w.dir, "write", name)
	return err == nil, p
}

func classOf(c Case) string {
	if len(c.Mutations) == 0 {
		return "base"
	}
	return c.Mutations[0].Class
}

func main() {
	r := hx.Start("C18", "model_checking")
	root, err := os.MkdirTemp("/dev/shm", "verif-c18-")
	if err != nil {
		root, _ = os.MkdirTemp("", "verif-c18-")
	}
	defer os.RemoveAll(root)
	cdi.SetSpecValidator(nil)

	level := 0
	if r.Thorough() {
		level = 1
	}
	bases := gen.Bases(level)
	if !r.Thorough() {
		var sub []gen.Base
		for i, b := range bases {
			if i%5 == 0 || strings.Contains(b.Name, "devs=all") {
				sub = append(sub, b)
			}
		}
		bases = sub
	}
	var cases []Case
	add := func(b gen.Base, m *gen.Mutation) {
		if m == nil {
			cases = append(cases, Case{Base: b.Name, tree: b.Tree})
			return
		}
		cases = append(cases, Case{Base: b.Name, Mutations: []gen.Mutation{*m}, tree: b.Tree})
	}
	numeric := map[string][]any{
		"major": {int64(0), int64(-1), int64(9223372036854775807), int64(-9223372036854775808)}, "minor": {int64(9223372036854775807), int64(-9223372036854775808)},
		"uid": {int64(0), int64(4294967295)}, "gid": {int64(0), int64(4294967295)}, "fileMode": {int64(0), int64(0o777), int64(4294967295), int64(0o4755)},
		"timeout": {int64(0), int64(1), int64(4294967295)},
	}
	// documents made large by legal means: every annotation set below its own 256 KiB limit, several
	// devices - more than a MiB as a file; and many small devices
	if len(bases) > 0 {
		b := bases[0]
		pad := strings.Repeat("x", 200*1024)
		var big, many []any
		for i := 0; i < 7; i++ {
			big = append(big, map[string]any{"name": fmt.Sprintf("big%d", i), "annotations": map[string]any{"pad.example.com/p": pad}, "containerEdits": map[string]any{"env": []any{"A=b"}}})
		}
		for i := 0; i < 9000; i++ {
			many = append(many, map[string]any{"name": fmt.Sprintf("dev%05d", i), "containerEdits": map[string]any{"env": []any{fmt.Sprintf("INDEX=%d", i), "PAD=" + strings.Repeat("x", 100)}}})
		}
		for name, devs := range map[string][]any{"seven-devices-with-200KiB-of-annotations-each": big, "9000-devices": many} {
			m := gen.Mutation{Class: "large-document:" + name, Path: gen.Path{"devices"}, Op: "set", Value: devs}
			doc := gen.Apply(b.Tree, m)
			if name[0] == 's' {
				doc = gen.Apply(doc, gen.Mutation{Path: gen.Path{"annotations"}, Op: "set", Value: map[string]any{"pad.example.com/spec": pad}}, gen.Mutation{Path: gen.Path{"cdiVersion"}, Op: "set", Value: "0.6.0"})
			}
			cases = append(cases, Case{Base: b.Name, Mutations: []gen.Mutation{{Class: m.Class}}, Doc: doc, tree: b.Tree})
		}
	}
	for bi, b := range bases {
		add(b, nil)
		for _, m := range gen.Defects(b.Tree) {
			m := m
			if m.Expect == "valid" || m.Expect == "" {
				if strings.Contains(m.Class, "size") && bi%8 != 0 {
					continue
				}
				add(b, &m)
			}
		}
		for _, m := range gen.Confusions(b.Tree) {
			m := m
			// numeric extremes at every integer member; other confusions that stay library-valid are kept too
			last, _ := m.Path[len(m.Path)-1].(string)
			if vals, ok := numeric[last]; ok && strings.HasSuffix(m.Class, "<-zero") {
				for _, v := range vals {
					mm := m
					mm.Class = strings.TrimSuffix(m.Class, "zero") + fmt.Sprintf("number:%v", v)
					mm.Value = v
					add(b, &mm)
				}
			}
			if strings.HasSuffix(m.Class, "<-absent") || strings.HasSuffix(m.Class, "<-empty-list") || strings.HasSuffix(m.Class, "<-empty-string") || strings.HasSuffix(m.Class, "<-empty-object") || strings.HasSuffix(m.Class, "<-zero") {
				add(b, &m)
			}
			if strings.Contains(m.Class, "additionalGids[]<-zero") {
				mm := m
				mm.Class = "confusion:edits.additionalGids[]<-number:4294967295"
				mm.Value = int64(4294967295)
				add(b, &mm)
			}
		}
	}
	// strings at free string positions of the richest base
	rich := gen.MakeBase(true, "all", []string{"all", "env"}, true, "vendor.com/class", false)
	positions := []gen.Path{{"devices", 0, "containerEdits", "hooks", 1, "args", 1}, {"devices", 0, "containerEdits", "mounts", 1, "options", 0}, {"devices", 0, "containerEdits", "mounts", 0, "hostPath"},
		{"annotations", "plain"}, {"devices", 0, "containerEdits", "intelRdt", "l3CacheSchema"}, {"devices", 0, "containerEdits", "deviceNodes", 1, "hostPath"}, {"devices", 0, "containerEdits", "hooks", 1, "path"}}
	for _, s := range sensitive {
		for _, p := range positions {
			v := s
			if last, _ := p[len(p)-1].(string); last == "hostPath" || last == "path" {
				v = "/" + s
			}
			m := gen.Mutation{Class: "string:" + fmt.Sprint(p[len(p)-1]), Path: p, Where: p.String(), Op: "set", Value: v}
			add(rich, &m)
		}
		m := gen.Mutation{Class: "string:env-value", Path: gen.Path{"devices", 0, "containerEdits", "env", 0}, Where: "env", Op: "set", Value: "A=" + s}
		add(rich, &m)
	}
	if r.Replay != "" {
		var c Case
		r.LoadReplay(&c)
		c.Doc = normalise(c.Doc)
		cases = []Case{c}
	}

	nw := 16
	pool := make(chan *worker, nw)
	for i := 0; i < nw; i++ {
		pool <- newWorker(root, i)
	}
	builtin := schema.BuiltinSchema()
	if err := builtin.ValidateData([]byte("{}")); err == nil {
		r.Fail(&hx.Failure{Sig: "builtin-schema-is-a-no-op", Msg: "the builtin schema accepts {}: nothing can be concluded from it", Case: "{}"})
	}
	fail := func(c Case, sig, msg string, act any) {
		c.Doc = c.doc()
		r.Fail(&hx.Failure{Sig: sig + ":" + classOf(c), Msg: msg + " [" + classOf(c) + " on " + c.Base + "]", Case: c, Actual: act, Rank: int64(len(c.Base))})
	}
	// ---- phase 1: no validator installed; schema verdicts of everything the library accepts
	r.Parallel(int64(len(cases)), func(i int64) {
		w := <-pool
		defer func() { pool <- w }()
		c := &cases[i]
		defer func() {
			if p := recover(); p != nil {
				fail(*c, "panic", fmt.Sprint("panic: ", p), nil)
			}
		}()
		read, cacheOK, spec := w.readVerdict(c.doc())
		c.libAccepts = read && cacheOK
		if !c.libAccepts {
			return
		}
		if i%7 == 0 {
			// history: the same schema object first meets a Spec it rightly refuses (a hook timeout of
			// -1 is outside the statement); its verdicts afterwards must not depend on that
			tm := -1
			refused := &specs.Spec{Version: "0.6.0", Kind: "vendor.com/refused", Devices: []specs.Device{{Name: "d", ContainerEdits: specs.ContainerEdits{
				Hooks: []*specs.Hook{{HookName: "prestart", Path: "/h", Timeout: &tm}}}}}}
			if builtin.Validate(refused) == nil || builtin.ValidateType(refused) == nil {
				fail(*c, "schema-accepts-negative-timeout", "the builtin schema accepts a hook timeout of -1", nil)
			}
			_ = builtin.ValidateData([]byte(`{"cdiVersion":"0.6.0","kind":"vendor.com/refused","devices":[]}`))
		}
		if err := builtin.Validate(spec); err != nil {
			fail(*c, "schema-rejects-in-memory-spec", "library-valid Spec rejected by the builtin schema: "+firstLine(err.Error()), err.Error())
		}
		for _, name := range []string{"out.json", "out.yaml"} {
			ok, p := w.writeVerdict(spec, name)
			if name == "out.json" {
				c.writeAccepts = ok
			}
			if !ok {
				continue
			}
			if err := builtin.ValidateFile(p); err != nil {
				fail(*c, "schema-rejects-written-file:"+filepath.Ext(name), "file written by WriteSpec rejected by ValidateFile: "+firstLine(err.Error()), err.Error())
			}
			data, _ := os.ReadFile(p)
			if err := builtin.ValidateData(data); err != nil {
				fail(*c, "schema-rejects-written-data:"+filepath.Ext(name), "content written by WriteSpec rejected by ValidateData: "+firstLine(err.Error()), err.Error())
			}
			if name == "out.json" {
				// the reader entry points take JSON
				if err := builtin.ValidateReader(bytes.NewReader(data)); err != nil {
					fail(*c, "schema-rejects-written-data-through-a-reader", "content written by WriteSpec rejected by ValidateReader: "+firstLine(err.Error()), err.Error())
				}
				if back, err := builtin.ReadAndValidate(bytes.NewReader(data)); err != nil || !bytes.Equal(back, data) {
					fail(*c, "schema-rejects-written-data-through-a-reader", fmt.Sprintf("ReadAndValidate of the written content: error %v, %d of %d bytes returned", err, len(back), len(data)), nil)
				}
			}
			_ = os.Remove(p)
		}
	})
	// ---- phase 2: builtin schema installed as the Spec validator: same verdicts
	cdi.SetSpecValidator(builtin)
	r.ParallelL(int64(len(cases)), func(i int64, l *hx.Local) {
		w := <-pool
		defer func() { pool <- w }()
		c := cases[i]
		if !c.libAccepts {
			l.Record(hx.Result{Outcome: "not-library-valid", Nontrivial: false}, nil)
			return
		}
		read, cacheOK, spec := w.readVerdict(c.doc())
		if !read || !cacheOK {
			fail(c, "validator-turns-loadable-spec-into-error", fmt.Sprintf("with the builtin schema installed as validator: ReadSpec ok=%v, cache load ok=%v for a Spec that loads without it", read, cacheOK), nil)
		}
		if c.writeAccepts {
			for _, name := range []string{"out.json", "out.yaml"} {
				if spec == nil {
					break
				}
				ok, p := w.writeVerdict(spec, name)
				if !ok {
					fail(c, "validator-makes-writer-refuse", "WriteSpec refuses with the builtin schema installed a Spec it writes without it", nil)
					continue
				}
				if _, err := cdi.ReadSpec(p, 0); err != nil {
					fail(c, "schema-checking-reader-refuses-written-file:"+filepath.Ext(name), "the schema-checking reader refuses a file the writer produced: "+firstLine(err.Error()), err.Error())
				}
				_ = os.Remove(p)
			}
		}
		l.Record(hx.Result{Outcome: "library-valid:schema-accepts", Nontrivial: true}, func() any {
			return map[string]any{"base": c.Base, "mutations": c.Mutations}
		})
	})
	cdi.SetSpecValidator(nil)
	r.Rule = fmt.Sprintf("candidate documents = %d bases + their valid-edge single mutations (annotation key/size edges, closID edges, device-node type/permission variants, absent/empty optional members) + numeric extremes of every integer member (major/minor int64 min/max, uid/gid/fileMode/GIDs 0 and 2^32-1, hook timeout 0..2^32-1) + %d sensitive strings at 8 string positions: %d documents; "+
		"the domain is the subset the library itself accepts (ReadSpec and cache load without a validator). Oracle: BuiltinSchema().Validate(spec)==nil, written .json/.yaml (into a directory that holds long non-YAML leftovers under temporary-looking neighbour names) pass ValidateFile/ValidateData, and with SetSpecValidator(builtin) ReadSpec, cache load and WriteSpec give the same verdicts. non-trivial = library-valid documents",
		len(bases), len(sensitive), len(cases))
	r.Assumptions = []string{"hook timeouts outside 0..2^32-1 are outside the statement", "the builtin schema must reject {} (otherwise it is the silent no-op fallback and the run reports that)"}
	os.RemoveAll(root)
	r.Finish()
}

func firstLine(s string) string {
	if i := strings.IndexByte(s, '\n'); i >= 0 {
		return s[:i]
	}
	return s
}

func normalise(v any) any {
	switch x := v.(type) {
	case map[string]any:
		for k, e := range x {
			x[k] = normalise(e)
		}
		return x
	case []any:
		for i, e := range x {
			x[i] = normalise(e)
		}
		return x
	case float64:
		if x == float64(int64(x)) && x > -9e15 && x < 9e15 {
			return int64(x)
		}
	}
	return v
}

var _ = json.Marshal
