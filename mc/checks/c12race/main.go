// c12race: the free-running half of C12. Built with `go build -race` from the UNMODIFIED
// sources (no overlay): real sync, real goroutines, real fsnotify. Every pair of cache
// operations of c12ops runs concurrently (released together by a barrier) for a number of
// iterations, in manual and automatic refresh mode; the Go race detector's reports go to a
// log file (GORACE=log_path), which the C12 driver parses.
// The cooperative scheduler of the explorer cannot be used for this: its hand-offs are
// happens-before edges that would hide every race.
package main

import (
	"fmt"
	"os"
	"path/filepath"
	"runtime"
	"strconv"
	"sync"
	"sync/atomic"
	"time"

	"tags.cncf.io/container-device-interface/pkg/cdi"
	"verif/mc/c12ops"
)

func main() {
	iters, _ := strconv.Atoi(os.Args[1])
	root, err := os.MkdirTemp("/dev/shm", "verif-c12race-")
	if err != nil {
		root, _ = os.MkdirTemp("", "verif-c12race-")
	}
	defer os.RemoveAll(root)
	ops := c12ops.All()
	bad := 0
	runs := 0
	// watchdog for everything the per-pair timeout below does not cover (creation of the cache, the
	// reconfiguration that ends an iteration): no iteration finished for 30 s = a deadlock
	var beat atomic.Int64
	var current atomic.Value
	current.Store("start")
	beat.Store(time.Now().UnixNano())
	go func() {
		for {
			time.Sleep(time.Second)
			if time.Since(time.Unix(0, beat.Load())) > 30*time.Second {
				buf := make([]byte, 1<<20)
				n := runtime.Stack(buf, true)
				fmt.Printf("HANG %s: no iteration finished for 30 s\n%s\nENDHANG\n", current.Load(), buf[:n])
				os.RemoveAll(root)
				os.Exit(3)
			}
		}
	}()
	for _, auto := range []bool{false, true} {
		for i := range ops {
			for j := i; j < len(ops); j++ {
				for it := 0; it < iters; it++ {
					beat.Store(time.Now().UnixNano())
					current.Store(fmt.Sprintf("%s || %s, then Configure(manual) (auto=%v)", ops[i].Name, ops[j].Name, auto))
					w := c12ops.Setup(filepath.Join(root, "w"))
					c, _ := cdi.NewCache(cdi.WithSpecDirs(w.Dirs()...), cdi.WithAutoRefresh(auto))
					var wg sync.WaitGroup
					start := make(chan struct{})
					var res [2]c12ops.Result
					for k, op := range []c12ops.Op{ops[i], ops[j]} {
						wg.Add(1)
						go func(k int, op c12ops.Op) {
							defer wg.Done()
							<-start
							res[k] = op.Run(w, c)
						}(k, op)
					}
					close(start)
					done := make(chan struct{})
					go func() { wg.Wait(); close(done) }()
					select {
					case <-done:
					case <-time.After(20 * time.Second):
						// a deadlock (or livelock): report the pair with all goroutine stacks and stop
						buf := make([]byte, 1<<20)
						n := runtime.Stack(buf, true)
						fmt.Printf("HANG %s || %s (auto=%v)\n%s\nENDHANG\n", ops[i].Name, ops[j].Name, auto, buf[:n])
						os.RemoveAll(root)
						os.Exit(3)
					}
					runs++
					for _, r := range res {
						if r.Bad != "" {
							bad++
							fmt.Printf("BAD %s || %s (auto=%v): %s\n", ops[i].Name, ops[j].Name, auto, r.Bad)
						}
					}
					_ = c.Configure(cdi.WithAutoRefresh(false))
				}
			}
		}
	}
	time.Sleep(50 * time.Millisecond)
	fmt.Printf("RUNS %d BAD %d\n", runs, bad)
}
