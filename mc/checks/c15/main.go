// C15 — CDI annotations written by the helper parse back to the same request.
package main

import (
	"fmt"
	"reflect"
	"sort"
	"strings"

	"tags.cncf.io/container-device-interface/pkg/cdi"
	"verif/mc/hx"
	"verif/mc/refmodel"
)

const prefix = "cdi.k8s.io/"

type Case struct {
	Kind    string            `json:"kind"` // update | parse
	Map     map[string]string `json:"map"`
	MapKind string            `json:"map_kind,omitempty"`
	Plugin  []byte            `json:"plugin_bytes,omitempty"`
	ID      []byte            `json:"id_bytes,omitempty"`
	Devices []string          `json:"devices,omitempty"`
	Note    string            `json:"note,omitempty"`
}

func copyMap(m map[string]string) map[string]string {
	if m == nil {
		return nil
	}
	c := make(map[string]string, len(m))
	for k, v := range m {
		c[k] = v
	}
	return c
}

func mapPtr(m map[string]string) uintptr {
	if m == nil {
		return 0
	}
	return reflect.ValueOf(m).Pointer()
}

func allQualified(devs []string) bool {
	for _, d := range devs {
		if _, _, _, r := refmodel.Qualified(d); r != "" {
			return false
		}
	}
	return true
}

func evalUpdate(c Case) hx.Result {
	return hx.Guard("update:", c, func() hx.Result {
		plugin, id := string(c.Plugin), string(c.ID)
		wantKey := prefix + plugin + "_" + strings.ReplaceAll(id, "/", "_")
		m := copyMap(c.Map)
		switch c.MapKind {
		case "target-key-used":
			m[wantKey] = "vendor.com/class=old"
		case "target-key-used-with-empty-value":
			m[wantKey] = "" // present all the same: "already used"
		case "target-key-used-with-same-value":
			m[wantKey] = strings.Join(c.Devices, ",")
		}
		before := copyMap(m)
		fail := func(sig, msg string, exp, act any) hx.Result {
			return hx.Result{Outcome: "FAIL", Nontrivial: true, Fail: &hx.Failure{Sig: "update:" + sig, Msg: msg, Case: c, Expected: exp, Actual: act,
				Rank: int64(len(c.Plugin) + len(c.ID) + 10*len(c.Devices))}}
		}
		out, err := cdi.UpdateAnnotations(m, plugin, id, c.Devices)
		if err != nil {
			if !reflect.DeepEqual(m, before) {
				return fail("failed-call-mutated-map", "UpdateAnnotations failed but changed the map", before, m)
			}
			if mapPtr(out) != mapPtr(m) || !reflect.DeepEqual(out, before) {
				return fail("failed-call-returned-other-map", "UpdateAnnotations failed but returned a different map", before, out)
			}
			return hx.Result{Outcome: "error:" + errClass(err), Nontrivial: true}
		}
		// success: exactly one new key
		var added []string
		for k := range out {
			if _, ok := before[k]; !ok {
				added = append(added, k)
			}
		}
		for k, v := range before {
			if ov, ok := out[k]; !ok || ov != v {
				return fail("existing-entry-changed", fmt.Sprintf("existing entry %q overwritten or lost", k), before, out)
			}
		}
		if len(added) != 1 {
			return fail("not-exactly-one-new-key", fmt.Sprintf("success added %d keys", len(added)), 1, added)
		}
		key := added[0]
		if !strings.HasPrefix(key, prefix) {
			return fail("key-without-cdi-prefix", "new key lacks the CDI prefix", prefix, key)
		}
		if r := refmodel.K8sAnnotationKey(key); r != "" {
			return fail("illegal-k8s-key:"+r, fmt.Sprintf("new key %q is not a legal Kubernetes annotation key (%s)", key, r), "legal key", key)
		}
		keys, devs, perr := cdi.ParseAnnotations(map[string]string{key: out[key]})
		if perr != nil || len(keys) != 1 || keys[0] != key || !reflect.DeepEqual(devs, c.Devices) {
			return fail("value-does-not-parse-back", fmt.Sprintf("value %q does not parse back to the request", out[key]), c.Devices, []any{keys, devs, fmt.Sprint(perr)})
		}
		if !allQualified(c.Devices) {
			return fail("unqualified-device-accepted", "request with a device that is not fully qualified succeeded", "error", out[key])
		}
		// whole map still parses when the pre-existing CDI entries were well-formed
		return hx.Result{Outcome: "added", Nontrivial: true}
	})
}

func errClass(err error) string {
	s := err.Error()
	switch {
	case strings.Contains(s, "used"):
		return "key-used"
	case strings.Contains(s, "too long"):
		return "too-long"
	case strings.Contains(s, "empty"):
		return "empty"
	case strings.Contains(s, "invalid name"):
		return "bad-key-char"
	case strings.Contains(s, "unqualified") || strings.Contains(s, "invalid device"):
		return "bad-device"
	}
	return "other"
}

func evalParse(c Case) hx.Result {
	return hx.Guard("parse:", c, func() hx.Result {
		in := copyMap(c.Map)
		var wantKeys, wantDevs []string
		ok := true
		cdiKeys := 0
		for k, v := range c.Map {
			if !strings.HasPrefix(k, prefix) {
				continue
			}
			cdiKeys++
			wantKeys = append(wantKeys, k)
			for _, d := range strings.Split(v, ",") {
				wantDevs = append(wantDevs, d)
				if _, _, _, r := refmodel.Qualified(d); r != "" {
					ok = false
				}
			}
		}
		fail := func(sig, msg string, exp, act any) hx.Result {
			return hx.Result{Outcome: "FAIL", Nontrivial: true, Fail: &hx.Failure{Sig: "parse:" + sig, Msg: msg, Case: c, Expected: exp, Actual: act, Rank: int64(len(c.Map))}}
		}
		keys, devs, err := cdi.ParseAnnotations(in)
		if !reflect.DeepEqual(in, c.Map) {
			return fail("input-mutated", "ParseAnnotations changed its input", c.Map, in)
		}
		if !ok {
			if err == nil {
				return fail("unqualified-name-accepted", "a device name that is not fully qualified was accepted", "error", []any{keys, devs})
			}
			if len(keys) != 0 || len(devs) != 0 {
				return fail("error-with-results", "error returned together with non-empty results", "empty", []any{keys, devs})
			}
			return hx.Result{Outcome: "parse-error", Nontrivial: true}
		}
		if err != nil {
			return fail("valid-map-rejected", "well-formed CDI annotations rejected: "+err.Error(), wantDevs, nil)
		}
		sk, sd := append([]string{}, keys...), append([]string{}, devs...)
		sort.Strings(sk)
		sort.Strings(wantKeys)
		if !eq(sk, wantKeys) {
			return fail("wrong-keys", "returned keys are not exactly the CDI keys", wantKeys, keys)
		}
		if cdiKeys == 1 {
			if !eq(devs, wantDevs) {
				return fail("wrong-devices-order", "devices of the key not returned in order", wantDevs, devs)
			}
		} else {
			// order between keys is not promised; per key the devices must appear as a contiguous in-order run
			sw := append([]string{}, wantDevs...)
			sort.Strings(sd)
			sort.Strings(sw)
			if !eq(sd, sw) {
				return fail("wrong-devices", "returned devices are not exactly those of the CDI keys", wantDevs, devs)
			}
			for _, k := range wantKeys {
				run := strings.Split(c.Map[k], ",")
				if !containsRun(devs, run) {
					return fail("wrong-devices-order", "devices of key "+k+" not contiguous and in order", run, devs)
				}
			}
		}
		return hx.Result{Outcome: fmt.Sprintf("parsed:%d-keys", cdiKeys), Nontrivial: cdiKeys > 0}
	})
}

func eq(a, b []string) bool {
	if len(a) != len(b) {
		return false
	}
	for i := range a {
		if a[i] != b[i] {
			return false
		}
	}
	return true
}

func containsRun(hay, run []string) bool {
	for i := 0; i+len(run) <= len(hay); i++ {
		if eq(hay[i:i+len(run)], run) {
			return true
		}
	}
	return false
}

var classAlphabet = []string{"a", "Z", "0", "_", "-", ".", "/", " ", ":", "=", "\xc3\xa9", ","}

func stringsUpTo(alpha []string, k int) []string {
	out := []string{""}
	level := []string{""}
	for n := 1; n <= k; n++ {
		var next []string
		for _, p := range level {
			for _, a := range alpha {
				next = append(next, p+a)
			}
		}
		out = append(out, next...)
		level = next
	}
	return out
}

var deviceAlphabet = []string{"vendor.com/class=dev0", "v/c=1", "vendor.com/class=dev2", "dev", "", "vendor.com/class=a,b", " vendor.com/class=x", "vendor.com/class=y ", "vendor.com/cl ass=z", "vendor.com/class",
	// not fully qualified either: a non-ASCII character (whose low byte, or low 7 bits, is an ASCII letter or digit) inside the name, the class, the vendor
	"vendor.com/class=dev0,vendor.com/class=dev2", // one string holding two qualified names: not a qualified name
	"vendor.com/class=d\u0141v", "vendor.com/cl\u0161ss=x", "v\u0161ndor.com/class=x", "vendor.com/class=d\u00e1v",
	// the kind of another element of the alphabet followed directly by a name (no "="), by "=" alone, by "==name"
	"vendor.com/classdev1", "v/c1", "vendor.com/class=", "vendor.com/class==dev1"}

func deviceLists(max int) [][]string {
	var out [][]string
	var rec func(cur []string)
	rec = func(cur []string) {
		if len(cur) > 0 {
			out = append(out, append([]string{}, cur...))
		}
		if len(cur) == max {
			return
		}
		for _, d := range deviceAlphabet {
			rec(append(cur, d))
		}
	}
	rec(nil)
	return out
}

type mapKind struct {
	name string
	m    map[string]string
}

var mapKinds = []mapKind{
	{"nil", nil},
	{"empty", map[string]string{}},
	{"foreign", map[string]string{"example.com/foo": "bar"}},
	{"other-cdi-key", map[string]string{prefix + "other_dev": "vendor.com/class=other"}},
	{"target-key-used", map[string]string{}},
	{"target-key-used-with-empty-value", map[string]string{}},
	{"target-key-used-with-same-value", map[string]string{}},
	{"mixed", map[string]string{"example.com/foo": "bar", prefix + "other_dev": "vendor.com/class=other"}},
}

func main() {
	r := hx.Start("C15", "model_checking")
	if r.Replay != "" {
		var c Case
		r.LoadReplay(&c)
		if c.Kind == "parse" {
			hx.ReplayExit("C15", evalParse(c))
		}
		hx.ReplayExit("C15", evalUpdate(c))
	}
	K := 2
	if r.Thorough() {
		K = 3
	}
	var cases []Case
	repDevs := [][]string{{"vendor.com/class=dev0"}, {"vendor.com/class=dev0", "v/c=1", "vendor.com/class=dev2"}, {"vendor.com/class=dev0", "dev"}}
	// (A) character classes in every position of short plugin / id strings
	parts := stringsUpTo(classAlphabet, K)
	// (streamed below by index: tens of millions of cases in the thorough tier)
	partA := func(k int64, visit func(Case)) {
		p, id := parts[k/int64(len(parts))], parts[k%int64(len(parts))]
		for _, mk := range mapKinds {
			for di, d := range repDevs {
				if di > 0 && (mk.name == "foreign" || mk.name == "mixed") {
					continue
				}
				visit(Case{Kind: "update", Map: mk.m, MapKind: mk.name, Plugin: []byte(p), ID: []byte(id), Devices: d})
			}
		}
	}
	// (B) every length split around the 63-character limit
	for lp := 0; lp <= 66; lp++ {
		for li := 0; li <= 66; li++ {
			if lp+li > 68 {
				continue
			}
			for variant := 0; variant < 4; variant++ {
				p, id := strings.Repeat("p", lp), strings.Repeat("d", li)
				switch variant {
				case 1: // slashes inside the id
					if li < 3 {
						continue
					}
					id = "d/" + strings.Repeat("d", li-3) + "/"[0:0] + "d"
					id = id[:1] + "/" + id[2:]
				case 2: // id ends in '/'
					if li < 2 {
						continue
					}
					id = strings.Repeat("d", li-1) + "/"
				case 3: // dots and dashes inside
					if lp < 3 || li < 3 {
						continue
					}
					p = "p." + strings.Repeat("p", lp-3) + "p"
					id = "d-" + strings.Repeat("d", li-3) + "d"
				}
				for _, mk := range mapKinds[:5] {
					cases = append(cases, Case{Kind: "update", Map: mk.m, MapKind: mk.name, Plugin: []byte(p), ID: []byte(id), Devices: repDevs[0], Note: fmt.Sprintf("lengths %d+1+%d", lp, li)})
				}
			}
		}
	}
	// (C) every device list up to length 3 with a few representative keys
	lists := deviceLists(3)
	for _, l := range lists {
		for _, pi := range [][2]string{{"plugin", "dev"}, {"p", "a/b"}, {"vendor.com", "gpu-0"}} {
			for _, mk := range mapKinds[:5] {
				cases = append(cases, Case{Kind: "update", Map: mk.m, MapKind: mk.name, Plugin: []byte(pi[0]), ID: []byte(pi[1]), Devices: l})
			}
		}
	}
	// (D) ParseAnnotations on maps with up to 3 entries
	keyDomain := []string{prefix + "a", prefix + "b_c", "example.com/foo", "cdi.k8s.io", "xcdi.k8s.io/a", prefix, "CDI.k8s.io/a"}
	var values []string
	for _, l := range deviceLists(2) {
		values = append(values, strings.Join(l, ","))
	}
	values = append(values, "vendor.com/class=dev0,v/c=1,vendor.com/class=dev2", "vendor.com/class=dev0,,v/c=1", ",", "vendor.com/class=dev0,")
	for i, k1 := range keyDomain {
		for _, v1 := range values {
			cases = append(cases, Case{Kind: "parse", Map: map[string]string{k1: v1}})
			for j, k2 := range keyDomain {
				if j <= i {
					continue
				}
				for _, v2 := range []string{"vendor.com/class=dev0", "v/c=1,vendor.com/class=dev2", "dev", ""} {
					cases = append(cases, Case{Kind: "parse", Map: map[string]string{k1: v1, k2: v2}})
					if r.Thorough() {
						for l, k3 := range keyDomain {
							if l <= j {
								continue
							}
							cases = append(cases, Case{Kind: "parse", Map: map[string]string{k1: v1, k2: v2, k3: "vendor.com/class=third"}})
						}
					}
				}
			}
		}
	}
	cases = append(cases, Case{Kind: "parse", Map: nil}, Case{Kind: "parse", Map: map[string]string{}})

	r.Rule = fmt.Sprintf("UpdateAnnotations: (A) plugin and id = every string of length 0..%d over %d character classes %q x 6 initial maps (nil, empty, foreign key, other CDI key, target key already used, mixed) x 3 device lists; "+
		"(B) every length split lp+1+li for lp,li in 0..66 (the 63 limit at 62/63/64) in 4 spellings; (C) every device list of length 1..3 over %d device strings (valid, unqualified, empty, with comma, padded) x 3 keys x 5 maps; "+
		"(D) ParseAnnotations on every map of <=%d entries over %d keys x %d values. Oracle: independent Kubernetes annotation-key rule, parse-back through ParseAnnotations, map before/after comparison. Cases distinct by construction; non-trivial = the call reached a verdict (added, error class, parsed with >=1 CDI key)",
		K, len(classAlphabet), classAlphabet, len(deviceAlphabet), map[bool]int{false: 2, true: 3}[r.Thorough()], len(keyDomain), len(values))
	r.Assumptions = []string{"no completeness oracle: the statement lets the helper refuse a request, so only what it does on success/failure is judged", "plugin/id strings longer than the enumerated ones behave like the (B) padding family"}
	record := func(l *hx.Local, c Case) {
		var res hx.Result
		if c.Kind == "parse" {
			res = evalParse(c)
		} else {
			res = evalUpdate(c)
		}
		l.Record(res, func() any { return map[string]any{"case": c, "outcome": res.Outcome} })
	}
	r.ParallelL(int64(len(parts))*int64(len(parts)), func(k int64, l *hx.Local) {
		partA(k, func(c Case) { record(l, c) })
	})
	r.ParallelL(int64(len(cases)), func(i int64, l *hx.Local) { record(l, cases[i]) })
	r.Finish()
}
