// C10 — Spec files are published atomically.
// Engine B: the real Cache.WriteSpec runs as a controlled thread on the environment model.
// Explored: a crash before every file-system operation of the writer (and between the chunks
// of a split write), every injected errno of every operation (up to 2 per execution), and every
// interleaving (within the preemption bound) with a concurrent reader (ReadSpec of the target,
// or a fresh cache scanning the directory). The directory invariant is evaluated at every
// scheduling step, i.e. in every intermediate state.
package main

import (
	"bytes"
	"encoding/json"
	"fmt"
	"os"
	"os/exec"
	"path/filepath"
	"runtime/debug"
	"sort"
	"strconv"
	"strings"
	"time"

	"tags.cncf.io/container-device-interface/pkg/cdi"
	specs "tags.cncf.io/container-device-interface/specs-go"
	"tags.cncf.io/container-device-interface/verifshim/sched"
	"tags.cncf.io/container-device-interface/verifshim/vfs"
	"verif/mc/explore"
	"verif/mc/hx"
)

type Config struct {
	Ext      string `json:"encoding"` // .json | .yaml
	Previous bool   `json:"previous_file"`
	DirExist bool   `json:"directory_exists"`
	Reader   string `json:"reader"` // none | readspec | freshcache
	Mode     string `json:"mode"`   // crash | fault | schedule
	Chunks   int    `json:"write_chunks"`
	// PrevLink: the previous Spec file is a symbolic link to a regular file kept outside the directory
	PrevLink bool `json:"previous_file_is_a_symbolic_link,omitempty"`
}

func (c Config) String() string {
	if c.PrevLink {
		return fmt.Sprintf("enc=%s prev=symlink dir=%v reader=%s mode=%s chunks=%d", c.Ext, c.DirExist, c.Reader, c.Mode, c.Chunks)
	}
	return fmt.Sprintf("enc=%s prev=%v dir=%v reader=%s mode=%s chunks=%d", c.Ext, c.Previous, c.DirExist, c.Reader, c.Mode, c.Chunks)
}

type Case struct {
	Config   Config   `json:"config"`
	Choices  []int    `json:"choices"`
	Schedule []string `json:"schedule,omitempty"`
	OpLog    []string `json:"operations,omitempty"`
}

// rawSpec: the previous content ("old") is shorter than the new one, which is longer than the
// second writer's: a reader that trusts a size it learnt earlier sees a cut-off file.
func rawSpec(marker string) *specs.Spec {
	pad := 64
	if marker == "old" {
		pad = 3
	}
	return &specs.Spec{Version: "0.5.0", Kind: "vendor.com/class", Devices: []specs.Device{
		{Name: marker, ContainerEdits: specs.ContainerEdits{Env: []string{"MARK=" + marker, "PAD=" + strings.Repeat("x", pad)}}}}}
}

var faultAlphabet = map[string][]string{
	// per call, the errors its manual page lists for a regular file on a local file system and
	// that the code could tell apart (errors.Is on a specific errno selects a different path)
	"creat":     {"EMFILE", "ENOSPC", "EACCES", "EROFS", "EEXIST", "EDQUOT"},
	"write":     {"ENOSPC@0", "ENOSPC@1", "ENOSPC@half", "ENOSPC@all-but-1", "EIO@half", "EDQUOT@half", "EFBIG@1", "EINTR@0"},
	"close":     {"EIO", "EINTR", "ENOSPC"},
	"open":      {"EMFILE", "EACCES"},
	"opendir":   {"EMFILE", "EACCES"},
	"renameat2": {"EACCES", "EXDEV", "ENOSPC", "EBUSY", "EPERM", "EROFS", "EINVAL", "ENOSYS", "EEXIST", "ENOENT", "EDQUOT"},
	"rename":    {"EACCES", "EXDEV", "EBUSY", "EPERM", "EROFS"},
	"mkdir":     {"EACCES", "ENOSPC", "EROFS", "EEXIST"},
	"unlink":    {"EACCES", "EBUSY", "EPERM", "EROFS"},
}

func opKind(op string) string {
	if i := strings.IndexByte(op, '['); i >= 0 {
		return op[:i]
	}
	return op
}

var (
	scratch  string
	oldBytes = map[string][]byte{}
	newBytes = map[string][]byte{}
	secBytes = map[string][]byte{} // the (shorter) Spec a second writer publishes under the same name
)

func shortSpec() *specs.Spec {
	return &specs.Spec{Version: "0.5.0", Kind: "vendor.com/class", Devices: []specs.Device{{Name: "second", ContainerEdits: specs.ContainerEdits{Env: []string{"S=2"}}}}}
}

// reference bytes: what a complete old / new file looks like (written by the real writer once)
func prepareReference() {
	cdi.SetSpecValidator(nil)
	for _, ext := range []string{".json", ".yaml"} {
		d := filepath.Join(scratch, "ref"+ext)
		_ = os.MkdirAll(d, 0o755)
		c, _ := cdi.NewCache(cdi.WithSpecDirs(d), cdi.WithAutoRefresh(false))
		if err := c.WriteSpec(rawSpec("old"), "old"+ext); err != nil {
			fmt.Println("INFRA: reference write failed:", err)
			os.Exit(2)
		}
		if err := c.WriteSpec(rawSpec("new"), "new"+ext); err != nil {
			fmt.Println("INFRA: reference write failed:", err)
			os.Exit(2)
		}
		if err := c.WriteSpec(shortSpec(), "second"+ext); err != nil {
			fmt.Println("INFRA: reference write failed:", err)
			os.Exit(2)
		}
		secBytes[ext], _ = os.ReadFile(filepath.Join(d, "second"+ext))
		oldBytes[ext], _ = os.ReadFile(filepath.Join(d, "old"+ext))
		newBytes[ext], _ = os.ReadFile(filepath.Join(d, "new"+ext))
	}
}

// dirInvariant: every entry with a Spec extension holds complete old or complete new content.
func dirInvariant(dir, ext string) string {
	ents, err := os.ReadDir(dir)
	if err != nil {
		return ""
	}
	for _, e := range ents {
		x := filepath.Ext(e.Name())
		if x != ".json" && x != ".yaml" {
			continue
		}
		b, err := os.ReadFile(filepath.Join(dir, e.Name()))
		if err != nil {
			continue
		}
		if !bytes.Equal(b, oldBytes[ext]) && !bytes.Equal(b, newBytes[ext]) && !bytes.Equal(b, secBytes[ext]) {
			kind := "partial"
			if len(b) == 0 {
				kind = "empty"
			} else if !bytes.HasPrefix(newBytes[ext], b) && !bytes.HasPrefix(oldBytes[ext], b) && !bytes.HasPrefix(secBytes[ext], b) {
				kind = "mixed"
			}
			return fmt.Sprintf("%s holds %s content (%d bytes) under a Spec file name", e.Name(), kind, len(b))
		}
	}
	return ""
}

func scenario(cfg Config, n *int) *explore.Scenario {
	sc := &explore.Scenario{Name: cfg.String()}
	switch cfg.Mode {
	case "crash":
		sc.Bounds = explore.Bounds{Crashes: 1}
	case "fault":
		sc.Bounds = explore.Bounds{Faults: 1}
	case "fault2":
		sc.Bounds = explore.Bounds{Faults: 2}
	case "crash+reader":
		sc.Bounds = explore.Bounds{Crashes: 1, Preemptions: 1}
	case "schedule":
		sc.Bounds = explore.Bounds{Preemptions: 2}
	case "schedule3":
		sc.Bounds = explore.Bounds{Preemptions: 3}
	case "fault+schedule":
		sc.Bounds = explore.Bounds{Faults: 1, Preemptions: 1}
	case "schedule-all": // every interleaving of writer and reader (no preemption bound)
		sc.Bounds = explore.Bounds{Preemptions: 1 << 20}
	case "crash+schedule-all":
		sc.Bounds = explore.Bounds{Crashes: 1, Preemptions: 1 << 20}
	case "fault+schedule-all":
		sc.Bounds = explore.Bounds{Faults: 1, Preemptions: 1 << 20}
	}
	sc.New = func() *explore.Instance {
		*n++
		root := filepath.Join(scratch, "x")
		_ = os.RemoveAll(root)
		dir := filepath.Join(root, "specs")
		if cfg.DirExist {
			_ = os.MkdirAll(dir, 0o755)
		} else {
			_ = os.MkdirAll(root, 0o755)
		}
		target := filepath.Join(dir, "target"+cfg.Ext)
		if cfg.Previous && cfg.DirExist && cfg.PrevLink {
			store := filepath.Join(root, "store")
			_ = os.MkdirAll(store, 0o755)
			_ = os.WriteFile(filepath.Join(store, "old"+cfg.Ext), oldBytes[cfg.Ext], 0o644)
			_ = os.Symlink(filepath.Join(store, "old"+cfg.Ext), target)
			_ = os.WriteFile(filepath.Join(dir, "unrelated.txt"), []byte("x"), 0o644)
		} else if cfg.Previous && cfg.DirExist {
			_ = os.WriteFile(target, oldBytes[cfg.Ext], 0o644)
			_ = os.WriteFile(filepath.Join(dir, "unrelated.txt"), []byte("x"), 0o644)
		}
		w := vfs.Reset(root)
		w.WriteChunks = cfg.Chunks
		writerIsFaulty := strings.HasPrefix(cfg.Mode, "fault")
		writerMayCrash := strings.HasPrefix(cfg.Mode, "crash")
		w.FaultFor = func(t *sched.Thread, op, path string) []string {
			if writerIsFaulty && t.Name == "writer" {
				return faultAlphabet[opKind(op)]
			}
			return nil
		}
		w.CrashFor = func(t *sched.Thread, op, path string) bool { return writerMayCrash && t.Name == "writer" }
		cache, _ := cdi.NewCache(cdi.WithSpecDirs(dir), cdi.WithAutoRefresh(false))
		var writeErr error
		var invariantBroken string
		sched.OnStep = func() {
			if invariantBroken == "" {
				invariantBroken = dirInvariant(dir, cfg.Ext)
			}
		}
		in := &explore.Instance{}
		writerDone := false
		in.Threads = append(in.Threads, func() {
			defer func() { sched.Touch(&writerDone); writerDone = true }()
			writeErr = cache.WriteSpec(rawSpec("new"), "target"+cfg.Ext)
		})
		in.Names = append(in.Names, "writer")
		var readerObs string
		var write2Err error
		switch cfg.Reader {
		case "second-writer":
			// after the first write has ended - completed, failed or interrupted - another process
			// writes a shorter Spec under the same name: leftovers of the first must not leak into it
			in.Threads = append(in.Threads, func() {
				sched.Block("wait for the first writer", func() bool { return writerDone })
				sched.Touch(&writerDone)
				if sched.DeadNamed("writer") {
					// the first writer's process was killed: nothing it held in memory (package-level
					// buffers, pools, flags) exists in the process that writes next
					cdi.VerifResetGlobals()
				}
				c2, _ := cdi.NewCache(cdi.WithSpecDirs(dir), cdi.WithAutoRefresh(false))
				write2Err = c2.WriteSpec(shortSpec(), "target"+cfg.Ext)
				readerObs = fmt.Sprintf("second-write:%v", write2Err == nil)
			})
			in.Names = append(in.Names, "writer2")
		case "readspec":
			in.Threads = append(in.Threads, func() {
				s, err := cdi.ReadSpec(target, 0)
				switch {
				case err == nil:
					readerObs = "read:" + s.Devices[0].Name
				case os.IsNotExist(err) || strings.Contains(err.Error(), "no such file"):
					readerObs = "read:nothing"
				default:
					readerObs = "read:ERROR " + err.Error()
				}
			})
			in.Names = append(in.Names, "reader")
		case "freshcache":
			in.Threads = append(in.Threads, func() {
				c2, _ := cdi.NewCache(cdi.WithSpecDirs(dir), cdi.WithAutoRefresh(false))
				devs := c2.ListDevices()
				errs := c2.GetErrors()
				var ek []string
				for k := range errs {
					ek = append(ek, filepath.Base(k))
				}
				sort.Strings(ek)
				readerObs = fmt.Sprintf("scan:%v errors:%v", devs, ek)
			})
			in.Names = append(in.Names, "reader")
		}
		in.CheckPartial = func(e *sched.Exec) (string, string, any) {
			sched.OnStep = nil
			if invariantBroken != "" {
				return "intermediate-state:" + strings.Fields(invariantBroken)[2], "at some instant during the write: " + invariantBroken, nil
			}
			return "", "", nil
		}
		in.Check = func(e *sched.Exec) (string, string, any) {
			sched.OnStep = nil
			if invariantBroken != "" {
				return "intermediate-state:" + strings.Fields(invariantBroken)[2], "at some instant during the write: " + invariantBroken, nil
			}
			if msg := dirInvariant(dir, cfg.Ext); msg != "" {
				return "final-state:" + strings.Fields(msg)[2], "after the write: " + msg, nil
			}
			// reader verdicts
			switch {
			case strings.HasPrefix(readerObs, "read:ERROR"):
				return "reader-sees-unparseable-file", "a concurrent ReadSpec of the target failed: " + readerObs, nil
			case strings.HasPrefix(readerObs, "scan:"):
				okScans := map[string]bool{"scan:[] errors:[]": true, "scan:[vendor.com/class=old] errors:[]": true, "scan:[vendor.com/class=new] errors:[]": true}
				if !okScans[readerObs] {
					return "concurrent-scan-sees-partial-state", "a concurrent cache scan reports " + readerObs, nil
				}
			}
			// after the write (successful, failed or interrupted): nothing partial or temporary is loadable
			w.FaultFor, w.CrashFor = nil, nil
			c3, _ := cdi.NewCache(cdi.WithSpecDirs(dir), cdi.WithAutoRefresh(false))
			devs := fmt.Sprint(c3.ListDevices())
			if len(c3.GetErrors()) != 0 {
				return "leftover-unloadable-spec-file", fmt.Sprintf("after the write a fresh cache reports errors %v", c3.GetErrors()), nil
			}
			if cfg.Reader == "second-writer" {
				if write2Err != nil {
					return "write-after-interrupted-write-fails", "a clean WriteSpec of the same name after a failed/interrupted one returns " + write2Err.Error(), nil
				}
				if devs != "[vendor.com/class=second]" {
					return "write-after-interrupted-write-not-visible", "the second WriteSpec returned nil but a fresh cache lists " + devs, nil
				}
				if b, err := os.ReadFile(target); err != nil || !bytes.Equal(b, secBytes[cfg.Ext]) {
					return "write-after-interrupted-write-damaged", fmt.Sprintf("the file published by the second writer is not the complete second Spec (%d bytes, want %d)", len(b), len(secBytes[cfg.Ext])), nil
				}
				return "", "", nil
			}
			crashed := false
			for _, p := range e.Trace {
				if p.Kind != sched.KindSched && p.Chosen != 0 && p.Alts[p.Chosen] == "CRASH" {
					crashed = true
				}
			}
			switch {
			case writeErr == nil && !crashed:
				if devs != "[vendor.com/class=new]" {
					return "acknowledged-write-not-visible", "WriteSpec returned nil but a fresh cache lists " + devs, nil
				}
			default:
				// the statement allows "no file", the previous or the new content under the Spec name
				if devs != "[]" && devs != "[vendor.com/class=old]" && devs != "[vendor.com/class=new]" {
					return "failed-write-damaged-directory", fmt.Sprintf("after a failed/interrupted write a fresh cache lists %s", devs), nil
				}
				if devs == "[vendor.com/class=old]" && !(cfg.Previous && cfg.DirExist) {
					return "failed-write-damaged-directory", "old content appeared from nowhere", nil
				}
			}
			return "", "", nil
		}
		in.Observe = func() string {
			st := "ok"
			if writeErr != nil {
				st = "error"
			}
			ents, _ := os.ReadDir(dir)
			var names []string
			for _, e := range ents {
				n := e.Name()
				if strings.HasPrefix(n, "spec.") {
					n = "spec.N.tmp"
				}
				names = append(names, n)
			}
			return fmt.Sprintf("write=%s reader=%s dir=%v", st, readerObs, names)
		}
		return in
	}
	return sc
}

func configs(thorough bool) []Config {
	var out []Config
	for _, ext := range []string{".json", ".yaml"} {
		for _, prev := range []bool{false, true} {
			for _, dirExist := range []bool{true, false} {
				if prev && !dirExist {
					continue
				}
				for _, chunks := range []int{1, 3} {
					out = append(out, Config{ext, prev, dirExist, "none", "crash", chunks, false})
					out = append(out, Config{ext, prev, dirExist, "none", "fault", chunks, false})
				}
				if thorough {
					out = append(out, Config{ext, prev, dirExist, "none", "fault2", 2, false})
				}
				for _, mode := range []string{"crash", "fault"} {
					out = append(out, Config{ext, prev, dirExist, "second-writer", mode, 2, false})
				}
				if prev {
					// the previous file reached through a symbolic link
					out = append(out, Config{ext, prev, dirExist, "none", "crash", 3, true}, Config{ext, prev, dirExist, "none", "fault", 1, true}, Config{ext, prev, dirExist, "readspec", "schedule", 2, true})
				}
				for _, reader := range []string{"readspec", "freshcache"} {
					mode := "schedule"
					if thorough {
						mode = "schedule3"
					}
					out = append(out, Config{ext, prev, dirExist, reader, mode, 2, false})
					out = append(out, Config{ext, prev, dirExist, reader, "crash+reader", 2, false})
					if thorough {
						out = append(out, Config{ext, prev, dirExist, reader, "fault+schedule", 2, false})
						out = append(out, Config{ext, prev, dirExist, reader, "schedule-all", 3, false})
						out = append(out, Config{ext, prev, dirExist, reader, "crash+schedule-all", 2, false})
						out = append(out, Config{ext, prev, dirExist, reader, "fault+schedule-all", 2, false})
					}
				}
			}
		}
	}
	return out
}

type workerOut struct {
	Config     Config              `json:"config"`
	Executions int64               `json:"executions"`
	Points     int64               `json:"points"`
	Outcomes   map[string]int64    `json:"outcomes"`
	Violations []explore.Violation `json:"violations"`
	Capped     bool                `json:"capped"`
	Infra      string              `json:"infra"`
	MaxTrace   int                 `json:"max_trace"`
	Pruned     int64               `json:"pruned"`
	States     int64               `json:"hb_states"`
}

func runWorker(spec string, thorough bool, deadline time.Time) {
	// spec = "i/n": explore configs with index % n == i
	parts := strings.Split(spec, "/")
	i, _ := strconv.Atoi(parts[0])
	n, _ := strconv.Atoi(parts[1])
	prepareReference()
	enc := json.NewEncoder(os.Stdout)
	for k, cfg := range configs(thorough) {
		if k%n != i {
			continue
		}
		cnt := 0
		res := explore.Explore(scenario(cfg, &cnt), deadline)
		_ = enc.Encode(workerOut{Config: cfg, Executions: res.Executions, Points: res.Points, Outcomes: res.Outcomes, Violations: res.Violations, Capped: res.Capped, Infra: res.Infra, MaxTrace: res.MaxTrace, Pruned: res.Pruned, States: res.States})
	}
}

// state-cache statistics of the explorer, summed over scenarios
var cutExecs, hbStates int64

func main() {
	explore.BeforeExec = []func(){cdi.VerifResetGlobals}
	for i, a := range os.Args {
		if a == "-worker" {
			debug.SetGCPercent(800)
			debug.SetMemoryLimit(2 << 30) // one of up to 16 worker processes: the collector works harder near 2 GiB instead of letting the heap grow to 9x the live data
			var err error
			scratch, err = os.MkdirTemp("/dev/shm", "verif-c10w-")
			if err != nil {
				scratch, _ = os.MkdirTemp("", "verif-c10w-")
			}
			dl, _ := strconv.ParseInt(os.Args[i+3], 10, 64)
			runWorker(os.Args[i+1], os.Args[i+2] == "thorough", time.Unix(dl, 0))
			os.RemoveAll(scratch)
			return
		}
	}
	r := hx.Start("C10", "model_checking")
	var err error
	scratch, err = os.MkdirTemp("/dev/shm", "verif-c10-")
	if err != nil {
		scratch, _ = os.MkdirTemp("", "verif-c10-")
	}
	defer os.RemoveAll(scratch)
	if r.Replay != "" {
		var c Case
		r.LoadReplay(&c)
		prepareReference()
		cnt := 0
		sc := scenario(c.Config, &cnt)
		_, _, v1 := explore.RunOnce(sc, c.Choices, true)
		_, _, v2 := explore.RunOnce(sc, c.Choices, true)
		os.RemoveAll(scratch)
		if (v1 == nil) != (v2 == nil) {
			fmt.Println("INFRA: replay is not deterministic")
			os.Exit(2)
		}
		if v1 != nil {
			fmt.Printf("replay: still FAILS: %s: %s\noperations: %s\nVIOLATION property=C10 replay=(replayed)\n", v1.Sig, v1.Msg, strings.Join(v1.OpLog, " · "))
			os.Exit(1)
		}
		fmt.Println("replay: case passes now")
		os.Exit(0)
	}
	nw := 16
	type line struct {
		out workerOut
		err error
	}
	results := make(chan workerOut, 1024)
	done := make(chan error, nw)
	for w := 0; w < nw; w++ {
		go func(w int) {
			cmd := exec.Command(os.Args[0], "-worker", fmt.Sprintf("%d/%d", w, nw), r.Tier, strconv.FormatInt(r.Deadline.Unix(), 10))
			cmd.Stderr = os.Stderr
			out, err := cmd.Output()
			dec := json.NewDecoder(bytes.NewReader(out))
			for {
				var o workerOut
				if dec.Decode(&o) != nil {
					break
				}
				results <- o
			}
			done <- err
		}(w)
	}
	go func() {
		for w := 0; w < nw; w++ {
			if err := <-done; err != nil {
				fmt.Println("INFRA: worker failed:", err)
				os.Exit(2)
			}
		}
		close(results)
	}()
	nConfigs := 0
	for o := range results {
		nConfigs++
		if o.Infra != "" {
			fmt.Println("INFRA:", o.Infra, "in", o.Config)
			os.RemoveAll(scratch)
			os.Exit(2)
		}
		if o.Capped {
			r.Cap("execution/time cap hit in " + o.Config.String())
		}
		r.AddEvals(o.Executions, o.Executions)
		cutExecs, hbStates = cutExecs+o.Pruned, hbStates+o.States
		r.Extra["executions_cut_at_an_explored_state"], r.Extra["happens_before_states_stored"] = cutExecs, hbStates
		r.States.Add(o.Points)
		r.Transitions.Add(o.Points)
		for k, n := range o.Outcomes {
			for j := int64(0); j < 1; j++ {
				r.Outcome(o.Config.Mode + " " + k)
			}
			_ = n
		}
		for _, v := range o.Violations {
			r.Fail(&hx.Failure{Sig: v.Sig + ":" + o.Config.Mode + ":" + o.Config.Reader, Msg: v.Msg + " [" + o.Config.String() + "] ops: " + strings.Join(v.OpLog, " · "),
				Case: Case{Config: o.Config, Choices: v.Choices, Schedule: v.Schedule, OpLog: v.OpLog}, Rank: int64(len(v.Choices))})
		}
		if nConfigs <= 6 {
			r.AddSample(map[string]any{"config": o.Config, "executions": o.Executions, "outcomes": o.Outcomes})
		}
	}
	r.Extra["scenarios"] = nConfigs
	r.Rule = "scenarios = {json,yaml} x {no previous file, previous file} x {directory exists, missing} x write split into 1 or 3 chunks; for each: a crash before every file-system operation of the real Cache.WriteSpec (<=1), every errno of the per-operation alphabet " +
		fmt.Sprint(faultAlphabet) + " (<=1; thorough <=2), and a concurrent reader thread (ReadSpec of the target / a fresh cache scanning the directory) under every schedule with <=2 (thorough 3) preemptions, also combined with a crash. " +
		"evaluations = complete executions; states/transitions = choice points visited. The directory invariant (every .json/.yaml entry is byte-complete old or new content) is evaluated at every scheduling step; after the execution a fresh cache must load old or new without error entries. non-trivial = every execution (each runs the real writer)"
	r.Assumptions = []string{"writer crash = the process performs no further file-system operation (no deferred clean-up runs); durability across power loss is not claimed (the code never syncs)",
		"file-system calls are atomic steps of the environment model; the real-binary layer (strace kill/fault injection, see evidence key real_binary) checks the same oracle on the unmodified binary"}
	realBinaryLayer(r)
	os.RemoveAll(scratch)
	r.Finish()
}

func lastOpLog() []string { return explore.LastOps }
