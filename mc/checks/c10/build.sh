#!/bin/bash
set -e
. "$(dirname "$(realpath "$0")")/../../goenv.sh"
HERE=$(dirname "$(realpath "$0")")
ROOT=$(realpath "$HERE/../../..")
mkdir -p "$ROOT/.bin"
(cd "$ROOT/mc" && go build -o "$ROOT/.bin/c10helper" ./checks/c10helper)
exec "$ROOT/mc/engineb-build.sh" c10
