package main

import (
	"bytes"
	"fmt"
	"os"
	"os/exec"
	"path/filepath"
	"regexp"
	"strings"

	"tags.cncf.io/container-device-interface/pkg/cdi"
	"verif/mc/explore"
	"verif/mc/hx"
)

// The real-binary layer of C10: the unmodified library (checks/c10helper, built without the
// overlay) writes a Spec under strace.
//  (a) conformance: the syscalls of Cache.WriteSpec that touch the Spec directory must be the
//      operation sequence the environment model produced for the same call (kinds, order);
//  (b) kill enumeration: SIGKILL injected before every mutating syscall of that sequence;
//  (c) errno injection at every mutating syscall;
//  (d) real partial writes through RLIMIT_FSIZE.
// After every run the directory is judged by the same oracle as in process.

type sysLine struct {
	name string
	text string
	when int // ordinal of this syscall name within the main thread, from process start
}

var reLine = regexp.MustCompile(`^(\d+)\s+([a-z0-9_]+)\((.*)$`)

func parseTrace(path string) (seg []sysLine, err error) {
	b, err := os.ReadFile(path)
	if err != nil {
		return nil, err
	}
	lines := strings.Split(string(b), "\n")
	mainTid := ""
	counts := map[string]int{}
	inside := false
	for _, l := range lines {
		m := reLine.FindStringSubmatch(l)
		if m == nil {
			continue
		}
		if mainTid == "" {
			mainTid = m[1]
		}
		if m[1] != mainTid {
			continue
		}
		counts[m[2]]++
		if strings.Contains(l, "BEGIN-WRITESPEC") {
			inside = true
			continue
		}
		if strings.Contains(l, "END-WRITESPEC") {
			inside = false
			continue
		}
		if inside {
			seg = append(seg, sysLine{name: m[2], text: l, when: counts[m[2]]})
		}
	}
	return seg, nil
}

func kindOfSyscall(s sysLine) string {
	switch s.name {
	case "openat", "open":
		if strings.Contains(s.text, "O_CREAT") {
			return "creat"
		}
		return "open"
	case "write", "writev", "pwrite64", "pwritev", "pwritev2":
		return "write"
	case "link", "linkat", "symlink", "symlinkat", "truncate", "ftruncate":
		return s.name // not in the model's vocabulary: a writer that starts using them shows as a non-conformance
	case "close":
		return "close"
	case "renameat2", "rename", "renameat":
		return "renameat2"
	case "mkdir", "mkdirat":
		return "mkdir"
	case "unlink", "unlinkat":
		if strings.Contains(s.text, "AT_REMOVEDIR") {
			return "rmdir"
		}
		return "unlink"
	case "rmdir":
		return "rmdir"
	}
	return "" // read-only / irrelevant
}

func kindOfModelOp(op string) string {
	f := strings.Fields(op)
	if len(f) == 0 {
		return ""
	}
	k := opKind(f[0])
	switch k {
	case "creat", "write", "close", "renameat2", "mkdir", "unlink", "rmdir":
		return k
	case "open", "opendir":
		return "open"
	}
	return ""
}

func judgeDir(dir, ext string, hadPrevious bool) string {
	if msg := dirInvariant(dir, ext); msg != "" {
		return msg
	}
	c, _ := cdi.NewCache(cdi.WithSpecDirs(dir), cdi.WithAutoRefresh(false))
	if len(c.GetErrors()) != 0 {
		return fmt.Sprintf("a fresh cache reports errors %v", c.GetErrors())
	}
	devs := fmt.Sprint(c.ListDevices())
	if devs != "[]" && devs != "[vendor.com/class=old]" && devs != "[vendor.com/class=new]" {
		return "a fresh cache lists " + devs
	}
	if devs == "[vendor.com/class=old]" && !hadPrevious {
		return "old content appeared from nowhere"
	}
	return ""
}

func realBinaryLayer(r *hx.Run) {
	helper := filepath.Join(hx.VerifRoot, ".bin", "c10helper")
	if _, err := exec.LookPath("strace"); err != nil {
		r.Extra["real_binary"] = "skipped: strace not available"
		return
	}
	if _, err := os.Stat(helper); err != nil {
		r.Extra["real_binary"] = "skipped: helper binary missing"
		return
	}
	prepareReference()
	runs, kills, faults, fsizes := 0, 0, 0, 0
	confirmed := 0
	for _, cfg := range []Config{{Ext: ".json", Previous: true, DirExist: true}, {Ext: ".yaml", Previous: false, DirExist: true}, {Ext: ".yaml", Previous: true, DirExist: true}, {Ext: ".json", Previous: false, DirExist: false},
		{Ext: ".yaml", Previous: true, DirExist: true, PrevLink: true}} {
		mk := func() (string, string) {
			root := filepath.Join(scratch, "real")
			_ = os.RemoveAll(root)
			dir := filepath.Join(root, "specs")
			if cfg.DirExist {
				_ = os.MkdirAll(dir, 0o755)
			} else {
				_ = os.MkdirAll(root, 0o755)
			}
			if cfg.Previous && cfg.PrevLink {
				store := filepath.Join(root, "store")
				_ = os.MkdirAll(store, 0o755)
				_ = os.WriteFile(filepath.Join(store, "old"+cfg.Ext), oldBytes[cfg.Ext], 0o644)
				_ = os.Symlink(filepath.Join(store, "old"+cfg.Ext), filepath.Join(dir, "target"+cfg.Ext))
			} else if cfg.Previous {
				_ = os.WriteFile(filepath.Join(dir, "target"+cfg.Ext), oldBytes[cfg.Ext], 0o644)
			}
			return root, dir
		}
		root, dir := mk()
		tracePath := filepath.Join(scratch, "trace.txt")
		cmd := exec.Command("strace", "-f", "-o", tracePath, "-e", "trace=openat,open,write,writev,pwrite64,pwritev,pwritev2,close,renameat2,renameat,rename,unlink,unlinkat,mkdir,mkdirat,rmdir,link,linkat,symlink,symlinkat,truncate,ftruncate", helper, dir, "target"+cfg.Ext, "new")
		out, err := cmd.CombinedOutput()
		if err != nil || !strings.Contains(string(out), "ok") {
			r.Extra["real_binary"] = fmt.Sprintf("skipped: strace run failed (%v: %s)", err, firstLineOf(string(out)))
			return
		}
		runs++
		seg, err := parseTrace(tracePath)
		if err != nil {
			r.Extra["real_binary"] = "skipped: cannot read strace output"
			return
		}
		var realKinds []string
		var mutating []sysLine
		for _, s := range seg {
			if k := kindOfSyscall(s); k != "" {
				realKinds = append(realKinds, k)
				mutating = append(mutating, s)
			}
		}
		// (a) conformance with the environment model's operation trace of the same call
		cnt := 0
		mcfg := cfg
		mcfg.Reader, mcfg.Mode, mcfg.Chunks = "none", "none", 1
		sc := scenario(mcfg, &cnt)
		_, _, v := explore.RunOnce(sc, nil, true)
		if v != nil {
			continue // a violation on the default execution is reported by the in-process part
		}
		var modelKinds []string
		for _, op := range lastOpLog() {
			if k := kindOfModelOp(op); k != "" {
				modelKinds = append(modelKinds, k)
			}
		}
		if strings.Join(realKinds, " ") != strings.Join(modelKinds, " ") {
			fmt.Printf("INFRA: environment model does not conform to the real binary for %s:\n  real syscalls : %v\n  model operations: %v\n", cfg, realKinds, modelKinds)
			os.RemoveAll(scratch)
			os.Exit(2)
		}
		r.Traces.Add(1)
		_ = root
		// (b) kill before every mutating syscall, (c) errno at every mutating syscall
		type inj struct {
			desc, spec string
			kill       bool
		}
		var injs []inj
		for _, s := range mutating {
			injs = append(injs, inj{fmt.Sprintf("SIGKILL before %s #%d", s.name, s.when), fmt.Sprintf("inject=%s:signal=SIGKILL:when=%d", s.name, s.when), true})
			for _, f := range faultAlphabet[kindOfSyscall(s)] {
				errno := f
				if i := strings.IndexByte(f, '@'); i >= 0 {
					errno = f[:i]
				}
				injs = append(injs, inj{fmt.Sprintf("%s at %s #%d", errno, s.name, s.when), fmt.Sprintf("inject=%s:error=%s:when=%d", s.name, errno, s.when), false})
			}
		}
		seen := map[string]bool{}
		for _, in := range injs {
			if seen[in.spec] {
				continue
			}
			seen[in.spec] = true
			_, dir := mk()
			var stderr bytes.Buffer
			cmd := exec.Command("strace", "-f", "-o", tracePath, "-e", "trace=openat,write,writev,pwrite64,close,renameat2,mkdirat,unlinkat", "-e", in.spec, helper, dir, "target"+cfg.Ext, "new")
			cmd.Stderr = &stderr
			_ = cmd.Run()
			runs++
			if in.kill {
				kills++
				tb, _ := os.ReadFile(tracePath)
				if strings.Contains(string(tb), "killed by SIGKILL") {
					confirmed++
				}
			} else {
				faults++
			}
			if msg := judgeDir(dir, cfg.Ext, cfg.Previous); msg != "" {
				r.Fail(&hx.Failure{Sig: "real-binary:" + strings.Fields(in.desc)[0] + ":" + strings.Fields(msg)[0], Msg: fmt.Sprintf("unmodified binary, %s, %s: %s", cfg, in.desc, msg),
					Case: map[string]any{"config": cfg, "strace_injection": in.spec}})
			}
		}
		// (d) real partial writes
		n := len(newBytes[cfg.Ext])
		for _, k := range []int{0, 1, n / 2, n - 1} {
			_, dir := mk()
			cmd := exec.Command(helper, dir, "target"+cfg.Ext, "new", fmt.Sprint(k))
			_ = cmd.Run()
			runs++
			fsizes++
			if msg := judgeDir(dir, cfg.Ext, cfg.Previous); msg != "" {
				r.Fail(&hx.Failure{Sig: "real-binary:RLIMIT_FSIZE:" + strings.Fields(msg)[0], Msg: fmt.Sprintf("unmodified binary, %s, file size limit %d: %s", cfg, k, msg),
					Case: map[string]any{"config": cfg, "rlimit_fsize": k}})
			}
		}
	}
	r.Extra["real_binary"] = map[string]any{"process_runs": runs, "sigkill_injections": kills, "sigkill_confirmed_in_trace": confirmed, "errno_injections": faults, "rlimit_fsize_runs": fsizes,
		"syscall_traces_matching_model": r.Traces.Load()}
	r.AddEvals(int64(runs), int64(runs))
}

func firstLineOf(s string) string {
	if i := strings.IndexByte(s, '\n'); i >= 0 {
		return s[:i]
	}
	return s
}
