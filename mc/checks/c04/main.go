// C04 — an unresolvable request leaves the OCI spec untouched and names every miss.
package main

import (
	"encoding/json"
	"fmt"
	"os"
	"path/filepath"
	"reflect"
	"sync/atomic"

	oci "github.com/opencontainers/runtime-spec/specs-go"
	"tags.cncf.io/container-device-interface/pkg/cdi"
	specs "tags.cncf.io/container-device-interface/specs-go"
	"verif/mc/gen"
	"verif/mc/hx"
	"verif/mc/refmodel"
)

const K1, K2 = "vendor.com/k1", "vendor.com/k2"

func edits(tag string, n int) specs.ContainerEdits {
	return specs.ContainerEdits{
		Env:            []string{"E_" + tag + "=1", "COLLIDE=" + tag},
		DeviceNodes:    []*specs.DeviceNode{{Path: "/dev/" + tag, Type: "c", Major: int64(100 + n), Minor: 1}},
		Mounts:         []*specs.Mount{{HostPath: "/host/" + tag, ContainerPath: "/mnt/" + tag}},
		Hooks:          []*specs.Hook{{HookName: "prestart", Path: "/hook/" + tag}},
		AdditionalGIDs: []uint32{uint32(1000 + n)},
		IntelRdt:       &specs.IntelRdt{ClosID: "clos-" + tag},
	}
}

type fileDef struct {
	dir, name, kind string
	devs            []string
}

var files = []fileDef{
	{"d1", "f1.json", K1, []string{"a", "b"}},
	{"d1", "f2.json", K2, []string{"c"}},
	{"d0", "f0.json", K1, []string{"a", "d", "y"}},
	{"d1", "x1.json", K1, []string{"x"}},
	{"d1", "x2.json", K1, []string{"x"}},
	{"d1", "y1.json", K1, []string{"y"}},
	{"d1", "y2.json", K1, []string{"y"}},
	{"d1", "y3.json", K1, []string{"y"}}, // y: a three-way conflict (x: two-way)
	// b of f1.json conflicts with this file: f1.json has an error entry of its own, and its other
	// device a must resolve all the same
	{"d1", "b2.json", K1, []string{"b"}},
}

// token -> device string and whether the model says it resolves
type token struct {
	name    string
	device  string
	resolve bool
}

var tokens = []token{
	{"resolvable-a", K1 + "=a", true},
	{"resolvable-c", K2 + "=c", true},
	{"resolvable-low-d", K1 + "=d", true},
	{"unknown-device", K1 + "=zzz", false},
	{"unknown-vendor", "other.org/k=a", false},
	{"invalid-unqualified", "dev", false},
	{"invalid-no-name", "a/b", false},
	{"invalid-empty", "", false},
	{"conflict-removed-x", K1 + "=x", false},
	{"conflict-over-shadowed-y", K1 + "=y", false},
	// spellings of a resolvable name that are not that name: padded with white space, other case
	{"padded-resolvable", " " + K1 + "=a", false},
	{"newline-terminated-resolvable", K2 + "=c\n", false},
	{"upper-case-resolvable", "VENDOR.COM/k1=a", false},
}

type Case struct {
	OCI     string   `json:"initial_oci"` // shape name or "nil"
	Tokens  []string `json:"request_kinds"`
	Request []string `json:"request"`
	// Late: the request goes to a cache in automatic-refresh mode as its first call after a
	// configured directory, missing when the cache was created, appeared holding an invalid Spec
	// file: the rescan the call itself triggers reports an error
	Late bool `json:"first_call_after_a_directory_with_a_bad_file_appeared,omitempty"`
	// LateConflict: as Late, but the directory that appeared has the highest priority and holds two
	// valid files that both define the resolvable device a: from then on a must not resolve
	LateConflict bool `json:"first_call_after_a_directory_that_makes_a_conflict_appeared,omitempty"`
	// LongN > 0: a request of LongN names: distinct unknown devices, every third one (LongMix) a resolvable one
	// Pkg: the request goes through the package-level cdi.InjectDevices (default cache configured
	// with the same directories) instead of the Cache method
	Pkg     bool `json:"through_the_package_level_function,omitempty"`
	LongN   int  `json:"long_request_names,omitempty"`
	LongMix bool `json:"long_request_with_resolvable_names_in_between,omitempty"`
	idx     []int
}

var lateRoot, specRoot string
var lateSeq atomic.Int64

var shapes = map[string]func() *oci.Spec{}
var cache *cdi.Cache

func eval(c Case) hx.Result {
	return hx.Guard("", c, func() hx.Result {
		cache := cache
		if c.Late {
			late := filepath.Join(lateRoot, fmt.Sprint("late", lateSeq.Add(1)))
			ac, _ := cdi.NewCache(cdi.WithSpecDirs(late, filepath.Join(specRoot, "d0"), filepath.Join(specRoot, "d1")), cdi.WithAutoRefresh(true))
			defer func() { _ = ac.Configure(cdi.WithAutoRefresh(false)); _ = os.RemoveAll(late) }()
			_ = os.MkdirAll(late, 0o755)
			_ = os.WriteFile(filepath.Join(late, "bad.json"), []byte(`{"cdiVersion": "0.5.0", "kind": [`), 0o644)
			cache = ac
		}
		if c.LateConflict {
			late := filepath.Join(lateRoot, fmt.Sprint("conflict", lateSeq.Add(1)))
			ac, _ := cdi.NewCache(cdi.WithSpecDirs(filepath.Join(specRoot, "d0"), filepath.Join(specRoot, "d1"), late), cdi.WithAutoRefresh(true))
			defer func() { _ = ac.Configure(cdi.WithAutoRefresh(false)); _ = os.RemoveAll(late) }()
			_ = os.MkdirAll(late, 0o755)
			for _, n := range []string{"a1.json", "a2.json"} {
				_ = os.WriteFile(filepath.Join(late, n), []byte(`{"cdiVersion":"0.5.0","kind":"`+K1+`","devices":[{"name":"a","containerEdits":{"env":["LATE=`+n+`"]}}]}`), 0o644)
			}
			cache = ac
		}
		var wantMiss []string
		for _, i := range c.idx {
			if !tokens[i].resolve || (c.LateConflict && tokens[i].device == K1+"=a") {
				wantMiss = append(wantMiss, tokens[i].device)
			}
		}
		if c.LongN > 0 {
			c.Request = nil
			for k := 0; k < c.LongN; k++ {
				if c.LongMix && k%3 == 1 {
					c.Request = append(c.Request, K1+"=a")
					continue
				}
				q := fmt.Sprintf("%s=unknown-%03d", K1, k)
				c.Request = append(c.Request, q)
				wantMiss = append(wantMiss, q)
			}
		}
		fail := func(sig, msg string, exp, act any) hx.Result {
			return hx.Result{Outcome: "FAIL", Nontrivial: true, Fail: &hx.Failure{Sig: sig, Msg: msg, Case: c, Expected: exp, Actual: act, Rank: int64(len(c.idx))}}
		}
		inject := cache.InjectDevices
		if c.Pkg {
			inject = cdi.InjectDevices
		}
		if c.OCI == "nil" {
			got, err := inject(nil, c.Request...)
			if err == nil {
				return fail("nil-oci-accepted", "nil OCI spec accepted", "error", nil)
			}
			if !reflect.DeepEqual(got, c.Request) && !(len(got) == 0 && len(c.Request) == 0) {
				return fail("nil-oci-wrong-list", "nil OCI spec: not all requested names returned", c.Request, got)
			}
			return hx.Result{Outcome: "nil-oci-refused", Nontrivial: true}
		}
		spec := shapes[c.OCI]()
		before := refmodel.CopyOCI(spec)
		beforeJSON, _ := json.Marshal(spec)
		got, err := inject(spec, c.Request...)
		if len(wantMiss) == 0 {
			if err != nil {
				return fail("resolvable-request-fails", "fully resolvable request failed: "+err.Error(), nil, got)
			}
			return hx.Result{Outcome: "all-resolvable", Nontrivial: false}
		}
		if err == nil {
			return fail("miss-without-error:"+kinds(c), "request with unresolvable devices returned no error", wantMiss, got)
		}
		if !reflect.DeepEqual(got, wantMiss) {
			return fail("wrong-unresolved-list:"+kinds(c), "returned list is not exactly the unresolvable names in request order", wantMiss, got)
		}
		afterJSON, _ := json.Marshal(spec)
		if string(afterJSON) != string(beforeJSON) || !reflect.DeepEqual(refmodel.CopyOCI(spec), before) {
			return fail("oci-spec-modified:"+kinds(c), "OCI spec modified although the request did not resolve", json.RawMessage(beforeJSON), json.RawMessage(afterJSON))
		}
		return hx.Result{Outcome: fmt.Sprintf("refused:%d-misses", len(wantMiss)), Nontrivial: true}
	})
}

// kinds: the set of token kinds in the request (signature material)
func kinds(c Case) string {
	if c.LongN > 0 {
		return fmt.Sprintf("long-request-of-%d-names", c.LongN)
	}
	seen := map[string]bool{}
	out := ""
	for _, i := range c.idx {
		k := tokens[i].name
		if !seen[k] {
			seen[k] = true
			if out != "" {
				out += ","
			}
			out += k
		}
	}
	return out
}

func main() {
	r := hx.Start("C04", "model_checking")
	root, err := os.MkdirTemp("/dev/shm", "verif-c04-")
	if err != nil {
		root, _ = os.MkdirTemp("", "verif-c04-")
	}
	defer os.RemoveAll(root)
	for i, f := range files {
		raw := specs.Spec{Version: "1.0.0", Kind: f.kind, ContainerEdits: edits(f.name+"-SPEC", 50+i)}
		for j, d := range f.devs {
			raw.Devices = append(raw.Devices, specs.Device{Name: d, ContainerEdits: edits(f.name+"-"+d, 10*i+j)})
		}
		_ = os.MkdirAll(filepath.Join(root, f.dir), 0o755)
		if err := os.WriteFile(filepath.Join(root, f.dir, f.name), gen.RenderJSON(raw), 0o644); err != nil {
			fmt.Println("INFRA:", err)
			os.Exit(2)
		}
	}
	cache, _ = cdi.NewCache(cdi.WithSpecDirs(filepath.Join(root, "d0"), filepath.Join(root, "d1")), cdi.WithAutoRefresh(false))
	_ = cdi.Configure(cdi.WithSpecDirs(filepath.Join(root, "d0"), filepath.Join(root, "d1")), cdi.WithAutoRefresh(false))
	lateRoot, specRoot = filepath.Join(root, "late"), root
	_ = os.MkdirAll(lateRoot, 0o755)
	// sanity of the harness' resolution model against the cache (C01 owns the general rule): a
	// name the model resolves must resolve. The other direction is this property's own subject - a
	// name that must not resolve (unknown, malformed, removed by a conflict) and does will show as
	// an unresolvable request that succeeds.
	for _, t := range tokens {
		if t.resolve && cache.GetDevice(t.device) == nil {
			fmt.Printf("INFRA: harness resolution model disagrees with the cache on %q (C01 territory); C04 cannot be judged\n", t.device)
			os.RemoveAll(root)
			os.Exit(2)
		}
	}
	for _, s := range gen.OCIShapes() {
		shapes[s.Name] = s.Make
	}
	// an initial OCI spec that already contains, for every resolvable device and its file's
	// spec-level edits, an entry of the same identity (variable name, device path, mount
	// destination, hook path, gid, RDT class): whatever replace/de-duplicate logic runs on
	// injection would show on it if it ran before the resolution verdict
	shapes["colliding-with-edits"] = func() *oci.Spec {
		s := &oci.Spec{Version: "1.1.0", Process: &oci.Process{Env: []string{"PATH=/bin", "COLLIDE=from-runtime"}, User: oci.User{UID: 1000, GID: 1000}},
			Hooks: &oci.Hooks{}, Linux: &oci.Linux{Resources: &oci.LinuxResources{}, IntelRdt: &oci.LinuxIntelRdt{ClosID: "clos-f1.json-a"}}}
		for i, tag := range []string{"f1.json-a", "f1.json-SPEC", "f2.json-c", "f2.json-SPEC", "f0.json-d", "f0.json-SPEC"} {
			s.Process.Env = append(s.Process.Env, "E_"+tag+"=from-runtime")
			s.Linux.Devices = append(s.Linux.Devices, oci.LinuxDevice{Path: "/dev/" + tag, Type: "b", Major: 7, Minor: int64(i)})
			maj, min := int64(7), int64(i)
			s.Linux.Resources.Devices = append(s.Linux.Resources.Devices, oci.LinuxDeviceCgroup{Allow: true, Type: "b", Major: &maj, Minor: &min, Access: "r"})
			s.Mounts = append(s.Mounts, oci.Mount{Destination: "/mnt/" + tag, Source: "/from-runtime"})
			s.Hooks.Prestart = append(s.Hooks.Prestart, oci.Hook{Path: "/hook/" + tag, Args: []string{"from-runtime"}})
			s.Process.User.AdditionalGids = append(s.Process.User.AdditionalGids, uint32(1000+i), uint32(1050+i))
		}
		return s
	}
	mk := func(ociName string, idx []int) Case {
		c := Case{OCI: ociName, idx: append([]int{}, idx...)}
		for _, i := range idx {
			c.Tokens = append(c.Tokens, tokens[i].name)
			c.Request = append(c.Request, tokens[i].device)
		}
		return c
	}
	if r.Replay != "" {
		var c Case
		r.LoadReplay(&c)
		for _, name := range c.Tokens {
			for i, t := range tokens {
				if t.name == name {
					c.idx = append(c.idx, i)
				}
			}
		}
		res := eval(c)
		os.RemoveAll(root)
		hx.ReplayExit("C04", res)
	}
	maxLen := 4
	ociNames := []string{"empty", "populated", "colliding-with-edits", "nil"}
	if r.Thorough() {
		maxLen = 5
		ociNames = []string{"empty", "version-only", "process-nonroot", "process-root-linux-empty", "linux-resources-no-devices", "populated", "colliding-with-edits", "nil"}
	}
	var cases []Case
	var rec func(cur []int)
	rec = func(cur []int) {
		for _, o := range ociNames {
			cases = append(cases, mk(o, cur))
		}
		if len(cur) == maxLen {
			return
		}
		for i := range tokens {
			rec(append(cur, i))
		}
	}
	rec(nil)
	// long requests: sizes around the thresholds at which lists are summarised, buffers grow or small-size fast paths end
	for _, n := range []int{7, 8, 9, 10, 15, 16, 17, 31, 32, 33, 64, 65, 100, 128, 129, 257, 1025} {
		for _, mix := range []bool{false, true} {
			for _, o := range []string{"empty", "populated"} {
				cases = append(cases, Case{OCI: o, LongN: n, LongMix: mix})
			}
		}
	}
	r.Rule = fmt.Sprintf("one cache (two directories; resolvable a,b,c,d; x defined twice at the top priority; y defined once low and twice high) x every request list of length 0..%d with repetitions over %d request kinds "+
		"(3 resolvable, unknown device, unknown vendor, unqualified, missing name, empty string, conflict-removed, conflict-over-shadowed, a resolvable name padded with a blank / ending in a newline / in other case) x %d initial OCI specs incl. nil and one that already holds an entry of the same identity as every edit of the resolvable devices. "+
		"plus requests of 7..1025 names (distinct unknown devices, optionally every third one resolvable). Oracle: error; returned list == request filtered to unresolvable names (order, multiplicity); OCI spec deep-equal and JSON-identical to its pre-call copy. Distinct by construction; non-trivial = at least one miss or nil spec",
		maxLen, len(tokens), len(ociNames))
	r.Assumptions = []string{"every resolvable device's edits could be applied (type and major specified), so a modification would be visible", "which names resolve in this population is cross-checked against the cache at start (exit 2 on disagreement; that rule is C01's subject)"}
	// the automatic-refresh flavour: every request of up to two names
	nLate, nPkg := 0, 0
	for _, c := range cases {
		if len(c.idx) <= 2 && (c.OCI == "empty" || c.OCI == "colliding-with-edits" || c.OCI == "nil") {
			lc := c
			lc.Late = true
			cases = append(cases, lc)
			nLate++
		}
		if len(c.idx) >= 1 && len(c.idx) <= 3 && c.LongN == 0 && (c.OCI == "empty" || c.OCI == "populated") {
			cc := c
			cc.LateConflict = true
			cases = append(cases, cc)
		}
		// the package-level wrapper (default cache): every request of up to three names
		if len(c.idx) <= 3 && c.LongN == 0 && (c.OCI == "empty" || c.OCI == "populated" || c.OCI == "nil") {
			pc := c
			pc.Pkg = true
			cases = append(cases, pc)
			nPkg++
		}
	}
	r.Extra["requests_sent_through_the_package_level_function"] = nPkg
	r.Extra["requests_sent_as_first_call_after_a_directory_appeared"] = nLate
	r.ParallelL(int64(len(cases)), func(i int64, l *hx.Local) {
		res := eval(cases[i])
		l.Record(res, func() any { return map[string]any{"case": cases[i], "outcome": res.Outcome} })
	})
	os.RemoveAll(root)
	r.Finish()
}
