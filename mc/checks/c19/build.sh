#!/bin/bash
# builds the C19 driver and the two command-line tools from /repo's current working tree
set -e
. "$(dirname "$(realpath "$0")")/../../goenv.sh"
HERE=$(dirname "$(realpath "$0")")
ROOT=$(realpath "$HERE/../../..")
mkdir -p "$ROOT/.bin"
(cd "$VERIF_REPO/cmd/cdi" && GOFLAGS=-mod=mod go build -o "$ROOT/.bin/cdi-cli" .)
(cd "$VERIF_REPO/cmd/validate" && GOFLAGS=-mod=mod go build -o "$ROOT/.bin/validate-cli" .)
(cd "$ROOT/mc" && go build -o "$ROOT/.bin/c19" ./checks/c19)
