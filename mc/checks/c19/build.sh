#!/bin/bash
# builds the C19 driver and the two command-line tools from /repo's current working tree
set -e
export GOFLAGS=-mod=mod GOPROXY=off GOSUMDB=off GOTOOLCHAIN=local
HERE=$(dirname "$(realpath "$0")")
ROOT=$(realpath "$HERE/../../..")
mkdir -p "$ROOT/.bin"
(cd /repo/cmd/cdi && go build -o "$ROOT/.bin/cdi-cli" .)
(cd /repo/cmd/validate && go build -o "$ROOT/.bin/validate-cli" .)
(cd "$ROOT/mc" && go build -o "$ROOT/.bin/c19" ./checks/c19)
