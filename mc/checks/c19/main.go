// C19 — the cdi and validate commands report what the library computes.
// The two tools are built from /repo's working tree (build.sh) and run as processes on
// enumerated directory populations / documents; the oracle is the library called in-process
// on the same directories with the same validator installed.
package main

import (
	"bytes"
	"encoding/json"
	"fmt"
	"os"
	"os/exec"
	"path/filepath"
	"regexp"
	"sort"
	"strings"

	oci "github.com/opencontainers/runtime-spec/specs-go"
	sigsyaml "sigs.k8s.io/yaml"
	"tags.cncf.io/container-device-interface/pkg/cdi"
	"tags.cncf.io/container-device-interface/schema"
	"verif/mc/dirmodel"
	"verif/mc/gen"
	"verif/mc/hx"
	"verif/mc/refmodel"
)

var slotNames = []string{"a.yaml", "b.json"}
// the last kind (a third vendor sharing the class of the first) only takes part in the hand-picked
// populations for the listing subcommands, not in the product
var kinds = []dirmodel.Kind{dirmodel.Absent, dirmodel.X, dirmodel.XY, dirmodel.Y, dirmodel.V2, dirmodel.Syn, dirmodel.Sem, dirmodel.SchemaBad, dirmodel.V3}

type Case struct {
	Tool     string            `json:"tool"` // cdi | validate
	DirList  []string          `json:"directory_list,omitempty"`
	State    map[string]string `json:"population,omitempty"`
	Spelling string            `json:"spec_dirs_spelling,omitempty"`
	Args     []string          `json:"arguments"`
	Doc      string            `json:"document,omitempty"`
	Schema   string            `json:"schema,omitempty"`
	Stdin    bool              `json:"stdin,omitempty"`
	digits   []int
}

var cdiBin, validateBin string

func run(bin string, stdin []byte, dir string, args ...string) (string, int) {
	cmd := exec.Command(bin, args...)
	cmd.Dir = dir
	if stdin != nil {
		cmd.Stdin = bytes.NewReader(stdin)
	}
	var out bytes.Buffer
	cmd.Stdout = &out
	cmd.Stderr = &out
	err := cmd.Run()
	code := 0
	if err != nil {
		if ee, ok := err.(*exec.ExitError); ok {
			code = ee.ExitCode()
		} else {
			code = -1
		}
	}
	return out.String(), code
}

func sortedSet(xs []string) []string {
	m := map[string]bool{}
	for _, x := range xs {
		m[x] = true
	}
	var o []string
	for x := range m {
		o = append(o, x)
	}
	sort.Strings(o)
	return o
}

// sorted keeps repetitions: an entry the library reports once and the tool prints twice is a difference
func sorted(xs []string) []string {
	o := append([]string{}, xs...)
	sort.Strings(o)
	return o
}

func matches(re *regexp.Regexp, out string, group int) []string {
	var r []string
	for _, m := range re.FindAllStringSubmatch(out, -1) {
		r = append(r, m[group])
	}
	return r
}

var (
	reDevice   = regexp.MustCompile(`(?m)^\s+\d+\. (\S+)$`)
	reSpecSrc  = regexp.MustCompile(`SPECSRC=[A-Za-z0-9:./_-]+`)
	reDeviceV  = regexp.MustCompile(`(?m)^  (\S+=\S+) \((\S+)\)$`)
	reVendor   = regexp.MustCompile(`(?m)^\s+\d+\. "([^"]+)" \((\d+) CDI Spec Files\)$`)
	reClass    = regexp.MustCompile(`(?m)^\s+\d+\. (\S+) \((\d+) vendors: (.*)\)$`)
	reSpecFile = regexp.MustCompile(`(?m)^\s*Spec File (\S+)$`)
	reErrFile  = regexp.MustCompile(`(?m)^Spec file (.+):$`)
	reDir      = regexp.MustCompile(`(?m)^  (\S+) \(priority (\d+)\)$`)
)

func eq(a, b []string) bool {
	if len(a) != len(b) {
		return false
	}
	for i := range a {
		if a[i] != b[i] {
			return false
		}
	}
	return true
}

func evalCDI(c Case, root string) hx.Result {
	return hx.Guard("", c, func() hx.Result {
		_ = os.RemoveAll(root)
		t := dirmodel.NewTree()
		i := 0
		for _, d := range []string{"d0", "d1"} {
			for _, s := range slotNames {
				t.Set(d, s, kinds[c.digits[i]])
				i++
			}
		}
		_ = t.Materialise(root, []string{"d0", "d1"})
		var dirs []string
		for _, d := range c.DirList {
			dirs = append(dirs, root+"/"+d) // as spelled (filepath.Join would clean the spelling away)
		}
		// library view, with the validator the tool installs
		cdi.SetSpecValidator(schema.BuiltinSchema())
		lib, _ := cdi.NewCache(cdi.WithSpecDirs(dirs...))
		libErrs := lib.GetErrors()
		var libErrPaths []string
		for p := range libErrs {
			libErrPaths = append(libErrPaths, p)
		}
		sort.Strings(libErrPaths)
		obs := dirmodel.Observe(lib)
		_ = lib.Configure(cdi.WithAutoRefresh(false))

		var argv []string
		switch c.Spelling {
		case "comma":
			argv = append(argv, "-d", strings.Join(dirs, ","))
		case "repeated":
			for _, d := range dirs {
				argv = append(argv, "-d", d)
			}
		case "long-equals":
			argv = append(argv, "--spec-dirs="+strings.Join(dirs, ","))
		}
		args := append([]string{}, c.Args...)
		var ociFile string
		var injectWant *oci.Spec
		var injectErr error
		if len(args) > 0 && args[0] == "inject" {
			// args: inject <format-in> <format-out> patterns...
			in, outFmt, patterns := args[1], args[2], args[3:]
			shape := injectShape()
			if in == "json" {
				ociFile = filepath.Join(root, "oci.json")
				b, _ := json.Marshal(shape)
				_ = os.WriteFile(ociFile, b, 0o644)
			} else {
				ociFile = filepath.Join(root, "oci.yaml")
				b, _ := json.Marshal(shape)
				y, _ := sigsyaml.JSONToYAML(b)
				_ = os.WriteFile(ociFile, y, 0o644)
			}
			args = []string{"inject"}
			if outFmt != "" {
				args = append(args, "-o", outFmt)
			}
			args = append(args, ociFile)
			args = append(args, patterns...)
			// library: the devices matching the patterns, sorted
			var sel []string
			for _, d := range obs.Devices {
				for _, p := range patterns {
					if ok, _ := filepath.Match(p, d); ok {
						sel = append(sel, d)
						break
					}
				}
			}
			injectWant = injectShape()
			_, injectErr = lib.InjectDevices(injectWant, sel...)
		}
		out, code := run(cdiBin, nil, root, append(argv, args...)...)
		sub := strings.Join(c.Args, " ")
		fail := func(sig, msg string, exp, act any) hx.Result {
			return hx.Result{Outcome: "FAIL", Nontrivial: true, Fail: &hx.Failure{Sig: "cdi " + c.Args[0] + ":" + sig, Msg: fmt.Sprintf("cdi %s %s: %s", strings.Join(argv, " "), sub, msg), Case: c, Expected: exp, Actual: act,
				Rank: int64(len(t.Key()))}}
		}
		if (code != 0) != (len(libErrs) > 0) {
			return fail(fmt.Sprintf("exit-status:tool=%d:library-errors=%v", btoi(code != 0), len(libErrs) > 0), fmt.Sprintf("exit status %d but the library reports %d cache errors", code, len(libErrs)), libErrPaths, out)
		}
		if code != 0 {
			got := sortedSet(matches(reErrFile, out, 1))
			if !eq(got, libErrPaths) {
				return fail("error-report-differs", "files reported in error differ from the library's", libErrPaths, got)
			}
			return hx.Result{Outcome: "errors-reported", Nontrivial: true}
		}
		switch c.Args[0] {
		case "devices":
			var got []string
			if len(c.Args) > 1 {
				m := reDeviceV.FindAllStringSubmatch(out, -1)
				for _, x := range m {
					got = append(got, x[1])
					if obs.Paths[x[1]] != x[2] {
						return fail("device-source-differs", "device "+x[1]+" shown from "+x[2]+", library resolves it to "+obs.Paths[x[1]], obs.Paths, out)
					}
				}
				// every device's block shows the Spec-level edits of the Spec file the library resolves it to
				// (each file's Spec-level env carries a marker of that file), and of no other file
				idx := reDeviceV.FindAllStringSubmatchIndex(out, -1)
				for k, loc := range idx {
					name := out[loc[2]:loc[3]]
					end := len(out)
					if k+1 < len(idx) {
						end = idx[k+1][0]
					}
					block := out[loc[1]:end]
					var want []string
					if d := lib.GetDevice(name); d != nil {
						for _, e := range d.GetSpec().ContainerEdits.Env {
							if strings.HasPrefix(e, "SPECSRC=") {
								want = append(want, e)
							}
						}
					}
					shown := sortedSet(reSpecSrc.FindAllString(block, -1))
					if !eq(shown, sortedSet(want)) {
						return fail("device-block-shows-other-spec-level-edits", fmt.Sprintf("device %s: the verbose listing shows Spec-level edits %v, the library's Spec for it has %v", name, shown, want), want, block)
					}
				}
			} else {
				got = matches(reDevice, out, 1)
			}
			if !eq(sorted(got), obs.Devices) {
				return fail("device-list-differs", "devices listed differ from the library's", obs.Devices, got)
			}
		case "vendors":
			got := matches(reVendor, out, 1)
			if !eq(sorted(got), obs.Vendors) {
				return fail("vendor-list-differs", "vendors listed differ from the library's", obs.Vendors, got)
			}
			for _, m := range reVendor.FindAllStringSubmatch(out, -1) {
				if fmt.Sprint(len(lib.GetVendorSpecs(m[1]))) != m[2] {
					return fail("vendor-spec-count-differs", "Spec file count of vendor "+m[1], len(lib.GetVendorSpecs(m[1])), m[2])
				}
			}
		case "classes":
			got := matches(reClass, out, 1)
			if !eq(sorted(got), obs.Classes) {
				return fail("class-list-differs", "classes listed differ from the library's", obs.Classes, got)
			}
		case "specs":
			var want []string
			vendors := obs.Vendors
			if len(c.Args) > 1 && !strings.HasPrefix(c.Args[1], "-") {
				// the tool prints all vendors' Specs whenever the vendor argument list is non-empty as well (its documented filter
				// is not part of the statement): compare as a superset check only
				vendors = obs.Vendors
			}
			for _, v := range vendors {
				want = append(want, obs.Specs[v]...)
			}
			got := sortedSet(matches(reSpecFile, out, 1))
			if !eq(got, sortedSet(want)) {
				return fail("spec-list-differs", "Spec files listed differ from the library's", sortedSet(want), got)
			}
		case "dirs":
			got := matches(reDir, out, 1)
			var want []string
			for _, d := range dirs {
				want = append(want, filepath.Clean(d))
			}
			if !eq(got, want) {
				return fail("dir-list-differs", "directories listed differ from the configured ones", want, got)
			}
		case "validate":
			if !strings.Contains(out, "No CDI cache errors") {
				return fail("validate-output", "exit 0 without 'No CDI cache errors'", nil, out)
			}
		case "inject":
			if injectErr != nil {
				return fail("inject-library-fails", "library injection failed: "+injectErr.Error(), nil, out)
			}
			idx := strings.Index(out, "Updated OCI Spec:\n")
			if idx < 0 {
				return fail("inject-no-output", "no 'Updated OCI Spec' in the output", nil, out)
			}
			body := out[idx+len("Updated OCI Spec:\n"):]
			var got oci.Spec
			if err := sigsyaml.Unmarshal([]byte(body), &got); err != nil {
				return fail("inject-output-unparseable", "printed OCI spec does not parse: "+err.Error(), nil, body)
			}
			if ok, where := refmodel.OCIEqual(injectWant, &got); !ok {
				return fail("inject-result-differs:"+where, "printed OCI spec differs from library injection in "+where, refmodel.Normalise(injectWant), refmodel.Normalise(&got))
			}
		}
		return hx.Result{Outcome: "matches:" + c.Args[0], Nontrivial: len(obs.Devices) > 0 || len(libErrs) > 0}
	})
}

// injectShape: the OCI spec handed to 'cdi inject': a busy one, with numbers that do not survive a
// trip through a float64 or a 32-bit integer (the tool must print them as the library has them)
func injectShape() *oci.Spec {
	s := gen.OCIShapes()[5].Make()
	if s.Linux == nil {
		s.Linux = &oci.Linux{}
	}
	big, neg := int64(9007199254740993), int64(-9223372036854775808)
	u32max := uint32(4294967295)
	if s.Linux.Resources == nil {
		s.Linux.Resources = &oci.LinuxResources{}
	}
	s.Linux.Resources.Memory = &oci.LinuxMemory{Limit: &big, Swap: &neg}
	s.Linux.Devices = append(s.Linux.Devices, oci.LinuxDevice{Path: "/dev/big-numbers", Type: "c", Major: 1048576, Minor: 9223372036854775807, UID: &u32max})
	if s.Process == nil {
		s.Process = &oci.Process{}
	}
	// strings a line-oriented printer mangles: empty lines inside, trailing line breaks, leading blanks
	s.Process.Env = append(s.Process.Env, "SCRIPT=echo a\n\necho b\n", "TRAILING=x\n\n", "  INDENTED=  y  ")
	s.Process.Args = append(s.Process.Args, "sh", "-c", "first line\n\n\nfourth line")
	s.Process.User.UID = 4000000000
	s.Process.User.AdditionalGids = append(s.Process.User.AdditionalGids, 1000000, u32max)
	return s
}

func btoi(b bool) int {
	if b {
		return 1
	}
	return 0
}

var extSchemaPath string

func evalValidate(c Case, dir string) hx.Result {
	return hx.Guard("", c, func() hx.Result {
		ext := ".json"
		data := []byte(c.Doc)
		if c.Spelling == "yaml" {
			ext = ".yaml"
			data = append([]byte("# yaml\n"), data...)
		}
		path := filepath.Join(dir, "doc"+ext)
		_ = os.RemoveAll(path)
		switch c.Doc {
		case "\x00missing":
			// no such file
		case "\x00directory":
			_ = os.MkdirAll(path, 0o755)
		default:
			_ = os.WriteFile(path, data, 0o644)
		}
		schemaArg := c.Schema
		if c.Schema == "path" {
			schemaArg = extSchemaPath
		}
		s, err := schema.Load(schemaArg)
		if err != nil {
			panic(err)
		}
		var want error
		var out string
		var code int
		if c.Stdin {
			want = s.ValidateData(data)
			out, code = run(validateBin, data, dir, "--schema", schemaArg)
		} else {
			want = s.ValidateFile(path)
			out, code = run(validateBin, nil, dir, "--schema", schemaArg, path)
		}
		if (code != 0) != (want != nil) {
			return hx.Result{Outcome: "FAIL", Nontrivial: true, Fail: &hx.Failure{Sig: fmt.Sprintf("validate:exit-status:schema=%s:stdin=%v:library-fails=%v", c.Schema, c.Stdin, want != nil),
				Msg: fmt.Sprintf("validate --schema %s exits %d, library validation error: %v", c.Schema, code, want), Case: c, Expected: fmt.Sprint(want), Actual: out}}
		}
		return hx.Result{Outcome: fmt.Sprintf("validate:agree:fails=%v", want != nil), Nontrivial: true}
	})
}

func main() {
	r := hx.Start("C19", "model_checking")
	cdiBin = filepath.Join(hx.VerifRoot, ".bin", "cdi-cli")
	validateBin = filepath.Join(hx.VerifRoot, ".bin", "validate-cli")
	for _, b := range []string{cdiBin, validateBin} {
		if _, err := os.Stat(b); err != nil {
			fmt.Println("INFRA: tool binary missing:", b)
			os.Exit(2)
		}
	}
	base, err := os.MkdirTemp("/dev/shm", "verif-c19-")
	if err != nil {
		base, _ = os.MkdirTemp("", "verif-c19-")
	}
	defer os.RemoveAll(base)
	extDir := filepath.Join(base, "ext")
	_ = os.MkdirAll(extDir, 0o755)
	for _, f := range []string{"schema.json", "defs.json"} {
		b, _ := os.ReadFile(filepath.Join(hx.RepoRoot, "schema", f))
		_ = os.WriteFile(filepath.Join(extDir, f), b, 0o644)
	}
	extSchemaPath = filepath.Join(extDir, "schema.json")

	nk := len(kinds) - 1
	radix := []int{nk, nk, nk, nk}
	total := int(hx.Product(radix))
	step := 16
	if r.Thorough() {
		step = 3
	}
	subcommands := [][]string{{"devices"}, {"devices", "-v", "-o", "json"}, {"devices", "-v", "-o", "yaml"}, {"vendors"}, {"classes"}, {"specs"}, {"specs", "-v"}, {"specs", "vendor1.com"}, {"dirs"}, {"validate"},
		{"inject", "json", "json", "vendor1.com/cls=x"}, {"inject", "yaml", "", "vendor*/*=*"}, {"inject", "json", "yaml", "vendor1.com/cls=[xy]", "vendor2.org/other=x"},
		// overlapping patterns: a device matched by several patterns is injected once
		{"inject", "json", "json", "vendor1.com/cls=*", "vendor1.com/cls=x"}, {"inject", "yaml", "yaml", "vendor*/*=x", "vendor*/*=x", "*/*=*"},
		// the whole pattern syntax of path.Match: escapes (also in a pattern without any wildcard), ranges, negated classes, '?'
		{"inject", "json", "json", `vendor1.com/cls=\x`}, {"inject", "yaml", "json", `vendor1.com\/cls=y`, `vendor2.org/other=\x`}, {"inject", "json", "yaml", "vendor?.???/*=[x-y]"}, {"inject", "json", "json", "vendor1.com/cls=[^x]"}}
	// the last three lists spell their directories in ways path cleaning changes (trailing slash, dot segments, doubled slashes, a missing one too)
	dirLists := [][]string{{"d0", "d1"}, {"d1", "d0"}, {"d1"}, {"d0", "missing", "d1"}, {"d0", "d1", "d0"}, {"d1/", "d0", "d1/."}, {"d0//", "d1/./"}, {"./d0/../d0", "missing/", "d1//."}}
	var cases []Case
	for i := 0; i < total; i += step {
		digits := hx.Digits(int64(i), radix)
		state := map[string]string{}
		k := 0
		for _, d := range []string{"d0", "d1"} {
			for _, s := range slotNames {
				state[d+"/"+s] = kinds[digits[k]].String()
				k++
			}
		}
		for li, dl := range dirLists {
			// lists 1..4 rotate over the populations; the unclean spellings (5..7) go with every population, for the
			// two subcommands that report files in error
			if li > 0 && li < 5 && (i/step)%5 != li {
				continue
			}
			for si, sub := range subcommands {
				if li >= 5 && !(sub[0] == "devices" && len(sub) == 1) && sub[0] != "validate" {
					continue
				}
				spell := "comma"
				if si == 0 {
					for _, sp := range []string{"repeated", "long-equals"} {
						cases = append(cases, Case{Tool: "cdi", DirList: dl, State: state, Spelling: sp, Args: sub, digits: digits})
					}
				}
				cases = append(cases, Case{Tool: "cdi", DirList: dl, State: state, Spelling: spell, Args: sub, digits: digits})
			}
		}
	}
	// listings over three vendors, two of which share a class, with a Spec of another class between
	// them in every order the four slots allow: vendors, classes, Specs and devices are sets
	{
		three := []int{1, 4, 8} // X, V2, V3
		var perm func(cur []int, used int)
		perm = func(cur []int, used int) {
			if len(cur) == 4 {
				state := map[string]string{}
				k := 0
				for _, d := range []string{"d0", "d1"} {
					for _, s := range slotNames {
						state[d+"/"+s] = kinds[cur[k]].String()
						k++
					}
				}
				for _, sub := range [][]string{{"vendors"}, {"classes"}, {"specs"}, {"specs", "-v"}, {"devices"}, {"specs", "vendor3.net"}} {
					cases = append(cases, Case{Tool: "cdi", DirList: []string{"d0", "d1"}, State: state, Spelling: "comma", Args: sub, digits: append([]int{}, cur...)})
				}
				return
			}
			// three distinct kinds and one empty slot, in every arrangement
			if used&8 == 0 {
				perm(append(cur, 0), used|8)
			}
			for i, kd := range three {
				if used&(1<<i) == 0 {
					perm(append(cur, kd), used|1<<i)
				}
			}
		}
		perm(nil, 0)
	}
	nCDI := len(cases)
	// validate tool: a slice of the C17 document space
	core := gen.MakeBase(true, "all", []string{"all", "env"}, true, "vendor.com/class", false)
	var docs []string
	docs = append(docs, string(gen.RenderJSON(core.Tree)), `{}`, `{"cdiVersion":"0.5.0","kind":"v/c","devices":[]}`)
	ms := append(gen.Defects(core.Tree), gen.Confusions(core.Tree)...)
	vstep := 12
	if r.Thorough() {
		vstep = 2
	}
	for i := 0; i < len(ms); i += vstep {
		if strings.Contains(ms[i].Class, "size") || strings.Contains(ms[i].Class, "too-large") {
			continue
		}
		docs = append(docs, string(gen.RenderJSON(gen.Apply(core.Tree, ms[i]))))
	}
	// documents that cannot even be loaded (not YAML, not an object, empty): what the library says about
	// them - under every schema choice, the no-op one included - is what the tool has to report
	docs = append(docs, `{"cdiVersion": [`, "a: b: c", "\tkey: value", "", "[]", `"just a string"`, "- a\n- b\n", "key: [unclosed", "a: 1\na: 2\n", "\x00", "{}\n---\n{}\n")
	for _, d := range docs {
		for _, sc := range []string{"builtin", "none", "path"} {
			for _, stdin := range []bool{false, true} {
				for _, enc := range []string{"json", "yaml"} {
					cases = append(cases, Case{Tool: "validate", Doc: d, Schema: sc, Stdin: stdin, Spelling: enc, Args: []string{"validate-tool"}})
				}
			}
		}
	}
	for _, d := range []string{"\x00missing", "\x00directory"} {
		for _, sc := range []string{"builtin", "none", "path"} {
			for _, enc := range []string{"json", "yaml"} {
				cases = append(cases, Case{Tool: "validate", Doc: d, Schema: sc, Spelling: enc, Args: []string{"validate-tool", "document is a " + d[1:] + " path"}})
			}
		}
	}
	if r.Replay != "" {
		var c Case
		r.LoadReplay(&c)
		var res hx.Result
		if c.Tool == "validate" {
			_ = os.MkdirAll(filepath.Join(base, "r"), 0o755)
			res = evalValidate(c, filepath.Join(base, "r"))
		} else {
			for _, d := range []string{"d0", "d1"} {
				for _, s := range slotNames {
					for ki, k := range kinds {
						if c.State[d+"/"+s] == k.String() {
							c.digits = append(c.digits, ki)
						}
					}
				}
			}
			res = evalCDI(c, filepath.Join(base, "r"))
		}
		os.RemoveAll(base)
		hx.ReplayExit("C19", res)
	}
	nw := 16
	pool := make(chan string, nw)
	for i := 0; i < nw; i++ {
		d := filepath.Join(base, fmt.Sprintf("w%d", i))
		_ = os.MkdirAll(d, 0o755)
		pool <- d
	}
	r.ParallelL(int64(len(cases)), func(i int64, l *hx.Local) {
		d := <-pool
		var res hx.Result
		if cases[i].Tool == "validate" {
			res = evalValidate(cases[i], d)
		} else {
			res = evalCDI(cases[i], filepath.Join(d, "tree"))
		}
		pool <- d
		l.Record(res, func() any { return map[string]any{"case": cases[i], "outcome": res.Outcome} })
	})
	r.Rule = fmt.Sprintf("cdi tool: every %d-th of the %d populations of two directories x two slots over %v, 6 directory lists (incl. reversed, single, with a missing directory, with a repeated directory in the same and in another spelling), %d subcommand/format combinations (devices [-v -o json|yaml], vendors, classes, specs [-v|vendor], dirs, validate, inject with literal and glob patterns, json/yaml OCI files and outputs) and three --spec-dirs spellings: %d process runs; "+
		"validate tool: %d documents (a slice of the C17 space, 11 texts that cannot be loaded at all, a missing file and a directory given as document) x {builtin, none, path} x {file, stdin} x {json, yaml}: %d runs. Oracle: the library called in-process on the same directories with the same validator: exit status != 0 iff the library reports cache errors / validation fails; printed device, vendor, class, Spec-path, error-path sets and the injected OCI spec equal the library's. "+
		"non-trivial = population with at least one device or error", step, total, kinds, len(subcommands), nCDI, len(docs), len(cases)-nCDI)
	r.Assumptions = []string{"when the tool exits non-zero because of cache errors it prints only the error report; listings are compared only on zero exit", "the default directories (/etc/cdi, /var/run/cdi) are not used: every run passes --spec-dirs",
		"`specs <vendor>` is compared as the full listing (the vendor filter is not part of the statement)"}
	os.RemoveAll(base)
	r.Finish()
}
