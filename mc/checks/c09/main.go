// C09 — written Spec files read back equal, in both encodings.
package main

import (
	"syscall"
	"encoding/json"
	"fmt"
	"math"
	"os"
	"path/filepath"
	"strings"
	"unicode/utf8"

	"tags.cncf.io/container-device-interface/pkg/cdi"
	specs "tags.cncf.io/container-device-interface/specs-go"
	"verif/mc/hx"
)

type Case struct {
	Kind     string `json:"kind"` // string | numeric | shape
	Position string `json:"position,omitempty"`
	S        []byte `json:"string_bytes,omitempty"`
	Str      string `json:"string_printable,omitempty"`
	Class    string `json:"string_class,omitempty"`
	Variant  string `json:"variant,omitempty"`
	Previous string `json:"content_under_the_name_before_the_write,omitempty"`
	// Hostile: the directory already holds entries that sort before the written file: a dangling
	// symbolic link with a Spec extension (a failing Spec file of its own) and a FIFO
	Hostile bool `json:"directory_holds_a_dangling_spec_link_and_a_fifo,omitempty"`
}

// spec-env-value is the LAST scalar of the whole document in both encodings (what follows it is the end of the file)
var positions = []string{"env-value", "hook-arg", "hook-path", "mount-option", "mount-hostpath", "annotation-value", "spec-env-value", "rdt-l3schema", "devnode-hostpath",
	"hook-env-value", "mount-type", "rdt-membw", "mount-containerpath", "devnode-path"}

func iptr(v int) *int        { return &v }
func u32(v uint32) *uint32   { return &v }
func fmode(v uint32) *os.FileMode {
	m := os.FileMode(v)
	return &m
}

func baseSpec() *specs.Spec {
	return &specs.Spec{
		Version:     "1.0.0",
		Kind:        "vendor.com/class",
		Annotations: map[string]string{"spec.note": "v"},
		ContainerEdits: specs.ContainerEdits{
			Env: []string{"SPEC=1"},
		},
		Devices: []specs.Device{
			{Name: "dev", Annotations: map[string]string{"k": "v"}, ContainerEdits: specs.ContainerEdits{
				Env:            []string{"A=b"},
				DeviceNodes:    []*specs.DeviceNode{{Path: "/dev/x", HostPath: "/dev/hx", Type: "c", Major: 1, Minor: 2, FileMode: fmode(0o640), Permissions: "rw", UID: u32(1), GID: u32(2)}},
				Hooks:          []*specs.Hook{{HookName: "prestart", Path: "/bin/hook", Args: []string{"hook", "arg"}, Env: []string{"H=1"}, Timeout: iptr(3)}},
				Mounts:         []*specs.Mount{{HostPath: "/h", ContainerPath: "/c", Options: []string{"ro", "bind"}, Type: "bind"}},
				IntelRdt:       &specs.IntelRdt{ClosID: "clos", L3CacheSchema: "L3:0=f", MemBwSchema: "MB:0=10", EnableCMT: true},
				AdditionalGIDs: []uint32{5},
			}},
			{Name: "second", ContainerEdits: specs.ContainerEdits{Env: []string{"S=2"}}},
		},
	}
}

// overwriteFamily: Specs that differ by content at the END of the document (member order:
// cdiVersion, kind, annotations, devices, containerEdits), so that one encoding is a prefix of,
// shorter than, longer than or as long as another; each is written over each.
func overwriteFamily() (names []string, fam map[string]*specs.Spec) {
	fam = map[string]*specs.Spec{}
	add := func(n string, f func(sp *specs.Spec)) {
		sp := baseSpec()
		f(sp)
		names = append(names, n)
		fam[n] = sp
	}
	add("base", func(sp *specs.Spec) {})
	add("minus-last-device", func(sp *specs.Spec) { sp.Devices = sp.Devices[:1] })
	add("minus-spec-edits", func(sp *specs.Spec) { sp.ContainerEdits = specs.ContainerEdits{} })
	add("minus-last-device-and-spec-edits", func(sp *specs.Spec) { sp.Devices = sp.Devices[:1]; sp.ContainerEdits = specs.ContainerEdits{} })
	add("plus-last-device-env", func(sp *specs.Spec) { sp.Devices[1].ContainerEdits.Env = []string{"S=2", "T=3"} })
	add("plus-spec-env", func(sp *specs.Spec) { sp.ContainerEdits.Env = []string{"SPEC=1", "SPEC2=2"} })
	add("same-length-other-value", func(sp *specs.Spec) { sp.ContainerEdits.Env = []string{"SPEC=2"} })
	add("minus-annotations", func(sp *specs.Spec) { sp.Annotations = nil })
	add("minimal", func(sp *specs.Spec) {
		*sp = specs.Spec{Version: "0.3.0", Kind: "vendor.com/class", Devices: []specs.Device{{Name: "dev", ContainerEdits: specs.ContainerEdits{Env: []string{"A=b"}}}}}
	})
	return
}

// rawPrevious: file content found under the name that is not a Spec written by this library
var rawPrevious = map[string][]byte{"raw:empty-file": {}, "raw:not-a-spec": []byte("garbage: [not a spec {\n"), "raw:64KiB-of-comment": []byte("#" + strings.Repeat("x", 65535) + "\n")}

func withString(pos, s string) *specs.Spec {
	sp := baseSpec()
	e := &sp.Devices[0].ContainerEdits
	switch pos {
	case "env-value":
		e.Env = []string{"A=" + s, "B=x"}
	case "spec-env-value":
		sp.ContainerEdits.Env = []string{"A=" + s}
	case "hook-arg":
		e.Hooks[0].Args = []string{"hook", s, "last"}
	case "hook-path":
		e.Hooks[0].Path = "/" + s
	case "hook-env-value":
		e.Hooks[0].Env = []string{"H=" + s}
	case "mount-option":
		e.Mounts[0].Options = []string{s, "ro"}
	case "mount-hostpath":
		e.Mounts[0].HostPath = "/" + s
	case "mount-containerpath":
		e.Mounts[0].ContainerPath = "/" + s
	case "mount-type":
		e.Mounts[0].Type = s
	case "annotation-value":
		sp.Annotations["spec.note"] = s
		sp.Devices[0].Annotations["k"] = s
	case "rdt-l3schema":
		e.IntelRdt.L3CacheSchema = s
	case "rdt-membw":
		e.IntelRdt.MemBwSchema = s
	case "devnode-hostpath":
		e.DeviceNodes[0].HostPath = "/" + s
	case "devnode-path":
		e.DeviceNodes[0].Path = "/" + s
	}
	return sp
}

// thoroughTier is set by main before the variants are built.
var thoroughTier bool

func numericSpecs() map[string]*specs.Spec {
	out := map[string]*specs.Spec{}
	mk := func(name string, f func(e *specs.ContainerEdits)) {
		sp := baseSpec()
		f(&sp.Devices[0].ContainerEdits)
		out[name] = sp
		// the same values in documents of other shapes: optional members of the document absent (an
		// encoder that treats a document without them differently must still write the values right)
		a := baseSpec()
		f(&a.Devices[0].ContainerEdits)
		a.ContainerEdits = specs.ContainerEdits{}
		out[name+"+no-spec-level-edits"] = a
		b := baseSpec()
		f(&b.Devices[0].ContainerEdits)
		b.ContainerEdits, b.Annotations, b.Devices = specs.ContainerEdits{}, nil, b.Devices[:1]
		b.Devices[0].Annotations = nil
		out[name+"+minimal-document"] = b
	}
	mk("major-minor-max", func(e *specs.ContainerEdits) { e.DeviceNodes[0].Major, e.DeviceNodes[0].Minor = math.MaxInt64, math.MaxInt64 })
	mk("major-minor-min", func(e *specs.ContainerEdits) { e.DeviceNodes[0].Major, e.DeviceNodes[0].Minor = math.MinInt64, -1 })
	mk("uid-gid-max", func(e *specs.ContainerEdits) { e.DeviceNodes[0].UID, e.DeviceNodes[0].GID = u32(math.MaxUint32), u32(math.MaxUint32) })
	mk("uid-gid-zero", func(e *specs.ContainerEdits) { e.DeviceNodes[0].UID, e.DeviceNodes[0].GID = u32(0), u32(0) })
	mk("filemode-zero", func(e *specs.ContainerEdits) { e.DeviceNodes[0].FileMode = fmode(0) })
	mk("filemode-max", func(e *specs.ContainerEdits) { e.DeviceNodes[0].FileMode = fmode(math.MaxUint32) })
	mk("filemode-setuid-dir-bits", func(e *specs.ContainerEdits) { e.DeviceNodes[0].FileMode = fmode(uint32(os.ModeSetuid | os.ModeDir | 0o777)) })
	mk("filemode-0777", func(e *specs.ContainerEdits) { e.DeviceNodes[0].FileMode = fmode(0o777) })
	mk("timeout-zero", func(e *specs.ContainerEdits) { e.Hooks[0].Timeout = iptr(0) })
	mk("timeout-max", func(e *specs.ContainerEdits) { e.Hooks[0].Timeout = iptr(math.MaxInt64) })
	mk("timeout-min", func(e *specs.ContainerEdits) { e.Hooks[0].Timeout = iptr(math.MinInt64) })
	mk("timeout-nil", func(e *specs.ContainerEdits) { e.Hooks[0].Timeout = nil })
	mk("gids-extremes", func(e *specs.ContainerEdits) { e.AdditionalGIDs = []uint32{math.MaxUint32, 0, 1, math.MaxUint32} })
	mk("rdt-bools", func(e *specs.ContainerEdits) { e.IntelRdt.EnableCMT, e.IntelRdt.EnableMBM = false, true })
	mk("rdt-only-closid", func(e *specs.ContainerEdits) { e.IntelRdt = &specs.IntelRdt{ClosID: "x"} })
	mk("empty-lists-vs-nil", func(e *specs.ContainerEdits) {
		e.Hooks[0].Args, e.Hooks[0].Env, e.Mounts[0].Options = []string{}, []string{}, []string{}
	})
	mk("minimal-nodes", func(e *specs.ContainerEdits) {
		e.DeviceNodes = []*specs.DeviceNode{{Path: "/dev/min"}}
		e.Hooks = []*specs.Hook{{HookName: "poststop", Path: "/p"}}
		e.Mounts = []*specs.Mount{{HostPath: "/h", ContainerPath: "/c"}}
	})
	mk("many-list-entries-order", func(e *specs.ContainerEdits) {
		e.Env = []string{"Z=1", "A=2", "M=3", "A2=4", "B=5"}
		e.Mounts = append(e.Mounts, &specs.Mount{HostPath: "/z", ContainerPath: "/a"}, &specs.Mount{HostPath: "/a", ContainerPath: "/z"})
		e.Hooks = append(e.Hooks, &specs.Hook{HookName: "poststop", Path: "/b"}, &specs.Hook{HookName: "createRuntime", Path: "/a"})
	})
	// every list of the document in an order that no sort produces, with repeated entries where
	// repeats are legal: devices, env, device nodes, mounts and their options, hooks with args and
	// env, additional gids - at spec level and in two devices
	{
		unsorted := func(tag string) specs.ContainerEdits {
			return specs.ContainerEdits{
				Env:         []string{"M_" + tag + "=1", "Z=2", "A=3", "Z=4", "B=", "A=3"},
				DeviceNodes: []*specs.DeviceNode{{Path: "/dev/m" + tag}, {Path: "/dev/z", Type: "c", Major: 2, Minor: 9}, {Path: "/dev/a", Type: "b", Major: 9, Minor: 2}, {Path: "/dev/k"}},
				Mounts: []*specs.Mount{{HostPath: "/m", ContainerPath: "/m/" + tag, Options: []string{"ro", "bind", "nosuid", "bind", "a"}}, {HostPath: "/z", ContainerPath: "/a"},
					{HostPath: "/a", ContainerPath: "/z", Type: "tmpfs"}, {HostPath: "/k", ContainerPath: "/k"}},
				Hooks: []*specs.Hook{{HookName: "prestart", Path: "/m", Args: []string{"m", "z", "a", "z"}, Env: []string{"Z=1", "A=2", "M=3"}}, {HookName: "poststop", Path: "/z"},
					{HookName: "createRuntime", Path: "/a"}, {HookName: "prestart", Path: "/k"}, {HookName: "poststop", Path: "/z"}},
				AdditionalGIDs: []uint32{7, 9, 1, 9, 3},
			}
		}
		sp := baseSpec()
		sp.ContainerEdits = unsorted("spec")
		sp.Devices = []specs.Device{{Name: "mid", ContainerEdits: unsorted("mid")}, {Name: "zeta", ContainerEdits: specs.ContainerEdits{Env: []string{"Z=1"}}},
			{Name: "alpha", ContainerEdits: unsorted("alpha")}, {Name: "0first", ContainerEdits: specs.ContainerEdits{Env: []string{"F=1"}}}, {Name: "k", ContainerEdits: specs.ContainerEdits{Env: []string{"K=1"}}}}
		out["every-list-unsorted-with-repeats"] = sp
	}
	// large documents: a line longer than 64 KiB, a string above 1 MiB, a file of several MiB made
	// of many devices (size limits of readers and scanners)
	for name, n := range map[string]int{"string-70KiB": 70 << 10, "string-1.5MiB": 3 << 19} {
		sp := baseSpec()
		sp.Devices[0].ContainerEdits.Env = []string{"BIG=" + strings.Repeat("x", n), "AFTER=1"}
		out["large-"+name] = sp
	}
	{
		sp := baseSpec()
		nDev := 15000
		if thoroughTier {
			nDev = 60000
		}
		for i := 0; i < nDev; i++ {
			sp.Devices = append(sp.Devices, specs.Device{Name: fmt.Sprintf("dev%05d", i), ContainerEdits: specs.ContainerEdits{Env: []string{fmt.Sprintf("INDEX=%d", i)},
				DeviceNodes: []*specs.DeviceNode{{Path: fmt.Sprintf("/dev/node%05d", i), Type: "c", Major: 1, Minor: int64(i)}}}})
		}
		out["large-many-devices"] = sp
	}
	// optional members that are present but empty
	mk("rdt-present-but-empty", func(e *specs.ContainerEdits) { e.IntelRdt = &specs.IntelRdt{} })
	{
		sp := baseSpec()
		sp.Devices[1].ContainerEdits = specs.ContainerEdits{IntelRdt: &specs.IntelRdt{}}
		sp.ContainerEdits.IntelRdt = &specs.IntelRdt{}
		out["device-whose-only-edit-is-an-empty-rdt"] = sp
	}
	// spellings of the version the library accepts besides the plain one
	for _, v := range []string{"v0.6.0", "v1.0.0"} {
		sp := baseSpec()
		sp.Version = v
		out["version-spelled-"+v] = sp
	}
	// kinds / names
	sp := baseSpec()
	sp.Kind = "v/c"
	sp.Devices[0].Name = "0"
	sp.Devices[1].Name = "a:b.c_d-e"
	out["short-kind-odd-names"] = sp
	sp = baseSpec()
	sp.Annotations = nil
	sp.Devices[0].Annotations = nil
	sp.ContainerEdits = specs.ContainerEdits{}
	sp.Version = "0.7.0"
	out["no-annotations-old-version"] = sp
	return out
}

var sensitive = []string{"yes", "no", "on", "off", "y", "n", "Y", "N", "true", "false", "True", "TRUE", "~", "null", "Null", "NULL", "", " ", "0123", "0x1f", "0o17", "0b101", "1_000", "1e3", "1.5", ".5", "+1", "-1",
	".inf", "-.inf", ".nan", ".NaN", "2001-12-14", "2001-12-14t21:59:43.10-05:00", "2001-12-14 21:59:43", "12:30:45", "1:20", "190:20:30", " lead", "trail ", "\ttab", "tab\t", "a\tb",
	"line\nbreak", "trailing\n", "two-trailing\n\n", "three-trailing\n\n\n", "a\nb\n\n", "blank-then-breaks \n\n", "\nleading", " a\nb", "\ta\nb", "  x\ny\n", " \n", "a\n b", "a\n\tb", "a \nb", "a\n\nb", "a\r\nb", "cr\r", "'single'", "\"double\"", "it's", "a\"b", "#comment", "a #b", "a: b", "a:b", ": ", "- item", "-", "--", "---", "...", "? q",
	"| pipe", "> fold", "|", ">", "&anchor", "*alias", "!tag", "!!str x", "%directive", "@at", "`tick", "{brace}", "[bracket]", "{", "[", "]", "}", ",", "a, b", "\\backslash", "a\\nb", "\\",
	strings.Repeat("long ", 30), strings.Repeat("x", 200), "\ufeff", "\ufeffbom", "\U0001F600", "a\U0001F600b", "\u00e9", "\u0085", "a\u0085b", "\u00a0", "\u200b", "\ufffd", "\ufffe", "\uffff", "\u2028", "a\u2029b",
	"=", "==", "a=b=c", "<<", "<<: x", "0", "00", "-0", "0.0", "1e400", "0xZZ", "12e03", "1.", "\u0663", "\x7f", "a\x7fb", "\x1b[0m", "\x00", "a\x00b", "\x01", "\x08", "\x0b", "\x0c", "\x1f"}

func classOf(s string) string {
	if utf8.RuneCountInString(s) <= 3 {
		// single code point families (alone / prefix / suffix / infix)
		for _, rn := range s {
			switch {
			case rn == 'a' || rn == 'b':
				continue
			case rn == 0:
				return "U+0000"
			case rn == '\n' || rn == '\r' || rn == '\t':
				return fmt.Sprintf("U+%04X", rn)
			case rn < 0x20:
				return "C0-control"
			case rn == 0x7f:
				return "U+007F"
			case rn == 0x85:
				return "U+0085"
			case rn >= 0x80 && rn <= 0x9f:
				return "C1-control"
			case rn == 0xa0:
				return "U+00A0"
			case rn < 0x7f:
				return "ascii-printable"
			case rn <= 0xff:
				return "latin1"
			case rn == 0x2028 || rn == 0x2029:
				return "line-separator"
			case rn == 0xfeff:
				return "BOM"
			case rn >= 0xfffe:
				return "noncharacter"
			}
		}
	}
	return "spelling"
}

// cause names the property of the string that is known to matter for the encoding at hand
// (so that one root cause has one signature whatever else the string contains); otherwise
// the generic class.
func cause(enc, s, class string) string {
	isBreak := func(r rune) bool { return r == '\n' || r == 0x85 || r == 0x2028 || r == 0x2029 }
	if strings.HasPrefix(enc, "json") {
		switch {
		case strings.ContainsRune(s, 0x7f):
			return "contains-U+007F"
		case strings.ContainsFunc(s, func(r rune) bool { return r >= 0x80 && r <= 0x9f && r != 0x85 }):
			return "contains-C1-control"
		case strings.ContainsFunc(s, func(r rune) bool { return r == 0xfffe || r == 0xffff }):
			return "contains-noncharacter"
		case strings.ContainsRune(s, 0x85):
			return "contains-U+0085"
		}
	} else if strings.HasPrefix(s, "\n") {
		return "leading-newline"
	} else if strings.ContainsFunc(s, isBreak) {
		// yaml.v3 miscomputes the block scalar header of a multi-line string whose first
		// character is a blank, a tab or a line break (U+0085, U+2028, U+2029 count as breaks)
		for _, r := range s {
			if r == ' ' || r == '\t' || isBreak(r) {
				return "multiline-with-leading-blank"
			}
			break
		}
	}
	return class
}

func image(v any) string {
	b, _ := json.Marshal(v)
	return string(b)
}

// normalised image: nil == empty for lists and maps
func normImage(s *specs.Spec) string {
	var t any
	_ = json.Unmarshal([]byte(image(s)), &t)
	return image(prune(t))
}

func prune(v any) any {
	switch x := v.(type) {
	case map[string]any:
		for k, e := range x {
			p := prune(e)
			if p == nil {
				delete(x, k)
			} else {
				x[k] = p
			}
		}
		if len(x) == 0 {
			return nil
		}
		return x
	case []any:
		if len(x) == 0 {
			return nil
		}
		for i, e := range x {
			x[i] = prune(e)
		}
		return x
	}
	return v
}

var run *hx.Run

func eval(c Case, sp *specs.Spec, dir string) hx.Result {
	var prevSpec *specs.Spec
	var prevRaw []byte
	if c.Kind == "overwrite" {
		_, fam := overwriteFamily()
		if raw, ok := rawPrevious[c.Previous]; ok {
			prevRaw = raw
		} else {
			prevSpec = fam[c.Previous]
		}
	}
	return hx.Guard("", c, func() hx.Result {
		_ = os.RemoveAll(dir)
		_ = os.MkdirAll(dir, 0o755)
		if c.Hostile {
			_ = os.Symlink(filepath.Join(dir, "no-such-target"), filepath.Join(dir, "+stale.json"))
			_ = syscall.Mkfifo(filepath.Join(dir, "+early-fifo"), 0o644)
		}
		want := normImage(sp)
		fail := func(enc, kind, msg string, act any) hx.Result {
			sigCtx := c.Kind + ":" + cause(enc, string(c.S), c.Class) + c.Variant
			if c.Previous != "" {
				sigCtx += ":over:" + c.Previous
			}
			if c.Hostile {
				sigCtx += ":directory-with-a-dangling-spec-link-and-a-fifo"
			}
			return hx.Result{Outcome: "FAIL", Nontrivial: true, Fail: &hx.Failure{Sig: enc + ":" + kind + ":" + sigCtx, Msg: fmt.Sprintf("%s at %s %s%s: %s", enc, c.Position, c.Str, c.Variant, msg),
				Case: c, Expected: json.RawMessage(want), Actual: act, Rank: int64(len(c.S))}}
		}
		cache, _ := cdi.NewCache(cdi.WithSpecDirs(dir), cdi.WithAutoRefresh(false))
		images := map[string]string{}
		var first *hx.Result
		note := func(res hx.Result) {
			if first == nil {
				first = &res
			} else if run != nil {
				run.Fail(res.Fail)
			}
		}
	encodings:
		// names: both extensions, none (YAML by default), and a hidden file name (a Spec file all the same)
		for _, name := range []string{"spec.json", "spec.yaml", "spec", ".hidden-spec.json"} {
			enc := map[string]string{"spec.json": "json", "spec.yaml": "yaml", "spec": "yaml", ".hidden-spec.json": "json"}[name]
			lab := enc
			if strings.HasPrefix(name, ".") {
				lab = enc + "-under-a-hidden-name"
			}
			if c.Kind == "overwrite" {
				// what is found under the name before the write: an earlier Spec written the same way, or foreign content
				if prevSpec != nil {
					prevCopy := *prevSpec
					if err := cache.WriteSpec(&prevCopy, name); err != nil {
						return hx.Result{Outcome: "not-accepted-for-writing", Nontrivial: false}
					}
				} else {
					p := filepath.Join(dir, name)
					if name == "spec" {
						p += ".yaml"
					}
					_ = os.WriteFile(p, prevRaw, 0o644)
				}
			}
			copyOf := *sp // WriteSpec must not depend on aliasing
			if err := cache.WriteSpec(&copyOf, name); err != nil {
				// not accepted for writing: outside the property's domain (e.g. the string makes the Spec invalid)
				return hx.Result{Outcome: "not-accepted-for-writing", Nontrivial: false}
			}
			path := filepath.Join(dir, name)
			if name == "spec" {
				path += ".yaml"
			}
			back, err := cdi.ReadSpec(path, 0)
			if err != nil {
				_ = os.Remove(path)
				note(fail(lab, "unreadable", "written file cannot be read back: "+firstLine(err.Error()), err.Error()))
				continue encodings
			}
			got := normImage(back.Spec)
			if got != want {
				_ = os.Remove(path)
				note(fail(lab, "altered", "file reads back as a different Spec", json.RawMessage(got)))
				continue encodings
			}
			// through the cache
			onlyTheStaleLink := func() bool {
				for p := range cache.GetErrors() {
					if filepath.Base(p) != "+stale.json" {
						return false
					}
				}
				return c.Hostile
			}
			if err := cache.Refresh(); err != nil && !onlyTheStaleLink() {
				_ = os.Remove(path)
				note(fail(lab, "cache-load-error", "cache refresh reports "+firstLine(err.Error()), nil))
				continue encodings
			}
			for i, d := range sp.Devices {
				q := sp.Kind + "=" + d.Name
				cd := cache.GetDevice(q)
				if cd == nil {
					_ = os.Remove(path)
					note(fail(lab, "cache-device-missing", "device "+q+" not in the cache after loading the written file", nil))
					continue encodings
				}
				var wd, gd any
				_ = json.Unmarshal([]byte(image(sp.Devices[i])), &wd)
				_ = json.Unmarshal([]byte(image(cd.Device)), &gd)
				if image(prune(wd)) != image(prune(gd)) {
					_ = os.Remove(path)
					note(fail(lab, "cache-device-differs", "device "+q+" differs when loaded through the cache", json.RawMessage(image(cd.Device))))
					continue encodings
				}
			}
			images[enc] = got
			_ = os.Remove(path)
		}
		if first != nil {
			return *first
		}
		if images["json"] != images["yaml"] {
			return fail("json-vs-yaml", "altered", "JSON and YAML encodings load to different Specs", nil)
		}
		return hx.Result{Outcome: "roundtrip-ok:" + c.Kind, Nontrivial: true}
	})
}

func firstLine(s string) string {
	if i := strings.IndexByte(s, '\n'); i >= 0 {
		return s[:i]
	}
	return s
}

func main() {
	r := hx.Start("C09", "model_checking")
	run = r
	base, err := os.MkdirTemp("/dev/shm", "verif-c09-")
	if err != nil {
		base, _ = os.MkdirTemp("", "verif-c09-")
	}
	defer os.RemoveAll(base)
	thoroughTier = r.Thorough()
	nums := numericSpecs()
	build := func(c Case) *specs.Spec {
		if c.Kind == "numeric" {
			return nums[c.Variant]
		}
		if c.Kind == "overwrite" {
			_, fam := overwriteFamily()
			return fam[c.Variant]
		}
		return withString(c.Position, string(c.S))
	}
	if r.Replay != "" {
		var c Case
		r.LoadReplay(&c)
		res := eval(c, build(c), filepath.Join(base, "replay"))
		os.RemoveAll(base)
		hx.ReplayExit("C09", res)
	}
	var stringsDomain []string
	for cp := rune(0); cp <= 0xff; cp++ {
		s := string(cp)
		stringsDomain = append(stringsDomain, s, s+"b", "a"+s, "a"+s+"b")
	}
	stringsDomain = append(stringsDomain, sensitive...)
	if r.Thorough() {
		for _, a := range sensitive {
			for _, b := range sensitive {
				stringsDomain = append(stringsDomain, a+b)
			}
		}
	}
	npos := 7
	if r.Thorough() {
		npos = len(positions)
	}
	var cases []Case
	for name := range nums {
		cases = append(cases, Case{Kind: "numeric", Variant: name})
	}
	famNames, _ := overwriteFamily()
	for _, cur := range famNames {
		for _, prev := range famNames {
			cases = append(cases, Case{Kind: "overwrite", Variant: cur, Previous: prev})
		}
		for prev := range rawPrevious {
			cases = append(cases, Case{Kind: "overwrite", Variant: cur, Previous: prev})
		}
	}
	for _, c := range append([]Case{}, cases...) {
		if c.Kind == "numeric" || (c.Kind == "overwrite" && c.Previous == "base") {
			c.Hostile = true
			cases = append(cases, c)
		}
	}
	r.Extra["overwrite_histories"] = len(famNames) * (len(famNames) + len(rawPrevious))
	seen := map[string]bool{}
	for _, s := range stringsDomain {
		if seen[s] || !utf8.ValidString(s) {
			continue
		}
		seen[s] = true
		for _, p := range positions[:npos] {
			cases = append(cases, Case{Kind: "string", Position: p, S: []byte(s), Str: fmt.Sprintf("%q", s), Class: classOf(s)})
		}
	}
	// path members keep their spelling: uncleaned paths (trailing and doubled slashes, dot segments) at
	// every member that holds a path, in both tiers
	pathSpellings := []string{"mnt/models/", "mnt//cache", "mnt/./v1", "mnt/../v1", "./mnt", "../mnt", "mnt/.", "mnt/..", "/mnt", "", ".", "..", "mnt//cache/./v1/", "mnt\\v1", "mnt/ v1 /"}
	for _, s := range pathSpellings {
		for _, p := range []string{"hook-path", "mount-hostpath", "mount-containerpath", "devnode-hostpath", "devnode-path"} {
			cases = append(cases, Case{Kind: "string", Position: p, S: []byte(s), Str: fmt.Sprintf("%q", s), Class: "path-spelling"})
		}
	}
	r.Extra["uncleaned_path_spellings_per_path_member"] = len(pathSpellings)
	r.Rule = fmt.Sprintf("valid Specs with every optional member populated x a string domain (every code point U+0000-U+00FF alone, as prefix, suffix and infix; %d YAML/JSON-sensitive spellings; thorough: all ordered pairs of them) inserted at %d free string positions %v, plus %d numeric/shape variants (int64/uint32/file-mode/timeout extremes, empty vs nil lists, list order); "+
		"plus overwrite histories (each of 9 Specs that differ at the end of the document written over each of them and over 3 foreign contents, under the same name); each written with WriteSpec as .json, .yaml and extension-less, read back with ReadSpec and through a cache. Oracle: read-back Spec equals the original (nil == empty), cached devices equal, JSON-loaded == YAML-loaded. "+
		"Distinct by construction; non-trivial = accepted for writing", len(sensitive), npos, positions[:npos], len(nums))
	r.Assumptions = []string{"only valid UTF-8 strings (the statement's domain)", "a Spec the writer refuses is outside the domain and only counted"}
	nw := 16
	pool := make(chan string, nw)
	for i := 0; i < nw; i++ {
		pool <- filepath.Join(base, fmt.Sprintf("w%d", i))
	}
	r.ParallelL(int64(len(cases)), func(i int64, l *hx.Local) {
		d := <-pool
		res := eval(cases[i], build(cases[i]), d)
		pool <- d
		l.Record(res, func() any { return map[string]any{"case": cases[i], "outcome": res.Outcome} })
	})
	os.RemoveAll(base)
	r.Finish()
}
