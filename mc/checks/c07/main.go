// C07 — qualified device name grammar is exact, total and round-trips.
// Bounded-exhaustive: every byte string up to length L over an alphabet holding one
// representative of each class the validators distinguish, every composition of parts up
// to length K, against a hand-written grammar (refmodel.Qualified).
package main

import (
	"strings"
	"fmt"

	"tags.cncf.io/container-device-interface/pkg/parser"
	"verif/mc/hx"
	"verif/mc/refmodel"
)

var alphabet = []byte{'a', 'Z', '0', '_', '-', '.', ':', '/', '=', ',', ' ', 0x00, 0xC3, 0xA9, 0xFF}
var partAlphabet = []byte{'a', 'Z', '0', '_', '-', '.', ':', '/', '='}

type Case struct {
	Kind  string `json:"kind"` // "string" | "parts"
	S     []byte `json:"s_bytes,omitempty"`
	Str   string `json:"s_printable,omitempty"`
	Parts [3][]byte `json:"parts,omitempty"`
}

func verdict(err error) string {
	if err == nil {
		return "accept"
	}
	return "reject"
}

func evalString(s string) hx.Result {
	c := Case{Kind: "string", S: []byte(s), Str: fmt.Sprintf("%q", s)}
	return hx.Guard("string:", c, func() hx.Result {
		mv, mc, mn, reason := refmodel.Qualified(s)
		fail := func(api, what string, exp, act any) hx.Result {
			return hx.Result{Outcome: "FAIL", Nontrivial: true, Fail: &hx.Failure{
				Sig: api + ":model=" + orOK(reason) + ":" + what, Msg: fmt.Sprintf("%s(%q): %s", api, s, what), Case: c, Expected: exp, Actual: act}}
		}
		v, cl, n, err := parser.ParseQualifiedName(s)
		if reason == "" {
			if err != nil {
				return fail("ParseQualifiedName", "rejects a valid name", []string{mv, mc, mn}, err.Error())
			}
			if v != mv || cl != mc || n != mn || v+"/"+cl+"="+n != s {
				return fail("ParseQualifiedName", "wrong parts", []string{mv, mc, mn}, []string{v, cl, n})
			}
		} else {
			if err == nil {
				return fail("ParseQualifiedName", "accepts an invalid name", "error", []string{v, cl, n})
			}
			if v != "" || cl != "" || n != s {
				return fail("ParseQualifiedName", "error contract broken", []string{"", "", s}, []string{v, cl, n})
			}
		}
		if got := parser.IsQualifiedName(s); got != (reason == "") {
			return fail("IsQualifiedName", "disagrees with the grammar", reason == "", got)
		}
		if got, want := verdict(parser.ValidateVendorName(s)), okStr(refmodel.VendorOrClass(s)); got != want {
			return fail("ValidateVendorName", "want "+want+" got "+got+" ("+refmodel.VendorOrClass(s)+")", want, got)
		}
		if got, want := verdict(parser.ValidateClassName(s)), okStr(refmodel.VendorOrClass(s)); got != want {
			return fail("ValidateClassName", "want "+want+" got "+got+" ("+refmodel.VendorOrClass(s)+")", want, got)
		}
		if got, want := verdict(parser.ValidateDeviceName(s)), okStr(refmodel.DeviceName(s)); got != want {
			return fail("ValidateDeviceName", "want "+want+" got "+got+" ("+refmodel.DeviceName(s)+")", want, got)
		}
		// ParseDevice: total; either ("","",s) or a decomposition that recomposes to s.
		pv, pc, pn := parser.ParseDevice(s)
		if pv == "" && pc == "" {
			if pn != s {
				return fail("ParseDevice", "unparsed input not returned verbatim", s, pn)
			}
			if reason == "" {
				return fail("ParseDevice", "does not split a valid name", []string{mv, mc, mn}, []string{pv, pc, pn})
			}
		} else {
			if pv+"/"+pc+"="+pn != s || pv == "" || pc == "" || pn == "" {
				return fail("ParseDevice", "split does not recompose", s, []string{pv, pc, pn})
			}
			if reason == "" && (pv != mv || pc != mc || pn != mn) {
				return fail("ParseDevice", "wrong parts", []string{mv, mc, mn}, []string{pv, pc, pn})
			}
		}
		return hx.Result{Outcome: orOK(reason), Nontrivial: reason != "no-eq" && reason != "no-slash"}
	})
}

func evalParts(v, cl, n string) hx.Result {
	c := Case{Kind: "parts", Parts: [3][]byte{[]byte(v), []byte(cl), []byte(n)}, Str: fmt.Sprintf("%q %q %q", v, cl, n)}
	return hx.Guard("parts:", c, func() hx.Result {
		valid := refmodel.VendorOrClass(v) == "" && refmodel.VendorOrClass(cl) == "" && refmodel.DeviceName(n) == ""
		s := parser.QualifiedName(v, cl, n)
		if s != v+"/"+cl+"="+n {
			return hx.Result{Outcome: "FAIL", Fail: &hx.Failure{Sig: "QualifiedName:composition", Msg: "QualifiedName does not compose vendor/class=name", Case: c, Expected: v + "/" + cl + "=" + n, Actual: s}}
		}
		gv, gc, gn, err := parser.ParseQualifiedName(s)
		if valid {
			if err != nil || gv != v || gc != cl || gn != n {
				shape := refmodel.Shape(v) + " " + refmodel.Shape(cl) + " " + refmodel.Shape(n)
				_ = shape
				return hx.Result{Outcome: "FAIL", Nontrivial: true, Fail: &hx.Failure{Sig: "roundtrip:valid-parts-do-not-parse-back",
					Msg: fmt.Sprintf("compose(%q,%q,%q) does not parse back", v, cl, n), Case: c, Expected: []string{v, cl, n}, Actual: []any{gv, gc, gn, fmt.Sprint(err)}}}
			}
			return hx.Result{Outcome: "valid-parts", Nontrivial: true}
		}
		// invalid parts: the whole string decides (a '/' or '=' inside a part can shift the split)
		_, _, _, reason := refmodel.Qualified(s)
		if (err == nil) != (reason == "") {
			return hx.Result{Outcome: "FAIL", Nontrivial: true, Fail: &hx.Failure{Sig: "parts:model=" + orOK(reason) + ":impl=" + verdict(err),
				Msg: fmt.Sprintf("ParseQualifiedName(%q) disagrees with the grammar (%s)", s, orOK(reason)), Case: c, Expected: orOK(reason), Actual: fmt.Sprint(err)}}
		}
		if err != nil && (gv != "" || gc != "" || gn != s) {
			return hx.Result{Outcome: "FAIL", Nontrivial: true, Fail: &hx.Failure{Sig: "parts:error-contract", Msg: "error contract broken", Case: c}}
		}
		return hx.Result{Outcome: "invalid-parts:" + orOK(reason), Nontrivial: true}
	})
}

func orOK(r string) string {
	if r == "" {
		return "ok"
	}
	return r
}
func okStr(r string) string {
	if r == "" {
		return "accept"
	}
	return "reject"
}

// all strings of length exactly n over alpha, by index
func strAt(alpha []byte, n int, idx int64, buf []byte) string {
	for k := 0; k < n; k++ {
		buf[k] = alpha[idx%int64(len(alpha))]
		idx /= int64(len(alpha))
	}
	return string(buf[:n])
}

func pow(b, e int) int64 {
	p := int64(1)
	for i := 0; i < e; i++ {
		p *= int64(b)
	}
	return p
}

// strings of length 1..k over alpha
func allUpTo(alpha []byte, k int) []string {
	var out []string
	buf := make([]byte, k)
	for n := 1; n <= k; n++ {
		for i := int64(0); i < pow(len(alpha), n); i++ {
			out = append(out, strAt(alpha, n, i, buf))
		}
	}
	return out
}

func main() {
	r := hx.Start("C07", "model_checking")
	if r.Replay != "" {
		var c Case
		r.LoadReplay(&c)
		if c.Kind == "parts" {
			hx.ReplayExit("C07", evalParts(string(c.Parts[0]), string(c.Parts[1]), string(c.Parts[2])))
		}
		hx.ReplayExit("C07", evalString(string(c.S)))
	}
	L, K := 5, 2
	if r.Thorough() {
		L, K = 7, 3
	}
	r.Rule = fmt.Sprintf("every byte string of length 0..%d over the %d-symbol alphabet %q (one representative per class the validators distinguish) and every string of up to %d characters over 18 whole characters (5 ASCII representatives, 13 non-ASCII characters: Unicode letters/digits, low byte or low 7 bits an ASCII letter/digit, case-folding look-alikes, non-BMP, invisible) "+
		"through ParseQualifiedName/IsQualifiedName/ParseDevice/Validate*Name; every (vendor,class,name) with each part any string of length 1..%d over %q "+
		"through QualifiedName+ParseQualifiedName; 8 valid beginnings continued by every string of <=5 (6) ASCII tokens; every string of 1..3 alphabet symbols with one symbol stretched to a run of 64..65537 bytes; oracle = hand-written grammar. Cases are distinct by construction (mixed-radix index); "+
		"non-trivial = the string contains both separators (the grammar gets past the split) or is a composed triple", L, len(alphabet), alphabet, map[bool]int{false: 5, true: 6}[r.Thorough()], K, partAlphabet)
	r.Assumptions = []string{"bytes outside the alphabet behave like their class representative (letter, digit, each punctuation, control, UTF-8 lead/continuation, invalid byte)",
		fmt.Sprintf("strings longer than %d / parts longer than %d are not enumerated", L, K)}
	for n := 0; n <= L && !r.Expired(); n++ {
		total := pow(len(alphabet), n)
		r.ParallelL(total, func(i int64, l *hx.Local) {
			var buf [16]byte
			s := strAt(alphabet, n, i, buf[:])
			res := evalString(s)
			l.Record(res, func() any { return fmt.Sprintf("string %q -> %s", s, res.Outcome) })
		})
	}
	// strings over whole characters: ASCII class representatives and non-ASCII characters picked
	// for what a careless character test does with them (Unicode letters and digits, characters
	// whose low byte or low 7 bits are an ASCII letter or digit, case-folding look-alikes,
	// non-BMP, invisible characters)
	tokens := []string{"a", "0", "/", "=", "-", "\u00e9", "\u0430", "\u0141", "\u0661", "\u212a", "\u017f", "\uff21", "\U0001d7d8", "\u0130", "\u200b", "\ufeff", "\u0085", "\u00df"}
	TL := 5
	if r.Thorough() {
		TL = 6
	}
	for n := 1; n <= TL && !r.Expired(); n++ {
		total := pow(len(tokens), n)
		r.ParallelL(total, func(i int64, l *hx.Local) {
			var sb strings.Builder
			x := i
			for k := 0; k < n; k++ {
				sb.WriteString(tokens[x%int64(len(tokens))])
				x /= int64(len(tokens))
			}
			s := sb.String()
			res := evalString(s)
			l.Record(res, func() any { return fmt.Sprintf("string %q -> %s", s, res.Outcome) })
		})
	}
	r.Extra["character_tokens"] = fmt.Sprintf("%q up to %d characters", tokens, TL)
	// valid names with one foreign character (white space of every kind, NUL, BOM, separators)
	// put in front, behind, on both sides and at every inner position
	affixes := []string{" ", "\n", "\t", "\r", "\r\n", "\u00a0", "\u2003", "\u2028", "\x00", "\ufeff", ",", ";", "\"", "'"}
	var padded []string
	for _, name := range []string{"a/a=a", "vendor.com/class=dev", "a0/b-1=c:2", "v_/c.d=0"} {
		for _, af := range affixes {
			padded = append(padded, af+name, name+af, af+name+af)
			for i := 1; i < len(name); i++ {
				padded = append(padded, name[:i]+af+name[i:])
			}
		}
	}
	r.ParallelL(int64(len(padded)), func(i int64, l *hx.Local) {
		res := evalString(padded[i])
		l.Record(res, func() any { return fmt.Sprintf("string %q -> %s", padded[i], res.Outcome) })
	})
	r.Extra["valid_names_with_one_foreign_character"] = len(padded)
	// continuations: a valid beginning (vendor/class=, vendor/, a whole valid name) followed by every
	// string of up to 5 (thorough 6) ASCII tokens - strings twice as long as the plain enumeration
	// reaches, e.g. a repeated qualifier (a/a=a/a=a), a second separator after a valid name
	cont := []string{"a", "Z", "0", "/", "=", "-", ".", ":", "_"}
	CL := 5
	if r.Thorough() {
		CL = 6
	}
	for _, pre := range []string{"a/a=", "a0/b-c=", "a/", "a/a=a", "v.w/c_d=n:1", "Z.a/", "aZ.Z-a/Z.z=", "A_b.C/"} {
		for n := 1; n <= CL && !r.Expired(); n++ {
			total := pow(len(cont), n)
			r.ParallelL(total, func(i int64, l *hx.Local) {
				var sb strings.Builder
				sb.WriteString(pre)
				x := i
				for k := 0; k < n; k++ {
					sb.WriteString(cont[x%int64(len(cont))])
					x /= int64(len(cont))
				}
				s := sb.String()
				res := evalString(s)
				if res.Fail != nil {
					res.Fail.Sig = "continuation-of-a-valid-beginning:" + res.Fail.Sig
				}
				l.Record(res, func() any { return fmt.Sprintf("string %q -> %s", s, res.Outcome) })
			})
		}
	}
	r.Extra["continuations_of_valid_beginnings"] = fmt.Sprintf("8 beginnings (lower and upper case, dots, underscores) x every string of <=%d tokens over %q", CL, cont)
	// long inputs: every string of 1..3 alphabet symbols with one symbol stretched to a run, of
	// lengths around the sizes at which buffers, quoting limits and length fields change
	runs := []int{64, 129, 257, 1025, 4097, 65537}
	var long []string
	for _, base := range allUpTo(alphabet, 3) {
		for i := 0; i < len(base); i++ {
			for _, n := range runs {
				long = append(long, base[:i]+strings.Repeat(base[i:i+1], n)+base[i+1:])
			}
		}
	}
	r.ParallelL(int64(len(long)), func(i int64, l *hx.Local) {
		res := evalString(long[i])
		if res.Fail != nil {
			res.Fail.Sig = "long-input:" + res.Fail.Sig
		}
		l.Record(res, func() any { return fmt.Sprintf("string of %d bytes -> %s", len(long[i]), res.Outcome) })
	})
	r.Extra["long_inputs"] = map[string]any{"strings": len(long), "run_lengths": runs}
	parts := allUpTo(partAlphabet, K)
	np := int64(len(parts))
	r.ParallelL(np*np*np, func(i int64, l *hx.Local) {
		v, c, n := parts[i%np], parts[(i/np)%np], parts[i/np/np]
		res := evalParts(v, c, n)
		l.Record(res, func() any { return fmt.Sprintf("parts (%q,%q,%q) -> %s", v, c, n, res.Outcome) })
	})
	r.Extra["max_string_length"] = L
	r.Extra["max_part_length"] = K
	r.Finish()
}
