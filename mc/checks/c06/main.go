// C06 — minimum required CDI version is exact and independent of where a feature is used.
// Every subset of the version-gated features x every placement (spec level / device k of n)
// x every device order x every declared version string, against a literal table.
package main

import (
	"sync/atomic"
	"fmt"
	"sort"
	"strings"

	"golang.org/x/mod/semver"
	"tags.cncf.io/container-device-interface/pkg/cdi"
	specs "tags.cncf.io/container-device-interface/specs-go"
	"verif/mc/hx"
)

// edit-level features: may sit in the spec-level edits or in any device's edits
var editFeatures = []string{"mountType", "hostPath", "intelRdt", "additionalGids"}

// device-level features
var devFeatures = []string{"digitName", "devAnnotations"}

// spec-level features
var specFeatures = []string{"specAnnotations", "dottedClass"}

var intro = map[string]string{"mountType": "0.4.0", "hostPath": "0.5.0", "digitName": "0.5.0", "specAnnotations": "0.6.0",
	"devAnnotations": "0.6.0", "dottedClass": "0.6.0", "intelRdt": "0.7.0", "additionalGids": "0.7.0"}

var released = map[string]bool{"0.1.0": true, "0.2.0": true, "0.3.0": true, "0.4.0": true, "0.5.0": true, "0.6.0": true, "0.7.0": true, "0.8.0": true, "1.0.0": true}

var declaredDomain = []string{"0.1.0", "0.2.0", "0.3.0", "0.4.0", "0.5.0", "0.6.0", "0.7.0", "0.8.0", "1.0.0",
	"0.9.0", "0.3.1", "1.0.1", "2.0.0", "0.5", "1", "", "junk", "0.5.0-rc1", "00.5.0", " 0.5.0", "0.5.0 ", "1.0.0.0", "0.10.0"}

// strings only checked for "no panic" (the statement does not say whether a v-prefixed spelling is "released")
var noPanicOnly = []string{"v0.5.0", "v1.0.0", "vv0.5.0", "v"}

// Case: Place[f] is a bitmask over positions {bit0 = spec level, bit k+1 = device k}.
type Case struct {
	N     int            `json:"devices"`
	Place map[string]int `json:"placement_bitmask_spec_then_devices"`
	Perm  []int          `json:"device_order"`
	// Prev, when set: one Spec object first holds Prev's content and is asked for its minimum
	// version, then is overwritten in place with this case's content and asked again.
	Prev *Case `json:"same_object_held_before,omitempty"`
	// EmptyAnn: every annotations member that is not a placed feature is present but empty (an
	// object without annotations uses no annotation feature)
	EmptyAnn bool `json:"annotations_present_but_empty_elsewhere,omitempty"`
	// Nulls: every mounts / deviceNodes list starts and ends with a null entry (a Spec built in
	// memory, or `- null` in a document): a null entry uses no feature and hides none behind it
	Nulls bool `json:"null_entries_around_every_list,omitempty"`
	// Bare: an edits block holds nothing but the features placed in it - no environment, no untyped
	// mount, no host-path-less device node next to them (a typed mount in a device without device nodes ...)
	Bare bool `json:"nothing_but_the_features_in_each_edits_block,omitempty"`
}

func editsWith(c Case, pos int) specs.ContainerEdits {
	has := func(f string) bool { return c.Place[f]&(1<<pos) != 0 }
	e := specs.ContainerEdits{Env: []string{"A=b"}}
	m := &specs.Mount{HostPath: "/h", ContainerPath: "/c"}
	if has("mountType") {
		// a plain mount first: the typed one is not the first list element
		e.Mounts = append(e.Mounts, &specs.Mount{HostPath: "/h0", ContainerPath: "/c0"})
		m.Type = []string{"bind", "tmpfs", "x", "0"}[pos%4] // the spelling of a feature varies with its position
	}
	e.Mounts = append(e.Mounts, m)
	dn := &specs.DeviceNode{Path: "/dev/x"}
	if has("hostPath") {
		e.DeviceNodes = append(e.DeviceNodes, &specs.DeviceNode{Path: "/dev/w"})
		dn.HostPath = []string{"/dev/y", "/", "relative", "/dev/x"}[pos%4]
	}
	e.DeviceNodes = append(e.DeviceNodes, dn)
	if c.Bare {
		e.Env, e.Mounts, e.DeviceNodes = nil, nil, nil
		if has("mountType") {
			e.Mounts = []*specs.Mount{m}
		}
		if has("hostPath") {
			e.DeviceNodes = []*specs.DeviceNode{dn}
		}
	}
	if c.Nulls {
		e.Mounts = append(append([]*specs.Mount{nil}, e.Mounts...), nil)
		e.DeviceNodes = append(append([]*specs.DeviceNode{nil}, e.DeviceNodes...), nil)
	}
	if has("intelRdt") {
		e.IntelRdt = []*specs.IntelRdt{{ClosID: "c"}, {EnableCMT: true}, {L3CacheSchema: "L3:0=f"}, {}}[pos%4]
	}
	if has("additionalGids") {
		e.AdditionalGIDs = [][]uint32{{5}, {0}, {0, 0}, {4294967295}}[pos%4]
	}
	return e
}

// dottedKinds: spellings of a kind whose class has a dot - classes sharing all, some or none of their
// characters with the vendor, dots at the start of the class's tail, several dots
var dottedKinds = []string{"vendor.com/cl.ass", "vendor.com/dev.ice", "example.com/a.b", "v.w/w.v", "vendor.com/vendor.com", "a-b.c/x.y.z"}

func build(c Case) *specs.Spec {
	s := &specs.Spec{Version: "1.0.0", Kind: "vendor.com/class"}
	if k := c.Place["dottedClass"]; k != 0 {
		s.Kind = dottedKinds[(k-1)%len(dottedKinds)]
	}
	if c.Place["specAnnotations"] != 0 {
		s.Annotations = map[string]string{"k": "v"}
	} else if c.EmptyAnn {
		s.Annotations = map[string]string{}
	}
	s.ContainerEdits = editsWith(c, 0)
	devs := make([]specs.Device, c.N)
	for k := 0; k < c.N; k++ {
		d := specs.Device{Name: fmt.Sprintf("d%d", k)}
		if c.Place["digitName"]&(1<<(k+1)) != 0 {
			d.Name = []string{"0d", "9", "5-x"}[k%3]
		}
		if c.Place["devAnnotations"]&(1<<(k+1)) != 0 {
			d.Annotations = map[string]string{"k": "v"}
		} else if c.EmptyAnn {
			d.Annotations = map[string]string{}
		}
		d.ContainerEdits = editsWith(c, k+1)
		devs[k] = d
	}
	for _, k := range c.Perm {
		s.Devices = append(s.Devices, devs[k])
	}
	return s
}

func model(c Case) string {
	min := "0.3.0"
	for f, m := range c.Place {
		if m != 0 && semver.Compare("v"+intro[f], "v"+min) > 0 {
			min = intro[f]
		}
	}
	return min
}

func describe(c Case) string {
	var parts []string
	for f, m := range c.Place {
		if m == 0 {
			continue
		}
		var where []string
		if m&1 != 0 {
			where = append(where, "spec")
		}
		for k := 0; k < c.N; k++ {
			if m&(1<<(k+1)) != 0 {
				// position after permutation
				pos := 0
				for i, p := range c.Perm {
					if p == k {
						pos = i
					}
				}
				if pos == c.N-1 {
					where = append(where, "last-device")
				} else {
					where = append(where, "non-last-device")
				}
			}
		}
		sort.Strings(where)
		where = uniq(where)
		parts = append(parts, f+"@"+strings.Join(where, "+"))
	}
	sort.Strings(parts)
	return strings.Join(parts, ",")
}

// explain names the features whose introduction version exceeds what the implementation
// reported (the ones it missed), with the kind of position they sit at; or the overestimate.
func explain(c Case, want, got string) string {
	if semver.Compare("v"+got, "v"+want) > 0 {
		return "overestimate:want=" + want + ":got=" + got
	}
	only := Case{N: c.N, Perm: c.Perm, Place: map[string]int{}}
	for f, m := range c.Place {
		if m != 0 && semver.Compare("v"+intro[f], "v"+got) > 0 {
			only.Place[f] = m
		}
	}
	return "missed=" + describe(only)
}

func uniq(s []string) []string {
	var o []string
	for i, x := range s {
		if i == 0 || x != s[i-1] {
			o = append(o, x)
		}
	}
	return o
}

func rank(c Case) int64 {
	n := int64(0)
	for _, m := range c.Place {
		for ; m != 0; m &= m - 1 {
			n++
		}
	}
	return n*10 + int64(c.N)
}

func eval(c Case) hx.Result {
	return hx.Guard("", c, func() hx.Result {
		want := model(c)
		s := build(c)
		pre := ""
		if c.Prev != nil {
			s = build(*c.Prev)
			_, _ = specs.MinimumRequiredVersion(s)
			s.Version = "0.3.0"
			_ = specs.ValidateVersion(s)
			*s = *build(c)
			pre = "object-edited-in-place:"
		}
		if c.Nulls {
			pre += "null-list-entries:"
		}
		if c.Bare {
			pre += "bare-edits-blocks:"
		}
		got, err := specs.MinimumRequiredVersion(s)
		if err != nil || got != want {
			return hx.Result{Outcome: "FAIL", Nontrivial: true, Fail: &hx.Failure{Rank: rank(c),
				Sig: pre + "minver:" + explain(c, want, got), Msg: fmt.Sprintf("MinimumRequiredVersion = %q (err %v), want %q for features %s", got, err, want, describe(c)),
				Case: c, Expected: want, Actual: got}}
		}
		if g2, _ := cdi.MinimumRequiredVersion(s); g2 != want {
			return hx.Result{Outcome: "FAIL", Nontrivial: true, Fail: &hx.Failure{Rank: rank(c), Sig: "cdi.MinimumRequiredVersion:differs", Msg: "pkg/cdi wrapper differs", Case: c, Expected: want, Actual: g2}}
		}
		for _, decl := range declaredDomain {
			s.Version = decl
			err := specs.ValidateVersion(s)
			ok := released[decl] && semver.Compare("v"+decl, "v"+want) >= 0
			if (err == nil) != ok {
				return hx.Result{Outcome: "FAIL", Nontrivial: true, Fail: &hx.Failure{Rank: rank(c),
					Sig: fmt.Sprintf("validate-version:declared=%q:min=%s:impl-accepts=%v:%s", decl, want, err == nil, describe(c)),
					Msg:  fmt.Sprintf("ValidateVersion with declared %q and minimum %s: err=%v, want accept=%v", decl, want, err, ok), Case: c, Expected: ok, Actual: fmt.Sprint(err)}}
			}
		}
		for _, decl := range noPanicOnly {
			s.Version = decl
			_ = specs.ValidateVersion(s)
		}
		return hx.Result{Outcome: pre + "min=" + want, Nontrivial: len(describe(c)) > 0}
	})
}

func perms(n int) [][]int {
	if n == 0 {
		return [][]int{{}}
	}
	var out [][]int
	var rec func(cur []int, used int)
	rec = func(cur []int, used int) {
		if len(cur) == n {
			out = append(out, append([]int{}, cur...))
			return
		}
		for i := 0; i < n; i++ {
			if used&(1<<i) == 0 {
				rec(append(cur, i), used|1<<i)
			}
		}
	}
	rec(nil, 0)
	return out
}

// space describes all cases for n devices as (size, index -> case), so that the large spaces are
// streamed instead of being kept in memory. full: every feature takes every subset of its
// positions of size <= 2; otherwise every feature is absent or placed once.
func space(n int, full bool) (int64, func(i int64) Case) {
	editOpts := func() []int { // masks over n+1 positions
		var o []int
		for m := 0; m < 1<<(n+1); m++ {
			if popcount(m) <= 1 || (full && popcount(m) <= 2) {
				o = append(o, m)
			}
		}
		return o
	}()
	devOpts := func() []int {
		var o []int
		for m := 0; m < 1<<n; m++ {
			if popcount(m) <= 1 || (full && popcount(m) <= 2) {
				o = append(o, m<<1)
			}
		}
		return o
	}()
	radix := []int{}
	for range editFeatures {
		radix = append(radix, len(editOpts))
	}
	for range devFeatures {
		radix = append(radix, len(devOpts))
	}
	radix = append(radix, 2, 1+len(dottedKinds), 2)
	ps := perms(n)
	np := int64(len(ps))
	return hx.Product(radix) * np, func(i int64) Case {
		d := hx.Digits(i/np, radix)
		place := map[string]int{}
		for k, f := range editFeatures {
			place[f] = editOpts[d[k]]
		}
		for k, f := range devFeatures {
			place[f] = devOpts[d[len(editFeatures)+k]]
		}
		place["specAnnotations"] = d[len(d)-3]
		place["dottedClass"] = d[len(d)-2]
		return Case{N: n, Place: place, Perm: ps[i%np], EmptyAnn: d[len(d)-1] == 1}
	}
}

func popcount(m int) int {
	n := 0
	for ; m != 0; m &= m - 1 {
		n++
	}
	return n
}

func main() {
	r := hx.Start("C06", "model_checking")
	if r.Replay != "" {
		var c Case
		r.LoadReplay(&c)
		hx.ReplayExit("C06", eval(c))
	}
	// histories on one object: every ordered pair of the (n=2, identity order) cases that use at most
	// one feature at one position, plus every third case preceded by its neighbour in the enumeration
	var small []Case
	{
		total, at := space(2, true)
		for i := int64(0); i < total; i++ {
			if c := at(i); c.Perm[0] == 0 && rank(c) <= 12 {
				small = append(small, c)
			}
		}
	}
	r.Rule = "every assignment of the 8 version-gated features to position sets (spec level / device k of n, n<=3; each feature at " +
		map[bool]string{true: "<=2 positions", false: "<=1 position (n=3) or <=2 (n<=2)"}[r.Thorough()] + ") x every device permutation x " +
		fmt.Sprintf("%d declared version strings; each edits block also carries an untyped mount and a host-path-less device node as controls, and in half of the cases every annotations member that is not a placed feature is present but empty; ", len(declaredDomain)) +
		"then histories of two contents held by ONE Spec object (asked, overwritten in place, asked again): all ordered pairs of the single-feature cases and every third case after its neighbour; every third case also with a null entry at the start and at the end of every mounts / deviceNodes list, every third with edits blocks that hold nothing but the placed features; " +
		"oracle = literal feature->version table, maximum by semver. Cases distinct by construction; non-trivial = at least one feature used"
	r.Assumptions = []string{"v-prefixed declared versions are only checked for absence of panics (statement does not define them)", "more than 3 devices are not enumerated"}
	record := func(l *hx.Local, c Case) {
		res := eval(c)
		l.Record(res, func() any { return map[string]any{"devices": c.N, "order": c.Perm, "features": describe(c), "result": res.Outcome} })
	}
	var nCases, nHist, nNull, nBare atomic.Int64
	for _, sp := range []struct {
		n    int
		full bool
	}{{0, true}, {1, true}, {2, true}, {3, r.Thorough()}} {
		total, at := space(sp.n, sp.full)
		r.ParallelL(total, func(i int64, l *hx.Local) {
			c := at(i)
			record(l, c)
			nCases.Add(1)
			if i%3 == 1 {
				p := at(i - 1)
				c.Prev = &p
				record(l, c)
				nHist.Add(1)
			}
			if i%3 == 2 {
				c.Nulls = true
				record(l, c)
				nNull.Add(1)
			}
			if i%3 == 0 {
				c.Bare = true
				record(l, c)
				nBare.Add(1)
			}
		})
	}
	r.ParallelL(int64(len(small)*len(small)), func(k int64, l *hx.Local) {
		c, p := small[k%int64(len(small))], small[k/int64(len(small))]
		c.Prev = &p
		record(l, c)
		nHist.Add(1)
	})
	r.Extra["same_object_histories"] = nHist.Load()
	r.Extra["cases_with_null_list_entries"] = nNull.Load()
	r.Extra["cases_with_bare_edits_blocks"] = nBare.Load()
	r.Extra["declared_versions_per_case"] = len(declaredDomain)
	r.Extra["version_validations"] = (nCases.Load() + nHist.Load() + nNull.Load() + nBare.Load()) * int64(len(declaredDomain))
	r.Finish()
}
