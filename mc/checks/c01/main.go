// C01 — device resolution follows Spec-directory precedence.
// Explicit-state exploration on the real cache: states are assignments of file kinds to the
// slots of 2 (thorough: 3) directories; transitions set one slot to another kind, each
// followed by Refresh on a cache that lives across the transition; the oracle (precedence
// model) is evaluated in every state and the state reached along the path is compared with
// a cache built fresh on the same directories.
package main

import (
	"syscall"
	"reflect"
	"fmt"
	"os"
	"path/filepath"
	"strings"
	"sync"
	"time"

	"tags.cncf.io/container-device-interface/pkg/cdi"
	"verif/mc/dirmodel"
	"verif/mc/hx"
)

var slotNames = []string{"a.yaml", ".b.json"} // the second one is a hidden file: a Spec file all the same
var kinds = []dirmodel.Kind{dirmodel.Absent, dirmodel.X, dirmodel.XY, dirmodel.Y, dirmodel.V2, dirmodel.Syn, dirmodel.Sem}

type slot struct{ dir, name string }

type Case struct {
	Phase   string            `json:"phase"`
	DirList []string          `json:"directory_list"`
	State   map[string]string `json:"state"`
	Step    string            `json:"transition,omitempty"`
	Then    map[string]string `json:"state_after,omitempty"`
}

type world struct {
	root  string
	dirs  []string // short names of real directories d0..dn
	slots []slot
}

func (w *world) abs(d string) string { return filepath.Clean(filepath.Join(w.root, d)) }

func (w *world) tree(digits []int) *dirmodel.Tree {
	t := dirmodel.NewTree()
	for i, s := range w.slots {
		t.Set(s.dir, s.name, kinds[digits[i]])
	}
	return t
}

func stateMap(t *dirmodel.Tree) map[string]string {
	m := map[string]string{}
	for d, fs := range t.Files {
		for n, k := range fs {
			m[d+"/"+n] = k.String()
		}
	}
	return m
}

func (w *world) reset() {
	_ = os.RemoveAll(w.root)
	for _, d := range w.dirs {
		_ = os.MkdirAll(filepath.Join(w.root, d), 0o755)
	}
	// decoys that must be ignored, in the highest directory
	top := filepath.Join(w.root, w.dirs[len(w.dirs)-1])
	decoy := dirmodel.Content(dirmodel.X, "x.json", "decoy")
	decoy = []byte(strings.ReplaceAll(string(decoy), `"name":"x"`, `"name":"decoy"`))
	for _, n := range []string{"README", "c.txt", "spec.1.tmp", "noext", "x.yml", "x.json.bak", ".yaml.swp"} {
		_ = os.WriteFile(filepath.Join(top, n), decoy, 0o644)
	}
	_ = os.MkdirAll(filepath.Join(top, "sub"), 0o755)
	_ = os.WriteFile(filepath.Join(top, "sub", "x.json"), decoy, 0o644)
	_ = os.MkdirAll(filepath.Join(top, "dir.yaml"), 0o755)
	_ = os.WriteFile(filepath.Join(top, "dir.yaml", "x.json"), decoy, 0o644)
	// entries that are not regular files and whose names sort before every Spec file: a FIFO and a
	// socket without a Spec extension (to be ignored like any other non-Spec name), in every
	// directory; a walk that gives up or skips the rest of the directory at one of them shows
	for _, d := range w.dirs {
		_ = syscall.Mkfifo(filepath.Join(w.root, d, "+early-fifo"), 0o644)
		_ = syscall.Mknod(filepath.Join(w.root, d, "+early-socket"), syscall.S_IFSOCK|0o644, 0)
	}
}

func (w *world) newCache(list []string) *cdi.Cache {
	var paths []string
	for _, d := range list {
		paths = append(paths, filepath.Join(w.root, d))
	}
	opt, reuse := dirmodel.Dirs(paths...)
	c, _ := cdi.NewCache(opt, cdi.WithAutoRefresh(false))
	reuse() // the caller's slice of directories is used for something else from here on
	return c
}

// explain builds a failure signature that identifies the class of population that fails.
func explain(what string, list []string, t *dirmodel.Tree, obs dirmodel.Observation, want dirmodel.Resolution) string {
	if what != "ListDevices" && !strings.HasPrefix(what, "GetDevice") {
		return what
	}
	// first device on which model and implementation differ
	names := map[string]bool{}
	for _, q := range obs.Devices {
		names[q] = true
	}
	for q := range want.Devices {
		names[q] = true
	}
	for _, q := range sortedKeys(names) {
		w, inModel := want.Devices[q]
		p, inImpl := obs.Paths[q]
		if inModel == inImpl && (!inModel || (p == w.Path && obs.Prios[q] == w.Priority)) {
			continue
		}
		// number of valid definitions of q per list position
		counts := make([]int, len(list))
		for pos, d := range list {
			for name, k := range t.Files[d] {
				if !dirmodel.IsSpecName(name) || !dirmodel.Valid(k) {
					continue
				}
				for _, dq := range dirmodel.Devices(k) {
					if dq == q {
						counts[pos]++
					}
				}
			}
		}
		m, i := "unresolved", "unresolved"
		if inModel {
			m = fmt.Sprintf("pos%d", w.Priority)
		}
		if inImpl {
			i = fmt.Sprintf("pos%d", obs.Prios[q])
			if inModel && obs.Prios[q] == w.Priority && p != w.Path {
				i += "-other-file"
			}
		}
		return fmt.Sprintf("resolution:definitions-per-position=%v:model=%s:impl=%s", counts, m, i)
	}
	return what
}

func sortedKeys(m map[string]bool) []string {
	var k []string
	for s := range m {
		k = append(k, s)
	}
	for i := range k {
		for j := i + 1; j < len(k); j++ {
			if k[j] < k[i] {
				k[i], k[j] = k[j], k[i]
			}
		}
	}
	return k
}

// verify checks one cache against the model in one state.
func verify(r *hx.Run, phase string, w *world, list []string, t *dirmodel.Tree, c *cdi.Cache, step string, prev *dirmodel.Tree) (ok bool) {
	defer func() {
		if p := recover(); p != nil {
			cs := Case{Phase: phase, DirList: list, State: stateMap(t), Step: step}
			r.Fail(&hx.Failure{Sig: "panic-in-a-query", Msg: fmt.Sprintf("%s: a query panicked (the caller had overwritten the slices and maps of earlier answers): %v", phase, p), Case: cs, Rank: int64(len(t.Key()))})
			ok = false
		}
	}()
	want := dirmodel.Resolve(list, t, w.abs)
	obs := dirmodel.Observe(c)
	mk := func() Case {
		cs := Case{Phase: phase, DirList: list, State: stateMap(t), Step: step}
		if prev != nil {
			cs.State, cs.Then = stateMap(prev), stateMap(t)
		}
		return cs
	}
	if ok, what, detail := obs.Check(want); !ok {
		r.Fail(&hx.Failure{Sig: explain(what, list, t, obs, want), Msg: phase + ": " + detail, Case: mk(), Expected: want, Actual: obs, Rank: int64(len(t.Key()))})
		return false
	}
	// the caller owns what it was handed: Observe overwrote / cleared every slice and map it got, and
	// AliasProbe does so once more per listing; the cache must keep answering as before
	if api, detail := dirmodel.AliasProbe(c); api != "" {
		r.Fail(&hx.Failure{Sig: "answer-follows-the-callers-modification:" + api, Msg: phase + ": " + detail, Case: mk(), Rank: int64(len(t.Key()))})
		return false
	}
	if again := dirmodel.Observe(c); !again.SameAnswers(obs) || !reflect.DeepEqual(again.ErrPaths, obs.ErrPaths) {
		r.Fail(&hx.Failure{Sig: "answers-change-after-the-caller-modified-earlier-answers", Msg: phase + ": a second round of queries (no refresh, nothing changed) differs from the first after the caller overwrote the slices and maps it had been handed", Case: mk(), Expected: obs, Actual: again, Rank: int64(len(t.Key()))})
		return false
	}
	// devices that must not resolve
	for _, q := range []string{dirmodel.Kind1 + "=x", dirmodel.Kind1 + "=y", dirmodel.Kind2 + "=x", dirmodel.Kind1 + "=decoy"} {
		if _, should := want.Devices[q]; !should && c.GetDevice(q) != nil {
			r.Fail(&hx.Failure{Sig: "GetDevice-resolves-unlisted", Msg: phase + ": GetDevice(" + q + ") != nil although unresolvable", Case: mk(), Rank: int64(len(t.Key()))})
			return false
		}
	}
	return true
}

func main() {
	r := hx.Start("C01", "model_checking")
	base, err := os.MkdirTemp("/dev/shm", "verif-c01-")
	if err != nil {
		base, _ = os.MkdirTemp("", "verif-c01-")
	}
	defer os.RemoveAll(base)
	ndirs := 2
	if r.Thorough() {
		ndirs = 3
	} else {
		// symbolic links to valid Spec files are Spec files too (thorough keeps the three-directory
		// product at seven kinds and has the link kind in the many-definitions phase)
		kinds = append(kinds, dirmodel.LnX)
	}
	mkWorld := func(id string, n int) *world {
		w := &world{root: filepath.Join(base, id)}
		for d := 0; d < n; d++ {
			w.dirs = append(w.dirs, fmt.Sprintf("d%d", d))
			for _, s := range slotNames {
				w.slots = append(w.slots, slot{fmt.Sprintf("d%d", d), s})
			}
		}
		w.reset()
		return w
	}
	if r.Replay != "" {
		var c Case
		r.LoadReplay(&c)
		w := mkWorld("replay", 3)
		parse := func(m map[string]string) *dirmodel.Tree {
			t := dirmodel.NewTree()
			for k, v := range m {
				p := strings.SplitN(k, "/", 2)
				for i, n := range dirmodel.KindNames {
					if n == v {
						t.Set(p[0], p[1], dirmodel.Kind(i))
					}
				}
			}
			return t
		}
		t0 := parse(c.State)
		_ = t0.Materialise(w.root, w.dirs)
		cache := w.newCache(c.DirList)
		if c.Phase == "dir-list-shape-reconfigured" {
			cache = w.newCache([]string{"d1", "d0"})
			_ = cache.ListDevices()
			var paths []string
			for _, d := range c.DirList {
				paths = append(paths, filepath.Join(w.root, d))
			}
			opt, reuse := dirmodel.Dirs(paths...)
			_ = cache.Configure(opt)
			reuse()
		}
		t1 := t0
		if c.Then != nil {
			t1 = parse(c.Then)
			for _, s := range w.slots {
				_ = dirmodel.WriteSlot(w.root, s.dir, s.name, t1.Get(s.dir, s.name))
			}
			_ = cache.Refresh()
		}
		verify(r, c.Phase, w, c.DirList, t1, cache, c.Step, nil)
		n := r.Failed()
		os.RemoveAll(base)
		if n > 0 {
			fmt.Println("replay: still FAILS")
			fmt.Println("VIOLATION property=C01 replay=(replayed)")
			os.Exit(1)
		}
		fmt.Println("replay: case passes now")
		os.Exit(0)
	}

	nslots := ndirs * len(slotNames)
	radix := make([]int, nslots)
	for i := range radix {
		radix[i] = len(kinds)
	}
	total := hx.Product(radix)
	var list []string
	for d := 0; d < ndirs; d++ {
		list = append(list, fmt.Sprintf("d%d", d))
	}

	t0 := time.Now()
	// --- phase A: every state, every transition, cache alive across the transition
	nw := 16
	pool := make(chan *world, nw)
	for i := 0; i < nw; i++ {
		pool <- mkWorld(fmt.Sprintf("w%d", i), ndirs)
	}
	var mu sync.Mutex
	seenStates := map[string]bool{}
	r.ParallelL(total, func(i int64, l *hx.Local) {
		w := <-pool
		defer func() { pool <- w }()
		digits := hx.Digits(i, radix)
		t := w.tree(digits)
		for _, s := range w.slots {
			_ = dirmodel.WriteSlot(w.root, s.dir, s.name, t.Get(s.dir, s.name))
		}
		c := w.newCache(list)
		okAll := verify(r, "fresh", w, list, t, c, "", nil)
		r.States.Add(1)
		for si, s := range w.slots {
			for ki := range kinds {
				if ki == digits[si] {
					continue
				}
				t2 := t.Clone()
				t2.Set(s.dir, s.name, kinds[ki])
				_ = dirmodel.WriteSlot(w.root, s.dir, s.name, kinds[ki])
				_ = c.Refresh()
				step := fmt.Sprintf("%s/%s: %s -> %s", s.dir, s.name, kinds[digits[si]], kinds[ki])
				ok := verify(r, "after-transition", w, list, t2, c, step, t)
				// differential: a cache built fresh on the same directories answers the same
				if ok && !dirmodel.Observe(w.newCache(list)).SameAnswers(dirmodel.Observe(c)) {
					r.Fail(&hx.Failure{Sig: "path-dependence", Msg: "cache refreshed along a path differs from a fresh cache on the same directories",
						Case: Case{Phase: "after-transition", DirList: list, State: stateMap(t), Step: step, Then: stateMap(t2)}})
					ok = false
				}
				// and back
				_ = dirmodel.WriteSlot(w.root, s.dir, s.name, kinds[digits[si]])
				_ = c.Refresh()
				// (the way back is itself the transition (t2 -> t) visited from state t2: not verified twice)
				r.Transitions.Add(1)
				okAll = okAll && ok
			}
		}
		out := "holds"
		if !okAll {
			out = "FAIL"
		}
		want := dirmodel.Resolve(list, t, w.abs)
		nontrivial := len(want.Devices) > 0 || len(want.Invalid) > 0
		l.Record(hx.Result{Outcome: fmt.Sprintf("%s:%d-devices-resolve,%d-invalid", out, len(want.Devices), len(want.Invalid)), Nontrivial: nontrivial},
			func() any { return map[string]any{"state": stateMap(t), "model": want.DeviceNames()} })
		if i%97 == 0 {
			mu.Lock()
			seenStates[t.Key()] = true
			mu.Unlock()
		}
	})

	r.Extra["phaseA_wall_s"] = time.Since(t0).Seconds()
	// --- phase B: one cache object walking through every state (reflected Gray code: one slot changes per step)
	{
		w := mkWorld("walk", ndirs)
		c := w.newCache(list)
		digits := make([]int, nslots)
		dirn := make([]int, nslots)
		for i := range dirn {
			dirn[i] = 1
		}
		cur := w.tree(digits)
		steps := int64(0)
		for !r.Expired() {
			// find the lowest slot that can move in its direction
			k := 0
			for k < nslots && (digits[k]+dirn[k] < 0 || digits[k]+dirn[k] >= len(kinds)) {
				dirn[k] = -dirn[k]
				k++
			}
			if k == nslots {
				break
			}
			prev := cur.Clone()
			digits[k] += dirn[k]
			s := w.slots[k]
			cur.Set(s.dir, s.name, kinds[digits[k]])
			_ = dirmodel.WriteSlot(w.root, s.dir, s.name, kinds[digits[k]])
			_ = c.Refresh()
			verify(r, "long-walk", w, list, cur, c, fmt.Sprintf("step %d: %s/%s -> %s", steps, s.dir, s.name, kinds[digits[k]]), prev)
			steps++
			r.Transitions.Add(1)
		}
		r.Extra["long_walk_steps_one_cache"] = steps
		r.AddEvals(steps, steps)
	}

	r.Extra["phaseAB_wall_s"] = time.Since(t0).Seconds()
	// --- phase C: directory-list shapes on the {absent, X, SYN}^slots sub-space of two directories
	{
		w := mkWorld("shapes", 2)
		shapes := [][]string{{"d0", "d1"}, {"d1", "d0"}, {"d0", "d0"}, {"d0", "d1", "d0"}, {"missing", "d1"}, {"d1", "missing"}, {"d0", "missing", "d1"}, {},
			{"d0/", "d1/."}, {"d0/../d0", "./d1"}, {"d0", "d1", "d1", "d0", "d1"}, {"d1"}, {"missing"}}
		sub := []dirmodel.Kind{dirmodel.Absent, dirmodel.X, dirmodel.Syn, dirmodel.XY}
		n := 1
		for range w.slots {
			n *= len(sub)
		}
		shapeCases := int64(0)
		for i := 0; i < n; i++ {
			t := dirmodel.NewTree()
			x := i
			for _, s := range w.slots {
				t.Set(s.dir, s.name, sub[x%len(sub)])
				_ = dirmodel.WriteSlot(w.root, s.dir, s.name, sub[x%len(sub)])
				x /= len(sub)
			}
			for _, sh := range shapes {
				// model positions use the cleaned short names
				var ml []string
				for _, d := range sh {
					ml = append(ml, filepath.Clean(d))
				}
				c := w.newCache(sh)
				verify(r, "dir-list-shape", w, ml, t, c, "configured as "+fmt.Sprint(sh), nil)
				_ = c.Refresh()
				verify(r, "dir-list-shape-refreshed", w, ml, t, c, "configured as "+fmt.Sprint(sh), nil)
				// the same list given to a cache with a past: it served the two directories in the other
				// order before (the empty list must then empty it, a shorter list must drop the rest)
				past := w.newCache([]string{"d1", "d0"})
				_ = past.ListDevices()
				var paths []string
				for _, d := range sh {
					paths = append(paths, filepath.Join(w.root, d))
				}
				opt, reuse := dirmodel.Dirs(paths...)
				_ = past.Configure(opt)
				reuse()
				verify(r, "dir-list-shape-reconfigured", w, ml, t, past, "a cache of [d1 d0] reconfigured as "+fmt.Sprint(sh), nil)
				shapeCases++
			}
		}
		r.Extra["directory_list_shape_cases"] = shapeCases
		r.AddEvals(shapeCases, shapeCases)
		r.States.Add(int64(n))
	}

	// --- phase D: many definitions of one device at one priority (3, 4, 5 files in the top directory)
	{
		w := &world{root: filepath.Join(base, "many"), dirs: []string{"d0", "d1"}}
		w.slots = append(w.slots, slot{"d0", "a.yaml"})
		for _, n := range []string{"a.yaml", "b.json", "c.yaml", "d.json", "e.yaml"} {
			w.slots = append(w.slots, slot{"d1", n})
		}
		w.reset()
		sub := []dirmodel.Kind{dirmodel.Absent, dirmodel.X, dirmodel.XY, dirmodel.Y, dirmodel.LnX, dirmodel.HardX}
		lowKinds := []dirmodel.Kind{dirmodel.Absent, dirmodel.X, dirmodel.XY}
		n := len(lowKinds)
		for range w.slots[1:] {
			n *= len(sub)
		}
		walker := w.newCache(w.dirs)
		many := int64(0)
		for i := 0; i < n && !r.Expired(); i++ {
			t := dirmodel.NewTree()
			x := i
			for si, s := range w.slots {
				ks := sub
				if si == 0 {
					ks = lowKinds
				}
				t.Set(s.dir, s.name, ks[x%len(ks)])
				_ = dirmodel.WriteSlot(w.root, s.dir, s.name, ks[x%len(ks)])
				x /= len(ks)
			}
			verify(r, "many-definitions", w, w.dirs, t, w.newCache(w.dirs), "fresh cache", nil)
			_ = walker.Refresh()
			verify(r, "many-definitions-one-cache", w, w.dirs, t, walker, "cache refreshed from the previous state", nil)
			many++
		}
		r.Extra["many_definition_states"] = many
		r.AddEvals(many, many)
		r.States.Add(many)
	}

	r.Rule = fmt.Sprintf("states = all assignments of %d file kinds %v to the slots %v of %d directories (%d states); transitions = set one slot to another kind followed by Refresh() on the cache that was refreshed in the previous state, and back (every (state, transition) pair); "+
		"a single cache also walks through all states in Gray-code order; 13 directory-list shapes (reversed, repeated, missing, empty, non-clean spellings) on a %d-state sub-space; up to five files in the top directory defining the same devices (3 x 6^5 states incl. symbolic links to valid Specs and several hard links to one file, fresh cache and one cache refreshed through all of them); decoy files (non-Spec names, sub-directory, directory named dir.yaml) sit in the top directory. "+
		"Oracle: precedence model computed from the abstract population (dirmodel.Resolve) for ListDevices, GetDevice path/priority/definition, ListVendors, ListClasses, GetVendorSpecs, GetErrors containing every invalid file; equality with a fresh cache. "+
		"distinct_nontrivial counts distinct states in which at least one device resolves or one file is invalid", len(kinds), kinds, slotNames, ndirs, total, 256)
	r.Assumptions = []string{"manual-refresh configuration; the automatic-refresh configuration of the same transitions is explored under the controlled scheduler in C11",
		"conflict bookkeeping in GetErrors is not constrained, only that every invalid file has an entry", "more than 2 slots per directory are enumerated for the top directory only (phase D, 5 slots, valid kinds); more than 3 directories are not enumerated"}
	os.RemoveAll(base)
	r.Finish()
}
