// C13 — a bad Spec file or directory affects only itself and is reported.
// Engine A part: every placement of bad directories (missing, a regular file, a path with a
// non-directory ancestor) in directory lists of length <=3 and of bad files (syntax error,
// semantic error, empty, dangling link) in every slot, then every single repair followed by
// a refresh on the same cache (depth 2). Fault placements that need interleaving with the
// scan (vanishing files, unreadable files/directories) are explored by the Engine B part
// (checks/c13/faults, built with the overlay) when available.
package main

import (
	"encoding/json"
	"fmt"
	"os"
	"os/exec"
	"path/filepath"
	"reflect"
	"sort"
	"strings"
	"sync/atomic"

	"tags.cncf.io/container-device-interface/pkg/cdi"
	"verif/mc/dirmodel"
	"verif/mc/hx"
)

var slotNames = []string{"a.json", "b.yaml"}

// position kinds of the directory list
var posKinds = []string{"good", "missing", "regular-file", "non-dir-ancestor"}

var fileKinds = []dirmodel.Kind{dirmodel.Absent, dirmodel.X, dirmodel.Y, dirmodel.V2, dirmodel.Syn, dirmodel.Sem, dirmodel.Empty, dirmodel.Dangling}

type Case struct {
	Positions []string          `json:"directory_list_kinds"`
	Files     map[string]string `json:"files"`
	Repairs   []string          `json:"repairs,omitempty"`
}

type world struct{ root string }

func (w *world) abs(d string) string { return filepath.Clean(filepath.Join(w.root, d)) }

// dirName returns the short directory name used for list position i of kind k.
func dirName(i int, k string) string {
	switch k {
	case "good":
		return fmt.Sprintf("d%d", i)
	case "missing":
		return fmt.Sprintf("missing%d", i)
	case "regular-file":
		return "notadir"
	default:
		return "notadir/sub"
	}
}

func (w *world) reset() {
	_ = os.RemoveAll(w.root)
	_ = os.MkdirAll(w.root, 0o755)
	_ = os.WriteFile(filepath.Join(w.root, "notadir"), []byte("i am a file"), 0o644)
}

type state struct {
	pos  []string
	list []string
	tree *dirmodel.Tree
}

func (s *state) caseOf(repairs []string) Case {
	m := map[string]string{}
	for d, fs := range s.tree.Files {
		for n, k := range fs {
			m[d+"/"+n] = k.String()
		}
	}
	return Case{Positions: s.pos, Files: m, Repairs: repairs}
}

func sameDirConflict(a, b dirmodel.Kind) bool {
	for _, x := range dirmodel.Devices(a) {
		for _, y := range dirmodel.Devices(b) {
			if x == y {
				return true
			}
		}
	}
	return false
}

// check evaluates the oracle on one cache in one state. refreshErr is the error of the
// Refresh that produced the state (nil pointer = not applicable: construction).
// harnessRepairs counts the times a population had to be written again because the disk did not hold it
var harnessRepairs atomic.Int64

func check(r *hx.Run, w *world, s *state, c *cdi.Cache, refreshed bool, refreshErr error, repairs []string) (held bool) {
	defer func() {
		if p := recover(); p != nil {
			r.Fail(&hx.Failure{Sig: "panic-in-a-query", Msg: fmt.Sprintf("a query panicked (the caller had overwritten the slices and maps of earlier answers): %v", p), Case: s.caseOf(repairs), Rank: int64(len(s.list)*100 + len(s.tree.Key()))})
			held = false
		}
	}()
	want := dirmodel.Resolve(s.list, s.tree, w.abs)
	obs := dirmodel.Observe(c)
	rank := int64(len(s.list)*100 + len(s.tree.Key()))
	sigCtx := func() string {
		// which bad things are present: signature material
		bad := map[string]bool{}
		for _, p := range s.pos {
			if p != "good" {
				bad["dir:"+p] = true
			}
		}
		for _, fs := range s.tree.Files {
			for _, k := range fs {
				if !dirmodel.Valid(k) {
					bad["file:"+k.String()] = true
				}
			}
		}
		var l []string
		for b := range bad {
			l = append(l, b)
		}
		sort.Strings(l)
		return strings.Join(l, ",")
	}
	fail := func(sig, msg string) bool {
		r.Fail(&hx.Failure{Sig: sig + ":" + sigCtx(), Msg: msg, Case: s.caseOf(repairs), Expected: want, Actual: obs, Rank: rank})
		return false
	}
	if ok, what, detail := obs.Check(want); !ok {
		// before the library is blamed: is the disk in the state the model describes? (seen once, on a
		// machine running several sweeps at once: a slot that did not hold what had been written to it)
		if same, which := s.tree.DiskMatches(w.root); !same {
			harnessRepairs.Add(1)
			fmt.Printf("NOTE: the harness found slot %s not in the modelled state; rewriting the population and asking again\n", which)
			for d, fs := range s.tree.Files {
				for n, k := range fs {
					_ = dirmodel.WriteSlot(w.root, d, n, k)
				}
			}
			_ = c.Refresh()
			obs = dirmodel.Observe(c)
			if ok2, what2, detail2 := obs.Check(want); !ok2 {
				return fail("isolation:"+what2, detail2)
			}
		} else {
			return fail("isolation:"+what, detail)
		}
	}
	// the caller owns the slices and maps it was handed (Observe overwrote / cleared them): the
	// report and the listings must not follow
	if api, detail := dirmodel.AliasProbe(c); api != "" {
		return fail("answer-follows-the-callers-modification:"+api, detail)
	}
	if again := dirmodel.Observe(c); !again.SameAnswers(obs) || !reflect.DeepEqual(again.ErrPaths, obs.ErrPaths) {
		return fail("answers-change-after-the-caller-modified-earlier-answers", fmt.Sprintf("a second round of queries (nothing changed, no refresh) differs from the first after the caller overwrote the slices and maps it had been handed: error entries %v, before %v", again.ErrPaths, obs.ErrPaths))
	}
	// no stale / spurious file entries: every Spec-file path reported in error is an invalid file of the model
	inv := map[string]bool{}
	for _, p := range want.Invalid {
		inv[p] = true
	}
	for _, p := range obs.ErrPaths {
		if dirmodel.IsSpecName(filepath.Base(p)) && !inv[p] {
			return fail("stale-or-spurious-error-entry", "error entry for "+p+" which is not a failing Spec file of the current population")
		}
	}
	if refreshed {
		if len(want.Invalid) > 0 && refreshErr == nil {
			return fail("refresh-returns-nil-with-file-in-error", "Refresh() returned nil although Spec files are in error: "+fmt.Sprint(want.Invalid))
		}
		allReadableOrAbsent := true
		for _, p := range s.pos {
			if p != "good" && p != "missing" {
				allReadableOrAbsent = false
			}
		}
		if len(want.Invalid) == 0 && allReadableOrAbsent && refreshErr != nil {
			return fail("refresh-error-with-everything-valid", "Refresh() returned "+refreshErr.Error()+" although every directory is readable or absent and every Spec file is valid")
		}
	}
	return true
}

func main() {
	r := hx.Start("C13", "model_checking")
	base, err := os.MkdirTemp("/dev/shm", "verif-c13-")
	if err != nil {
		base, _ = os.MkdirTemp("", "verif-c13-")
	}
	defer os.RemoveAll(base)

	// per-directory populations: all slot pairs without same-directory conflicts
	type pop [2]dirmodel.Kind
	var full, reduced []pop
	for _, a := range fileKinds {
		for _, b := range fileKinds {
			if sameDirConflict(a, b) {
				continue
			}
			full = append(full, pop{a, b})
		}
	}
	for _, p := range full {
		// reduced: one slot bad or absent, the other anything interesting
		if p[0] == dirmodel.Absent || p[1] == dirmodel.Absent || (!dirmodel.Valid(p[0]) && dirmodel.Valid(p[1]) && p[1] != dirmodel.V2) {
			reduced = append(reduced, p)
		}
	}
	// directory-list shapes
	var shapes [][]string
	var recShape func(cur []string)
	recShape = func(cur []string) {
		if len(cur) > 0 {
			shapes = append(shapes, append([]string{}, cur...))
		}
		if len(cur) == 3 {
			return
		}
		for _, k := range posKinds {
			recShape(append(cur, k))
		}
	}
	recShape(nil)

	var states []*state
	for _, sh := range shapes {
		var goodIdx []int
		for i, k := range sh {
			if k == "good" {
				goodIdx = append(goodIdx, i)
			}
		}
		pops := full
		if len(goodIdx) >= 2 && !(r.Thorough() && len(goodIdx) == 2) {
			pops = reduced
		}
		if len(goodIdx) == 3 && !r.Thorough() {
			pops = reduced[:8]
		}
		n := 1
		for range goodIdx {
			n *= len(pops)
		}
		for i := 0; i < n; i++ {
			s := &state{pos: sh, tree: dirmodel.NewTree()}
			for pi, k := range sh {
				s.list = append(s.list, dirName(pi, k))
			}
			x := i
			for _, gi := range goodIdx {
				p := pops[x%len(pops)]
				x /= len(pops)
				for si, name := range slotNames {
					s.tree.Set(dirName(gi, "good"), name, p[si])
				}
			}
			states = append(states, s)
		}
	}

	parseCase := func(c Case) *state {
		s := &state{pos: c.Positions, tree: dirmodel.NewTree()}
		for i, k := range c.Positions {
			s.list = append(s.list, dirName(i, k))
		}
		for k, v := range c.Files {
			p := strings.SplitN(k, "/", 2)
			for i, n := range dirmodel.KindNames {
				if n == v {
					s.tree.Set(p[0], p[1], dirmodel.Kind(i))
				}
			}
		}
		return s
	}

	nw := 16
	pool := make(chan *world, nw)
	for i := 0; i < nw; i++ {
		pool <- &world{root: filepath.Join(base, fmt.Sprintf("w%d", i))}
	}

	explore := func(s *state, l *hx.Local) {
		w := <-pool
		defer func() { pool <- w }()
		w.reset()
		var goodDirs []string
		for i, k := range s.pos {
			if k == "good" {
				goodDirs = append(goodDirs, dirName(i, k))
			}
		}
		_ = s.tree.Materialise(w.root, goodDirs)
		var paths []string
		for _, d := range s.list {
			paths = append(paths, filepath.Join(w.root, d))
		}
		opt, reuse := dirmodel.Dirs(paths...)
		c, _ := cdi.NewCache(opt, cdi.WithAutoRefresh(false))
		reuse()
		ok := check(r, w, s, c, false, nil, nil)
		rerr := c.Refresh()
		ok = check(r, w, s, c, true, rerr, nil) && ok
		// the same population seen by a cache in automatic-refresh mode (the default), queried and
		// explicitly refreshed: same isolation, same error report, same Refresh() verdict
		opt2, reuse2 := dirmodel.Dirs(paths...)
		ca, _ := cdi.NewCache(opt2, cdi.WithAutoRefresh(true))
		reuse2()
		ok = check(r, w, s, ca, false, nil, nil) && ok
		aerr := ca.Refresh()
		ok = check(r, w, s, ca, true, aerr, nil) && ok
		_ = ca.Configure(cdi.WithAutoRefresh(false))
		r.States.Add(1)
		// repairs: every bad file is repaired in every way; every missing directory is created with a valid file; depth 2
		type repair struct {
			desc string
			do   func(st *state)
		}
		repairsOf := func(st *state) []repair {
			var out []repair
			for _, d := range goodDirs {
				for _, name := range slotNames {
					k := st.tree.Get(d, name)
					if k != dirmodel.Absent && !dirmodel.Valid(k) {
						d, name := d, name
						out = append(out, repair{"remove " + d + "/" + name, func(st *state) {
							st.tree.Set(d, name, dirmodel.Absent)
							_ = dirmodel.WriteSlot(w.root, d, name, dirmodel.Absent)
						}})
						// replace by a valid kind that does not conflict inside the directory
						for _, nk := range []dirmodel.Kind{dirmodel.X, dirmodel.V2} {
							other := st.tree.Get(d, slotNames[0])
							if name == slotNames[0] {
								other = st.tree.Get(d, slotNames[1])
							}
							if sameDirConflict(nk, other) {
								continue
							}
							nk := nk
							out = append(out, repair{fmt.Sprintf("rewrite %s/%s as %s", d, name, nk), func(st *state) {
								st.tree.Set(d, name, nk)
								_ = dirmodel.WriteSlot(w.root, d, name, nk)
							}})
							break
						}
					}
				}
			}
			for i, k := range st.pos {
				if k == "missing" {
					d := dirName(i, k)
					if len(st.tree.Files[d]) == 0 {
						out = append(out, repair{"create " + d + " with a valid Spec", func(st *state) {
							st.tree.Set(d, "new.json", dirmodel.Y)
							_ = dirmodel.WriteSlot(w.root, d, "new.json", dirmodel.Y)
						}})
					}
				}
			}
			return out
		}
		var dfs func(st *state, depth int, trail []string)
		dfs = func(st *state, depth int, trail []string) {
			if depth == 2 {
				return
			}
			n := len(repairsOf(st))
			for ri := 0; ri < n; ri++ {
				// rebuild the disk to st (repairs mutate it), then apply repair ri
				st2 := &state{pos: st.pos, list: st.list, tree: st.tree.Clone()}
				for _, d := range append(append([]string{}, goodDirs...), missingDirs(st)...) {
					for _, name := range append(append([]string{}, slotNames...), "new.json") {
						_ = dirmodel.WriteSlot(w.root, d, name, st.tree.Get(d, name))
					}
				}
				for _, d := range missingDirs(st) {
					if len(st.tree.Files[d]) == 0 {
						_ = os.RemoveAll(filepath.Join(w.root, d))
					}
				}
				_ = c.Refresh()
				rp := repairsOf(st2)[ri]
				rp.do(st2)
				e := c.Refresh()
				t2 := append(append([]string{}, trail...), rp.desc)
				ok = check(r, w, st2, c, true, e, t2) && ok
				r.Transitions.Add(1)
				dfs(st2, depth+1, t2)
			}
		}
		dfs(s, 0, nil)
		want := dirmodel.Resolve(s.list, s.tree, w.abs)
		bad := len(want.Invalid)
		for _, p := range s.pos {
			if p != "good" {
				bad++
			}
		}
		out := "holds"
		if !ok {
			out = "FAIL"
		}
		l.Record(hx.Result{Outcome: fmt.Sprintf("%s:%d-bad-elements,%d-devices", out, bad, len(want.Devices)), Nontrivial: bad > 0},
			func() any { return s.caseOf(nil) })
	}

	if r.Replay != "" {
		var c Case
		r.LoadReplay(&c)
		l := &hx.Local{}
		_ = l
		s := parseCase(c)
		r.ParallelL(1, func(_ int64, l *hx.Local) { explore(s, l) })
		n := r.Failed()
		os.RemoveAll(base)
		if n > 0 {
			fmt.Println("replay: still FAILS\nVIOLATION property=C13 replay=(replayed)")
			os.Exit(1)
		}
		fmt.Println("replay: case passes now")
		os.Exit(0)
	}

	r.ParallelL(int64(len(states)), func(i int64, l *hx.Local) { explore(states[i], l) })
	lateUsable(r, filepath.Join(base, "late"))
	r.Extra["populations_rewritten_by_the_harness"] = harnessRepairs.Load()
	faultPart(r)
	r.Rule = fmt.Sprintf("states = directory lists of length 1..3 with every position in %v x per-directory populations of the slots %v over %v without same-directory conflicts (%d populations per directory for <=1 good directory, a %d-element reduced set for more); "+
		"transitions = every single repair (remove or rewrite a bad file, create a missing directory with a valid file) followed by Refresh on the same cache, to depth 2. "+
		"Oracle: devices/listings of the unaffected files per the precedence model, every failing existing Spec file has an error entry and no other Spec file has one, Refresh()!=nil iff a Spec file is in error (nil only required when all directories are readable or absent). "+
		"distinct_nontrivial = states with at least one bad file or directory", posKinds, slotNames, fileKinds, len(full), len(reduced))
	r.Assumptions = []string{"unreadable files/directories, descriptor exhaustion and files vanishing during the scan are explored by errno injection into every file-system call of the scan (Engine B part: lstat ENOENT; opendir EACCES/EMFILE; open ENOENT/EACCES/EMFILE; read EIO; <=1 fault per scan, thorough <=2) on two populations; a file that vanishes between lstat and read may or may not get an error entry (not constrained)",
		"no same-priority conflicts (the statement's refresh clause does not define them)", "a configured directory that is a regular file is given an extension-less name"}
	os.RemoveAll(base)
	r.Finish()
}

// lateUsable: an automatic-refresh cache is created while one configured directory is unusable
// (missing, or below a regular file), queried, and then the path is made a
// directory holding a valid Spec. The next query notices on its own (every query retries the
// watch of directories it could not watch; no file-system event is involved, so nothing here
// depends on timing): the cache must answer like a new one. Every kind of unusable path, at every
// position of lists with a usable and with another unusable directory.
func lateUsable(r *hx.Run, root string) {
	n := 0
	// (a configured path that IS a regular file gets watched as a file: its replacement by a directory is
	// announced by events, i.e. eventually - that case belongs to C11's scheduler-controlled histories)
	for _, kind := range []string{"missing", "non-dir-ancestor"} {
		for shape := 0; shape < 4; shape++ {
			_ = os.RemoveAll(root)
			good, other := filepath.Join(root, "good"), filepath.Join(root, "never-there")
			_ = os.MkdirAll(good, 0o755)
			_ = os.WriteFile(filepath.Join(good, "a.json"), dirmodel.Content(dirmodel.X, "a.json", "good/a.json"), 0o644)
			late := filepath.Join(root, "late-dir")
			switch kind {
			case "regular-file":
				_ = os.WriteFile(late, []byte("i am a file"), 0o644)
			case "non-dir-ancestor":
				_ = os.WriteFile(late, []byte("i am a file"), 0o644)
				late = filepath.Join(late, "sub")
			}
			list := [][]string{{late}, {good, late}, {late, good}, {late, other, good}}[shape]
			ca, _ := cdi.NewCache(cdi.WithSpecDirs(list...), cdi.WithAutoRefresh(true))
			_ = ca.ListDevices()
			_ = ca.GetErrors()
			// the repair
			if kind != "missing" {
				_ = os.Remove(filepath.Join(root, "late-dir"))
			}
			_ = os.MkdirAll(late, 0o755)
			_ = os.WriteFile(filepath.Join(late, "y.json"), dirmodel.Content(dirmodel.Y, "y.json", "late/y.json"), 0o644)
			got := dirmodel.Observe(ca)
			rerr := ca.Refresh()
			got2 := dirmodel.Observe(ca)
			fresh, _ := cdi.NewCache(cdi.WithSpecDirs(list...), cdi.WithAutoRefresh(false))
			want := dirmodel.Observe(fresh)
			_ = ca.Configure(cdi.WithAutoRefresh(false))
			n++
			r.AddEvals(1, 1)
			r.Outcome("late-usable-directory:picked-up")
			cs := map[string]any{"unusable_at_creation": kind, "directory_list_shape": shape, "list": list}
			if !got.SameAnswers(want) || !got2.SameAnswers(want) {
				r.Fail(&hx.Failure{Sig: "auto-refresh:directory-usable-later-not-picked-up:" + kind, Msg: fmt.Sprintf("automatic-refresh cache created while %s was %s; after the path became a directory with a valid Spec the cache lists %v (after Refresh %v), a new cache %v", late, kind, got.Devices, got2.Devices, want.Devices), Case: cs, Expected: want, Actual: got2})
			} else if rerr != nil && len(want.ErrPaths) == 0 && shape != 3 {
				r.Fail(&hx.Failure{Sig: "auto-refresh:directory-usable-later:refresh-error:" + kind, Msg: "Refresh() returns " + rerr.Error() + " although every configured directory is usable now and every Spec file valid", Case: cs})
			}
		}
	}
	r.Extra["automatic_caches_with_a_directory_that_became_usable_later"] = n
}

// faultPart runs the Engine B half (checks/c13faults, built through the overlay): errno
// injection into every file-system call of the scan.
func faultPart(r *hx.Run) {
	bin := filepath.Join(hx.VerifRoot, ".bin", "c13faults")
	if _, err := os.Stat(bin); err != nil {
		fmt.Println("INFRA: c13faults binary missing")
		os.Exit(2)
	}
	out, err := exec.Command(bin, r.Tier).Output()
	if err != nil {
		fmt.Println("INFRA: c13faults failed:", err)
		os.Exit(2)
	}
	var fo struct {
		Executions int64            `json:"executions"`
		Points     int64            `json:"points"`
		Outcomes   map[string]int64 `json:"outcomes"`
		Violations []struct {
			Sig, Msg string
			Choices  []int
			Schedule []string
			OpLog    []string
		} `json:"violations"`
		Capped    bool   `json:"capped"`
		Infra     string `json:"infra"`
		Scenarios int    `json:"scenarios"`
	}
	if err := json.Unmarshal(out, &fo); err != nil {
		fmt.Println("INFRA: c13faults output unreadable:", err)
		os.Exit(2)
	}
	if fo.Infra != "" {
		fmt.Println("INFRA:", fo.Infra)
		os.Exit(2)
	}
	if fo.Capped {
		r.Cap("fault exploration time cap")
	}
	r.AddEvals(fo.Executions, fo.Executions)
	r.Transitions.Add(fo.Points)
	for k := range fo.Outcomes {
		r.Outcome("faults: " + k)
	}
	for _, v := range fo.Violations {
		r.Fail(&hx.Failure{Sig: "faults:" + v.Sig, Msg: v.Msg, Case: map[string]any{"fault_injection": true, "choices": v.Choices, "answers": v.Schedule, "operations": v.OpLog}, Rank: int64(len(v.Choices))})
	}
	r.Extra["fault_injection_executions"] = fo.Executions
	r.Extra["fault_injection_distinct_outcomes"] = len(fo.Outcomes)
}

func missingDirs(st *state) []string {
	var out []string
	for i, k := range st.pos {
		if k == "missing" {
			out = append(out, dirName(i, k))
		}
	}
	return out
}
