#!/bin/bash
set -e
export GOFLAGS=-mod=mod GOPROXY=off GOSUMDB=off GOTOOLCHAIN=local
HERE=$(dirname "$(realpath "$0")")
ROOT=$(realpath "$HERE/../../..")
mkdir -p "$ROOT/.bin"
"$ROOT/mc/engineb-build.sh" c13faults
(cd "$ROOT/mc" && go build -o "$ROOT/.bin/c13" ./checks/c13)
