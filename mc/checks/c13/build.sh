#!/bin/bash
set -e
. "$(dirname "$(realpath "$0")")/../../goenv.sh"
HERE=$(dirname "$(realpath "$0")")
ROOT=$(realpath "$HERE/../../..")
mkdir -p "$ROOT/.bin"
"$ROOT/mc/engineb-build.sh" c13faults
(cd "$ROOT/mc" && go build -o "$ROOT/.bin/c13" ./checks/c13)
