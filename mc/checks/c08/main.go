// C08 — no untrusted input can crash the library.
// (a) type-confusion sweep over document trees (every member position x a confusion domain),
// JSON and YAML, through every reading entry point, the schema validators and injection;
// (b) every byte string up to a length bound over structural JSON/YAML bytes;
// (c) stress documents (deep nesting, aliases); (d) the same documents loaded by the
// background refresh goroutine of an auto-refresh cache in a worker subprocess.
package main

import (
	"bufio"
	"bytes"
	"fmt"
	"os"
	"os/exec"
	"path/filepath"
	"sort"
	"strings"
	"sync"
	"sync/atomic"
	"time"

	oci "github.com/opencontainers/runtime-spec/specs-go"
	"tags.cncf.io/container-device-interface/pkg/cdi"
	"tags.cncf.io/container-device-interface/pkg/parser"
	"tags.cncf.io/container-device-interface/schema"
	specs "tags.cncf.io/container-device-interface/specs-go"
	"verif/mc/gen"
	"verif/mc/hx"
)

type Case struct {
	Kind      string         `json:"kind"` // doc | bytes | stress
	Base      string         `json:"base,omitempty"`
	Mutations []gen.Mutation `json:"mutations,omitempty"`
	Doc       any            `json:"document,omitempty"`
	Bytes     []byte         `json:"bytes,omitempty"`
	Printable string         `json:"printable,omitempty"`
	Stress    string         `json:"stress,omitempty"`
	// population: N0 / N1 valid Spec files in a lower / higher directory that all define the same
	// device (and one of their own), optionally with an unparsable file between them
	N0, N1 int  `json:"files_defining_the_device_low_high,omitempty"`
	Bad    bool `json:"with_an_unparsable_file,omitempty"`
}

type worker struct {
	dir   string
	cache *cdi.Cache
	cur   atomic.Pointer[inflight] // the case being evaluated (hang detection)
}

type inflight struct {
	c     Case
	start time.Time
}

// hangAfter: a call into the library that has not returned after this long is reported as a hang
const hangAfter = 45 * time.Second

func newWorker(root string, id int) *worker {
	w := &worker{dir: filepath.Join(root, fmt.Sprintf("w%d", id))}
	_ = os.MkdirAll(w.dir, 0o755)
	w.cache, _ = cdi.NewCache(cdi.WithSpecDirs(w.dir), cdi.WithAutoRefresh(false))
	return w
}

var ociShapes = append(gen.OCIShapes(), gen.OddOCIShapes()...)

// feed pushes one byte string through every reading entry point. Returns whether it loaded.
func (w *worker) feed(data []byte, ext string, files bool) (loaded bool, inconsistency string) {
	raw, _ := cdi.ParseSpec(data)
	if raw != nil {
		_, _ = cdi.MinimumRequiredVersion(raw)
		_ = specs.ValidateVersion(raw)
		_ = schema.BuiltinSchema().Validate(raw)
		_ = schema.NopSchema().Validate(raw)
		_, _ = cdi.GenerateNameForSpec(raw)
		_, _ = cdi.GenerateNameForTransientSpec(raw, "id/../x")
	}
	_ = schema.BuiltinSchema().ValidateData(data)
	_ = schema.BuiltinSchema().ValidateReader(bytes.NewReader(data))
	_, _ = schema.BuiltinSchema().ReadAndValidate(bytes.NewReader(data))
	if !files {
		return false, ""
	}
	path := filepath.Join(w.dir, "doc"+ext)
	if err := os.WriteFile(path, data, 0o644); err != nil {
		panic(err)
	}
	defer os.Remove(path)
	_ = schema.BuiltinSchema().ValidateFile(path)
	spec, rerr := cdi.ReadSpec(path, 0)
	rfErr := w.cache.Refresh()
	errs := w.cache.GetErrors()
	devs := w.cache.ListDevices()
	_ = w.cache.ListClasses()
	for _, v := range w.cache.ListVendors() {
		for _, s := range w.cache.GetVendorSpecs(v) {
			_ = w.cache.GetSpecErrors(s)
			_ = s.GetClass()
		}
	}
	_, hasErr := errs[path]
	if rerr != nil {
		// malformed input: the cache must report an error entry for that file and keep going
		if !hasErr || rfErr == nil {
			return false, fmt.Sprintf("ReadSpec fails (%v) but the cache reports no error entry for the file (errors=%v refresh=%v)", rerr, errs, rfErr)
		}
		if len(devs) != 0 {
			return false, "devices listed from a file that does not load"
		}
		return false, ""
	}
	_ = spec
	// loaded: inject every device into every OCI shape
	for _, d := range devs {
		for _, sh := range ociShapes {
			o := sh.Make()
			_, _ = w.cache.InjectDevices(o, d)
			if dev := w.cache.GetDevice(d); dev != nil {
				o2 := sh.Make()
				_ = dev.ApplyEdits(o2)
				_ = dev.GetSpec().ApplyEdits(o2)
			}
		}
		_, _ = w.cache.InjectDevices(nil, d)
	}
	if len(devs) > 0 {
		_, _ = w.cache.InjectDevices(&oci.Spec{}, append(append([]string{}, devs...), "unknown.vendor/class=x", "junk")...)
	}
	return len(devs) > 0, ""
}

func (w *worker) eval(c Case) hx.Result {
	w.cur.Store(&inflight{c, time.Now()})
	defer w.cur.Store(nil)
	return hx.Guard("", c, func() hx.Result {
		outcome := "rejected"
		fail := func(msg string) hx.Result {
			return hx.Result{Outcome: "FAIL", Nontrivial: true, Fail: &hx.Failure{Sig: "no-error-entry:" + classes(c), Msg: msg, Case: c}}
		}
		switch c.Kind {
		case "doc":
			for _, enc := range []struct {
				ext  string
				data []byte
			}{{".json", gen.RenderJSON(c.Doc)}, {".yaml", gen.RenderYAML(c.Doc)}} {
				loaded, inc := w.feed(enc.data, enc.ext, true)
				if inc != "" {
					return fail(inc)
				}
				if loaded {
					outcome = "loaded"
				}
			}
		case "name":
			// a device-name / annotation string through every entry point that takes one
			n := string(c.Bytes)
			_, _, _ = parser.ParseDevice(n)
			_, _, _, _ = parser.ParseQualifiedName(n)
			_ = parser.IsQualifiedName(n)
			_, _ = parser.ParseQualifier(n)
			_ = parser.QualifiedName(n, n, n)
			_, _, _ = parser.ValidateVendorName(n), parser.ValidateClassName(n), parser.ValidateDeviceName(n)
			_, _, _ = cdi.ParseAnnotations(map[string]string{"cdi.k8s.io/x": n, "cdi.k8s.io/" + n: "vendor.com/class=dev", n: n})
			_, _ = cdi.AnnotationValue([]string{n})
			_, _ = cdi.AnnotationValue([]string{"vendor.com/class=dev", n})
			_, _ = cdi.AnnotationKey(n, n)
			_, _ = cdi.AnnotationKey("plugin", n)
			_, _ = cdi.UpdateAnnotations(map[string]string{n: n}, n, n, []string{n})
			_, _ = cdi.UpdateAnnotations(nil, "plugin", "id", []string{n, n})
			_ = w.cache.GetDevice(n)
			_, _ = w.cache.InjectDevices(&oci.Spec{}, n, "vendor.com/class=dev", n)
			_ = w.cache.GetVendorSpecs(n)
			_ = cdi.GenerateSpecName(n, n)
			_ = cdi.GenerateTransientSpecName(n, n, n)
			outcome = "evaluated"
		case "population":
			// the cache's cross-file bookkeeping (precedence, conflicts) over several valid files
			root := filepath.Join(w.dir, "population")
			_ = os.RemoveAll(root)
			dirs := []string{filepath.Join(root, "d0"), filepath.Join(root, "d1")}
			for di, n := range []int{c.N0, c.N1} {
				_ = os.MkdirAll(dirs[di], 0o755)
				for k := 0; k < n; k++ {
					ext := []string{".json", ".yaml"}[k%2]
					doc := fmt.Sprintf(`{"cdiVersion":"0.5.0","kind":"vendor.com/class","containerEdits":{"env":["SPEC=%d%d"]},"devices":[{"name":"dev","containerEdits":{"env":["FROM=d%d-%d"]}},{"name":"own%d%d","containerEdits":{"env":["OWN=1"]}}]}`, di, k, di, k, di, k)
					_ = os.WriteFile(filepath.Join(dirs[di], fmt.Sprintf("f%d%s", k, ext)), []byte(doc), 0o644)
				}
				if c.Bad {
					_ = os.WriteFile(filepath.Join(dirs[di], "f0a.json"), []byte(`{"cdiVersion": [`), 0o644)
				}
			}
			for _, auto := range []bool{false, true} {
				pc, _ := cdi.NewCache(cdi.WithSpecDirs(dirs...), cdi.WithAutoRefresh(auto))
				_ = pc.Refresh()
				for _, d := range pc.ListDevices() {
					_ = pc.GetDevice(d)
				}
				_ = pc.GetDevice("vendor.com/class=dev")
				_, _ = pc.InjectDevices(&oci.Spec{}, "vendor.com/class=dev", "vendor.com/class=own00")
				_ = pc.GetErrors()
				for _, v := range pc.ListVendors() {
					for _, sp := range pc.GetVendorSpecs(v) {
						_ = pc.GetSpecErrors(sp)
					}
				}
				_ = pc.ListClasses()
				_ = pc.Refresh()
				_ = pc.Configure(cdi.WithAutoRefresh(false))
			}
			_ = os.RemoveAll(root)
			outcome = "evaluated"
		case "bytes", "stress":
			files := len(c.Bytes) <= 3 || c.Kind == "stress"
			for _, ext := range []string{".json", ".yaml"} {
				loaded, inc := w.feed(c.Bytes, ext, files)
				if inc != "" {
					return fail(inc)
				}
				if loaded {
					outcome = "loaded"
				}
			}
		}
		return hx.Result{Outcome: c.Kind + ":" + outcome, Nontrivial: true}
	})
}

func classes(c Case) string {
	var cl []string
	for _, m := range c.Mutations {
		cl = append(cl, m.Class)
	}
	if len(cl) == 0 {
		return c.Kind
	}
	return strings.Join(cl, "+")
}

// nameTokens: the alphabet of the device-name / annotation string sweep (separators of the
// qualified-name and annotation grammars, one letter, one digit, blank, NUL, a non-ASCII letter)
var nameTokens = []string{"a", "/", "=", ".", ":", ",", "0", " ", "\x00", "\u00e9", "_"}

var structural = []byte{'{', '}', '[', ']', ':', ',', '"', '\'', '-', ' ', '\n', 'a', '1', '#', '&', '*', '!', '|', '>', '?', '%', '\t', 0x00, 0xFF, '.', '~', '<', '=', '\\'}

func stressDocs() []Case {
	var out []Case
	add := func(name string, b []byte) { out = append(out, Case{Kind: "stress", Stress: name, Bytes: b}) }
	for _, depth := range []int{100, 1000, 5000} {
		add(fmt.Sprintf("nested-lists-%d", depth), []byte(strings.Repeat("[", depth)+strings.Repeat("]", depth)))
		add(fmt.Sprintf("nested-maps-%d", depth), []byte(strings.Repeat(`{"a":`, depth)+"1"+strings.Repeat("}", depth)))
		add(fmt.Sprintf("unclosed-lists-%d", depth), []byte(strings.Repeat("[", depth)))
		add(fmt.Sprintf("nested-in-devices-%d", depth), []byte(`{"cdiVersion":"0.5.0","kind":"v/c","devices":`+strings.Repeat("[", depth)+strings.Repeat("]", depth)+"}"))
		add(fmt.Sprintf("yaml-indent-%d", depth), func() []byte {
			var b bytes.Buffer
			for i := 0; i < depth; i++ {
				b.WriteString(strings.Repeat(" ", i) + "a:\n")
			}
			return b.Bytes()
		}())
	}
	// alias expansion
	var b bytes.Buffer
	b.WriteString("a0: &a0 [x,x,x,x,x,x,x,x,x]\n")
	for i := 1; i < 12; i++ {
		fmt.Fprintf(&b, "a%d: &a%d [*a%d,*a%d,*a%d,*a%d,*a%d,*a%d,*a%d,*a%d,*a%d]\n", i, i, i-1, i-1, i-1, i-1, i-1, i-1, i-1, i-1, i-1)
	}
	add("yaml-alias-bomb", b.Bytes())
	add("yaml-self-alias", []byte("a: &a [*a]\n"))
	add("yaml-merge-key", []byte("base: &b {cdiVersion: 0.5.0}\n<<: *b\nkind: v/c\ndevices: [{name: d, containerEdits: {env: [A=b]}}]\n"))
	add("multi-document", []byte("---\ncdiVersion: 0.5.0\n---\nkind: v/c\n"))
	add("long-line", []byte(`{"cdiVersion":"`+strings.Repeat("9", 1<<20)+`"}`))
	add("huge-number", []byte(`{"cdiVersion":"0.5.0","kind":"v/c","devices":[{"name":"d","containerEdits":{"deviceNodes":[{"path":"/dev/x","major":1e400}]}}]}`))
	add("utf16-bom", []byte{0xFF, 0xFE, 'a', 0, ':', 0, ' ', 0, 'b', 0})
	add("utf8-bom", append([]byte{0xEF, 0xBB, 0xBF}, []byte(`{"cdiVersion":"0.5.0"}`)...))
	add("tab-indented", []byte("cdiVersion: 0.5.0\n\tkind: v/c\n"))
	add("binary-tag", []byte("cdiVersion: !!binary |\n  R0lGODlhDAAMAIQAAP\nkind: !!float abc\n"))
	add("set-tag", []byte("devices: !!set {a, b}\n"))
	add("timestamp-key", []byte("2001-12-14: x\ncdiVersion: 2001-12-14\n"))
	add("non-string-keys", []byte("? [a, b]\n: c\n1: 2\ntrue: false\nnull: ~\n"))
	return out
}

// ---- (d) background-goroutine worker -------------------------------------------------

func bgWorker(stage, watched string) {
	cache, _ := cdi.NewCache(cdi.WithSpecDirs(watched), cdi.WithAutoRefresh(true))
	names, _ := os.ReadDir(stage)
	out := bufio.NewWriter(os.Stdout)
	for _, e := range names {
		name := e.Name()
		data, err := os.ReadFile(filepath.Join(stage, name))
		if err != nil {
			continue
		}
		fmt.Fprintf(out, "BEGIN %s\n", name)
		out.Flush()
		target := filepath.Join(watched, "doc"+filepath.Ext(name))
		_ = os.WriteFile(target, data, 0o644)
		status := "unconfirmed"
		deadline := time.Now().Add(5 * time.Second)
		for time.Now().Before(deadline) {
			if _, ok := cache.GetErrors()[target]; ok {
				status = "error-entry"
				break
			}
			if len(cache.ListDevices()) > 0 {
				status = "loaded"
				break
			}
			time.Sleep(100 * time.Microsecond)
		}
		_ = os.Remove(target)
		deadline = time.Now().Add(5 * time.Second)
		for time.Now().Before(deadline) {
			if _, ok := cache.GetErrors()[target]; !ok && len(cache.ListDevices()) == 0 {
				break
			}
			time.Sleep(100 * time.Microsecond)
		}
		fmt.Fprintf(out, "END %s %s\n", name, status)
		out.Flush()
	}
}

// bgDoc rebuilds the document of a background case (documents are not kept in memory).
var bgDoc func(c Case) any

// runBackground feeds the staged documents to worker subprocesses; a worker that dies is a
// violation attributed to the document in flight.
func runBackground(r *hx.Run, root string, docs []Case) {
	const shards = 16
	type res struct {
		idx    int
		status string
		stderr string
	}
	results := make(chan res, len(docs)*2)
	done := make(chan bool, shards)
	for s := 0; s < shards; s++ {
		go func(s int) {
			defer func() { done <- true }()
			stage := filepath.Join(root, fmt.Sprintf("stage%d", s))
			watched := filepath.Join(root, fmt.Sprintf("watched%d", s))
			_ = os.MkdirAll(stage, 0o755)
			_ = os.MkdirAll(watched, 0o755)
			var mine []int
			for i := s; i < len(docs); i += shards {
				mine = append(mine, i)
				for _, enc := range []struct {
					ext  string
					data []byte
				}{{".json", gen.RenderJSON(bgDoc(docs[i]))}, {".yaml", gen.RenderYAML(bgDoc(docs[i]))}} {
					_ = os.WriteFile(filepath.Join(stage, fmt.Sprintf("%07d%s", i, enc.ext)), enc.data, 0o644)
				}
			}
			for attempt := 0; attempt < len(mine)*2+2; attempt++ {
				left, _ := os.ReadDir(stage)
				if len(left) == 0 || r.Expired() {
					return
				}
				cmd := exec.Command(os.Args[0], "-bgworker", stage+":"+watched)
				var stderr bytes.Buffer
				cmd.Stderr = &stderr
				so, _ := cmd.StdoutPipe()
				if err := cmd.Start(); err != nil {
					fmt.Println("INFRA: cannot start background worker:", err)
					os.Exit(2)
				}
				sc := bufio.NewScanner(so)
				inflight := ""
				for sc.Scan() {
					f := strings.Fields(sc.Text())
					if len(f) >= 2 && f[0] == "BEGIN" {
						inflight = f[1]
					}
					if len(f) >= 3 && f[0] == "END" {
						var idx int
						fmt.Sscanf(f[1], "%d", &idx)
						results <- res{idx: idx, status: f[2]}
						_ = os.Remove(filepath.Join(stage, f[1]))
						inflight = ""
					}
				}
				err := cmd.Wait()
				if inflight != "" {
					var idx int
					fmt.Sscanf(inflight, "%d", &idx)
					results <- res{idx: idx, status: "died", stderr: stderr.String() + fmt.Sprint(err)}
					_ = os.Remove(filepath.Join(stage, inflight))
				}
				for _, e := range []string{"doc.json", "doc.yaml"} {
					_ = os.Remove(filepath.Join(watched, e))
				}
			}
		}(s)
	}
	go func() {
		for s := 0; s < shards; s++ {
			<-done
		}
		close(results)
	}()
	unconfirmed := 0
	for x := range results {
		c := docs[x.idx]
		switch x.status {
		case "died":
			site := hx.PanicSite(x.stderr)
			r.Fail(&hx.Failure{Sig: "background-refresh-crash:" + site, Msg: "the process died while the watcher goroutine loaded this document", Case: c, Actual: tail(x.stderr, 1800)})
			r.Record(hx.Result{Outcome: "bg:died", Nontrivial: true}, nil)
		case "unconfirmed":
			unconfirmed++
			r.Record(hx.Result{Outcome: "bg:unconfirmed", Nontrivial: false}, nil)
		default:
			r.Record(hx.Result{Outcome: "bg:" + x.status, Nontrivial: true}, nil)
		}
	}
	r.Extra["background_unconfirmed_within_5s"] = unconfirmed
}

func tail(s string, n int) string {
	if len(s) > n {
		return s[:n]
	}
	return s
}

// mutations of one base document: the type confusions at every member position, and the
// value-level defects of C05's generator (malformed names, annotation keys with empty parts,
// paths, permissions, versions ...): content a validator sees after the types were right.
func mutations(t gen.M) []gen.Mutation {
	return append(gen.Confusions(t), gen.Defects(t)...)
}

func main() {
	for i, a := range os.Args {
		if a == "-bgworker" && i+1 < len(os.Args) {
			p := strings.SplitN(os.Args[i+1], ":", 2)
			bgWorker(p[0], p[1])
			return
		}
	}
	tStart := time.Now()
	r := hx.Start("C08", "model_checking")
	root, err := os.MkdirTemp("/dev/shm", "verif-c08-")
	if err != nil {
		root, _ = os.MkdirTemp("", "verif-c08-")
	}
	defer os.RemoveAll(root)
	if r.Replay != "" {
		var c Case
		r.LoadReplay(&c)
		resCh := make(chan hx.Result, 1)
		go func() { resCh <- newWorker(root, 0).eval(c) }()
		select {
		case res := <-resCh:
			os.RemoveAll(root)
			hx.ReplayExit("C08", res)
		case <-time.After(hangAfter):
			os.RemoveAll(root)
			fmt.Printf("replay: still FAILS: a library call does not return within %v (hang)\nVIOLATION property=C08 replay=(replayed)\n", hangAfter)
			os.Exit(1)
		}
	}
	// (a) documents
	var bases []gen.Base
	all := gen.Bases(0)
	if r.Thorough() {
		bases = all
	} else {
		// quick: a core covering every node type of the document model
		for _, b := range all {
			if strings.Contains(b.Name, "devs=all,") || strings.Contains(b.Name, "devs=env,devAnn=false,kind=vendor.com/class") ||
				strings.Contains(b.Name, "devs=env+all+env") || strings.Contains(b.Name, "specEdits=all,devs=hook-createRuntime,devAnn=true") || strings.Contains(b.Name, "kind=v/c") {
				bases = append(bases, b)
			}
		}
	}
	// cases are generated lazily inside the workers (the thorough space does not fit in memory as a list)
	type job struct {
		kind   string // base | pairs | bytes | stress
		bi     int    // base index / stress index / pair row
		n      int    // byte string length
		lo, hi int    // byte string index range
	}
	var jobs []job
	// one job per 250 mutations of a base (a base has thousands; one job per base left most workers idle)
	const baseChunk = 250
	for bi := range bases {
		n := len(mutations(bases[bi].Tree))
		for lo := 0; lo == 0 || lo < n; lo += baseChunk {
			hi := lo + baseChunk
			if hi > n {
				hi = n
			}
			jobs = append(jobs, job{kind: "base", bi: bi, lo: lo, hi: hi})
		}
	}
	core := gen.MakeBase(true, "all", []string{"all"}, true, "v/c", false)
	coreConf := gen.Confusions(core.Tree)
	if r.Thorough() {
		for i := 0; i < len(coreConf); i += 3 {
			jobs = append(jobs, job{kind: "pairs", bi: i})
		}
	}
	L := 3
	if r.Thorough() {
		L = 4
	}
	pow := func(n int) int {
		t := 1
		for i := 0; i < n; i++ {
			t *= len(structural)
		}
		return t
	}
	for n := 0; n <= L; n++ {
		for lo := 0; lo < pow(n); lo += 4096 {
			hi := lo + 4096
			if hi > pow(n) {
				hi = pow(n)
			}
			jobs = append(jobs, job{kind: "bytes", n: n, lo: lo, hi: hi})
		}
	}
	// (b2) device-name / annotation strings: every string of up to NL tokens
	NL := 5
	if r.Thorough() {
		NL = 6
	}
	powN := func(n int) int {
		t := 1
		for i := 0; i < n; i++ {
			t *= len(nameTokens)
		}
		return t
	}
	for n := 0; n <= NL; n++ {
		for lo := 0; lo < powN(n); lo += 4096 {
			hi := lo + 4096
			if hi > powN(n) {
				hi = powN(n)
			}
			jobs = append(jobs, job{kind: "names", n: n, lo: lo, hi: hi})
		}
	}
	st := stressDocs()
	// a complete valid document followed by something else: what a decoder that stops after the first
	// value and one that insists on a single value disagree about
	if len(bases) > 0 {
		good := gen.RenderJSON(bases[0].Tree)
		goodY := gen.RenderYAML(bases[0].Tree)
		for name, tail := range map[string]string{"second-object": "{}", "same-document-again": string(good), "closing-bracket": "]", "closing-brace": "}", "word": " trailing", "null": "\nnull", "number": " 5", "comma": ",", "newline-then-object": "\n{\"a\":1}", "nul-byte": "\x00", "bom": "\ufeff"} {
			st = append(st, Case{Kind: "stress", Stress: "valid-json-then-" + name, Bytes: append(append([]byte{}, good...), tail...)})
		}
		for name, tail := range map[string]string{"second-yaml-document": "\n---\n{}\n", "document-end-marker-then-text": "\n...\ntrailing\n", "second-document-invalid": "\n---\n- [\n", "tab-line": "\n\tx\n"} {
			st = append(st, Case{Kind: "stress", Stress: "valid-yaml-then-" + name, Bytes: append(append([]byte{}, goodY...), tail...)})
		}
	}
	// line breaks other than LF (YAML also counts CR, NEL, LS and PS as line breaks, JSON strings may
	// hold LS / PS raw): a multi-line document written with each of them, intact and with a syntax
	// error at its end, near its middle and in its first line - what an error path that counts lines
	// its own way would trip over
	if len(bases) > 0 {
		goodY := string(gen.RenderYAML(bases[0].Tree))
		for bname, br := range map[string]string{"cr": "\r", "nel": "\u0085", "ls": "\u2028", "ps": "\u2029", "crlf": "\r\n", "lf": "\n"} {
			y := strings.ReplaceAll(goodY, "\n", br)
			half := len(y) / 2
			for ename, doc := range map[string]string{"intact": y, "error-at-the-end": y + "key: [unclosed", "error-in-the-middle": y[:half] + br + "\t- : [" + br + y[half:], "error-in-the-first-line": "? [" + br + y,
				"error-after-many-breaks": y + strings.Repeat(br, 40) + "}"} {
				st = append(st, Case{Kind: "stress", Stress: "yaml-with-" + bname + "-line-breaks-" + ename, Bytes: []byte(doc)})
			}
			j := `{"cdiVersion":"0.5.0","kind":"v/c","annotations":{"note":"a` + strings.Repeat(br, 12) + `b"},"devices":[{"name":"d","containerEdits":{"env":["A=b"]}}]`
			if bname == "ls" || bname == "ps" || bname == "nel" {
				st = append(st, Case{Kind: "stress", Stress: "json-with-raw-" + bname + "-in-a-string-intact", Bytes: []byte(j + "}")})
				st = append(st, Case{Kind: "stress", Stress: "json-with-raw-" + bname + "-in-a-string-unclosed", Bytes: []byte(j)})
				st = append(st, Case{Kind: "stress", Stress: "json-with-raw-" + bname + "-in-a-string-then-bracket", Bytes: []byte(j + "]")})
			}
		}
	}
	for n0 := 0; n0 <= 5; n0++ {
		for n1 := 0; n1 <= 4; n1++ {
			for _, bad := range []bool{false, true} {
				st = append(st, Case{Kind: "population", Stress: fmt.Sprintf("same-device-in-%d-low-and-%d-high-files", n0, n1), N0: n0, N1: n1, Bad: bad})
			}
		}
	}
	// names of every byte length up to 300 that end in a character of 1, 2, 3 and 4 bytes (so a
	// multi-byte character straddles every offset at which a name could be cut, counted or padded),
	// qualified and unqualified, and the same with the wide character in front
	for L := 1; L <= 300; L++ {
		for _, wide := range []string{"a", "é", "€", "😀"} {
			for _, prefix := range []string{"vendor.com/class=", ""} {
				fill := L - len(prefix) - len(wide)
				if fill < 0 {
					continue
				}
				st = append(st, Case{Kind: "name", Stress: fmt.Sprintf("name-of-%d-bytes-ending-in-a-%d-byte-character", L, len(wide)), Bytes: []byte(prefix + strings.Repeat("a", fill) + wide)})
				st = append(st, Case{Kind: "name", Stress: fmt.Sprintf("name-of-%d-bytes-starting-with-a-%d-byte-character", L, len(wide)), Bytes: []byte(prefix + wide + strings.Repeat("a", fill))})
			}
		}
	}
	for i := range st {
		jobs = append(jobs, job{kind: "stress", bi: i})
	}
	var nDocs, nPairs, nBytes, nNames atomic.Int64
	// documents also fed to the background goroutine: (base, confusion index) references, -1 = the base itself
	type docRef struct{ bi, mi int }
	var bgRefs []docRef
	var bgMu sync.Mutex
	mkRule := func() string {
		return fmt.Sprintf("(a) %d base documents x every member position (present members, absent optional members, first/last list elements, one unknown member per object) x an 18-value type-confusion domain "+
			"(absent, null, strings, 0, -1, 2^32, 2^63, below int64, 1.5, true, [], [null], [\"\"], [[]], [{}], {}, {x:null}, deep nesting) and every single value-level defect of C05's generator (malformed names, keys, paths, versions, sizes): %d documents (+%d confusion pairs), JSON and YAML, through ParseSpec, ReadSpec, cache Refresh and every query, "+
			"MinimumRequiredVersion/ValidateVersion, schema ValidateData/ValidateReader/ReadAndValidate/ValidateFile/Validate, and - when the document loads - InjectDevices/ApplyEdits of every device into %d OCI spec shapes; "+
			"(b) every byte string of length 0..%d over %d structural bytes (%d strings); (b2) every string of up to %d tokens over %q (%d strings) as device name, annotation key/value, plugin and device id through the parser, the annotation helpers, GetDevice and InjectDevices, and names of every byte length 1..300 that end in / start with a character of 1..4 bytes; (c) %d stress documents (deep nesting, aliases, trailing data, documents written with CR / NEL / LS / PS / CRLF line breaks with and without a syntax error) and directory populations (0..5 + 0..4 valid files in two directories all defining one device, with and without an unparsable file in between); (d) documents of (a) loaded by the watcher goroutine of an auto-refresh cache in worker subprocesses. "+
			"Oracle: no panic, no process death, a file that does not load has a cache error entry. Distinct by construction; every case is non-trivial (it is executed against all entry points)",
			len(bases), nDocs.Load(), nPairs.Load(), len(ociShapes), L, len(structural), nBytes.Load(), NL, nameTokens, nNames.Load(), len(st))
	}
	r.Assumptions = []string{"hangs: every call is bounded by the run watchdog; a stuck case is reported as an infrastructure error (exit 2), not silently skipped",
		"queue overflow of inotify is out of scope"}

	nw := 16
	workers := make(chan *worker, nw)
	var allWorkers []*worker
	for i := 0; i < nw; i++ {
		w := newWorker(root, i)
		allWorkers = append(allWorkers, w)
		workers <- w
	}
	// watchdog: no single case may run longer than 60 s
	progress := make(chan struct{}, 1)
	stopWatchdog := make(chan struct{})
	go func() {
		tick := time.NewTicker(2 * time.Second)
		defer tick.Stop()
		last := time.Now()
		for {
			select {
			case <-stopWatchdog:
				return
			case <-progress:
				last = time.Now()
			case <-tick.C:
				// a case that has been inside the library for too long: a hang is a violation of the
				// property (the goroutine cannot be stopped: report the case and end the run)
				for _, w := range allWorkers {
					if f := w.cur.Load(); f != nil && time.Since(f.start) > hangAfter {
						r.Fail(&hx.Failure{Sig: "hang:" + classes(f.c), Msg: fmt.Sprintf("a public entry point has not returned after %v with this input (endless loop or deadlock)", hangAfter), Case: f.c})
						r.Cap("a library call hung; the sweep ended there")
						r.Rule = mkRule()
						os.RemoveAll(root)
						r.Finish()
					}
				}
				if time.Since(last) > 120*time.Second {
					fmt.Println("INFRA: no case finished within 120 s; aborting")
					os.RemoveAll(root)
					os.Exit(2)
				}
			}
		}
	}()
	var kindNanos sync.Map // job kind -> *atomic.Int64 (time spent, summed over workers)
	tMain := time.Now()
	r.ParallelL(int64(len(jobs)), func(i int64, l *hx.Local) {
		w := <-workers
		defer func() { workers <- w }()
		jb := jobs[i]
		t0 := time.Now()
		defer func() {
			v, _ := kindNanos.LoadOrStore(jb.kind, new(atomic.Int64))
			v.(*atomic.Int64).Add(int64(time.Since(t0)))
		}()
		run := func(c Case) {
			res := w.eval(c)
			select {
			case progress <- struct{}{}:
			default:
			}
			l.Record(res, func() any {
				if c.Kind == "doc" {
					return map[string]any{"base": c.Base, "mutations": c.Mutations, "outcome": res.Outcome}
				}
				return map[string]any{"kind": c.Kind, "bytes": c.Printable, "stress": c.Stress, "outcome": res.Outcome}
			})
		}
		switch jb.kind {
		case "base":
			b := bases[jb.bi]
			var refs []docRef
			if jb.lo == 0 {
				run(Case{Kind: "doc", Base: b.Name, Doc: b.Tree})
				refs = append(refs, docRef{jb.bi, -1})
				nDocs.Add(1)
			}
			for mi, m := range mutations(b.Tree) {
				if mi < jb.lo || mi >= jb.hi {
					continue
				}
				run(Case{Kind: "doc", Base: b.Name, Mutations: []gen.Mutation{m}, Doc: gen.Apply(b.Tree, m)})
				nDocs.Add(1)
				if (r.Thorough() && mi%2 == 0) || mi%4 == 0 || strings.Contains(m.Class, "list-of-null") {
					refs = append(refs, docRef{jb.bi, mi})
				}
			}
			bgMu.Lock()
			bgRefs = append(bgRefs, refs...)
			bgMu.Unlock()
		case "pairs":
			a := coreConf[jb.bi]
			for j := jb.bi + 1; j < len(coreConf); j += 5 {
				b := coreConf[j]
				if strings.HasPrefix(b.Where, a.Where) || strings.HasPrefix(a.Where, b.Where) {
					continue
				}
				run(Case{Kind: "doc", Base: core.Name, Mutations: []gen.Mutation{a, b}, Doc: gen.Apply(core.Tree, a, b)})
				nPairs.Add(1)
			}
		case "bytes":
			for x0 := jb.lo; x0 < jb.hi; x0++ {
				b := make([]byte, jb.n)
				x := x0
				for k := 0; k < jb.n; k++ {
					b[k] = structural[x%len(structural)]
					x /= len(structural)
				}
				run(Case{Kind: "bytes", Bytes: b, Printable: fmt.Sprintf("%q", b)})
				nBytes.Add(1)
			}
		case "names":
			for x0 := jb.lo; x0 < jb.hi; x0++ {
				b := make([]byte, 0, jb.n*2)
				x := x0
				for k := 0; k < jb.n; k++ {
					b = append(b, nameTokens[x%len(nameTokens)]...)
					x /= len(nameTokens)
				}
				run(Case{Kind: "name", Bytes: b, Printable: fmt.Sprintf("%q", b)})
				nNames.Add(1)
			}
		case "stress":
			run(st[jb.bi])
		}
	})
	close(stopWatchdog) // the background phase has its own per-document deadlines
	r.Extra["main_phase_wall_s"] = time.Since(tMain).Seconds()
	if os.Getenv("VERIF_TIMING") != "" {
		fmt.Printf("timing: main phase %.1fs (since start %.1fs)\n", time.Since(tMain).Seconds(), time.Since(tStart).Seconds())
		kindNanos.Range(func(k, v any) bool {
			fmt.Printf("timing: %s jobs %.1f worker-seconds\n", k, float64(v.(*atomic.Int64).Load())/1e9)
			return true
		})
	}
	kindNanos.Range(func(k, v any) bool {
		r.Extra["worker_seconds_in_"+k.(string)+"_jobs"] = float64(v.(*atomic.Int64).Load()) / 1e9
		return true
	})
	// (d) background goroutine
	sort.Slice(bgRefs, func(i, j int) bool {
		if (bgRefs[i].mi < 0) != (bgRefs[j].mi < 0) {
			return bgRefs[i].mi < 0
		}
		if bgRefs[i].bi != bgRefs[j].bi {
			return bgRefs[i].bi < bgRefs[j].bi
		}
		return bgRefs[i].mi < bgRefs[j].mi
	})
	confCache := map[int][]gen.Mutation{}
	var bg []Case
	for _, ref := range bgRefs {
		b := bases[ref.bi]
		if ref.mi < 0 {
			bg = append(bg, Case{Kind: "doc", Base: b.Name, Doc: b.Tree})
			continue
		}
		if confCache[ref.bi] == nil {
			confCache = map[int][]gen.Mutation{ref.bi: mutations(b.Tree)} // keep one base's list at a time
		}
		m := confCache[ref.bi][ref.mi]
		bg = append(bg, Case{Kind: "doc", Base: b.Name, Mutations: []gen.Mutation{m}}) // the document is rebuilt when it is staged
	}
	docOf := func(c Case) any {
		if c.Doc != nil {
			return c.Doc
		}
		for _, b := range bases {
			if b.Name == c.Base {
				return gen.Apply(b.Tree, c.Mutations...)
			}
		}
		return nil
	}
	bgDoc = docOf
	tBg := time.Now()
	runBackground(r, root, bg)
	if os.Getenv("VERIF_TIMING") != "" {
		fmt.Printf("timing: background phase %.1fs for %d documents (staging started %.1fs after start)\n", time.Since(tBg).Seconds(), len(bg), tBg.Sub(tStart).Seconds())
	}
	r.Extra["documents"] = nDocs.Load()
	r.Extra["byte_strings"] = nBytes.Load()
	r.Extra["stress_documents"] = len(st)
	r.Extra["background_documents"] = len(bg)
	r.Rule = mkRule()
	os.RemoveAll(root)
	r.Finish()
}
