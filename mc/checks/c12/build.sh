#!/bin/bash
set -e
export GOFLAGS=-mod=mod GOPROXY=off GOSUMDB=off GOTOOLCHAIN=local
HERE=$(dirname "$(realpath "$0")")
ROOT=$(realpath "$HERE/../../..")
mkdir -p "$ROOT/.bin"
(cd "$ROOT/mc" && go build -race -o "$ROOT/.bin/c12race" ./checks/c12race)
exec "$ROOT/mc/engineb-build.sh" c12
