#!/bin/bash
set -e
. "$(dirname "$(realpath "$0")")/../../goenv.sh"
HERE=$(dirname "$(realpath "$0")")
ROOT=$(realpath "$HERE/../../..")
mkdir -p "$ROOT/.bin"
(cd "$ROOT/mc" && go build -race -o "$ROOT/.bin/c12race" ./checks/c12race)
# the same explorer built with the race detector: its scheduler hands control over through
# raw pipe syscalls, so every explored schedule is also a race check (see _shim/sched/handoff_pipe.go)
OUT=c12r "$ROOT/mc/engineb-build.sh" c12 -race
exec "$ROOT/mc/engineb-build.sh" c12
