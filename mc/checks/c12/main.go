// C12 — concurrent use of a cache is race-free and every result reflects one snapshot.
// Two halves:
//
//	(1) Engine B: pairs (and a triple) of cache operations as controlled threads next to the
//	    watcher goroutine and the fsnotify reader; every schedule within the preemption bound;
//	    oracle: no deadlock, no panic, every query / injection equals state A or state B
//	    entirely, and (manual mode) the call/return history is linearizable (porcupine).
//	(2) free-running pass of the same operation bodies under the Go race detector on the
//	    unmodified build (checks/c12race): a cooperative scheduler's hand-offs would hide races.
package main

import (
	"bytes"
	"encoding/json"
	"fmt"
	"os"
	"os/exec"
	"path/filepath"
	"regexp"
	"runtime/debug"
	"sort"
	"strconv"
	"strings"
	"time"

	"github.com/anishathalye/porcupine"
	oci "github.com/opencontainers/runtime-spec/specs-go"
	"tags.cncf.io/container-device-interface/pkg/cdi"
	"tags.cncf.io/container-device-interface/verifshim/sched"
	"tags.cncf.io/container-device-interface/verifshim/vfs"
	"verif/mc/c12ops"
	"verif/mc/explore"
	"verif/mc/hx"
)

type Scen struct {
	Kind string   `json:"kind"` // pair | switch
	Ops  []string `json:"operations"`
	Auto bool     `json:"auto_refresh"`
	// Fine: the read-only file-system calls of a scan (readdir, lstat, open, read) are scheduling
	// points too, so that a directory can change between a scan's listing and its look at an entry
	Fine bool `json:"scan_steps_are_scheduling_points,omitempty"`
}

func (s Scen) String() string {
	if s.Fine {
		return fmt.Sprintf("%s %v auto=%v fine-grained-scan", s.Kind, s.Ops, s.Auto)
	}
	return fmt.Sprintf("%s %v auto=%v", s.Kind, s.Ops, s.Auto)
}

type Case struct {
	Scenario Scen     `json:"scenario"`
	Eager    bool     `json:"eager_default_order"`
	Choices  []int    `json:"choices"`
	Schedule []string `json:"schedule,omitempty"`
}

var scratch string

func opByName(n string) c12ops.Op {
	for _, o := range c12ops.All() {
		if o.Name == n {
			return o
		}
	}
	panic("unknown op " + n)
}

// linearizability model for the switch scenarios: state = (fs, cache) in {A,B}^2
type linIn struct {
	op string // switch | refresh | query
}
type linOut struct{ state string }

var linModel = porcupine.Model{
	Init: func() interface{} { return [2]string{"A", "A"} },
	Step: func(state, input, output interface{}) (bool, interface{}) {
		s := state.([2]string)
		switch input.(linIn).op {
		case "switch":
			return true, [2]string{"B", s[1]}
		case "refresh":
			return true, [2]string{s[0], s[0]}
		default:
			return output.(linOut).state == s[1], s
		}
	},
}

func scenario(sn Scen, eager bool, preempt int) *explore.Scenario {
	sc := &explore.Scenario{Name: sn.String(), Eager: eager, Bounds: explore.Bounds{Preemptions: preempt}, MaxSteps: 100000}
	sc.New = func() *explore.Instance {
		root := filepath.Join(scratch, "x")
		w := c12ops.Setup(root)
		vw := vfs.Reset(root)
		vw.CoarseReads = !sn.Fine
		c12ops.RenameFn = vfs.Rename
		c12ops.MkdirFn = vfs.Mkdir
		c12ops.RemoveFn = vfs.Remove
		var results []c12ops.Result
		var hist []porcupine.Operation
		clock := int64(0)
		tick := func() int64 { sched.Touch(&clock); clock++; return clock } // the history (clock, hist, results) is shared state
		var finalObs string
		in := &explore.Instance{Names: []string{"main"}}
		if sn.Kind == "default" {
			// first use of the package-level default cache by two goroutines at once: Configure(options)
			// against another package-level call. Whoever creates the cache, the options must be in
			// effect afterwards (the state of the package is reset before every execution).
			var finalDirs, finalDevs string
			in.Threads = []func(){func() {
				remaining := len(sn.Ops)
				for ti, name := range sn.Ops {
					ti, name := ti, name
					sched.Go(fmt.Sprintf("T%d-%s", ti, name), false, 0, func() {
						defer func() { sched.Touch(&remaining); remaining-- }()
						res := c12ops.Result{Op: name}
						switch name {
						case "Configure":
							if err := cdi.Configure(cdi.WithSpecDirs(w.D0, w.D1), cdi.WithAutoRefresh(sn.Auto)); err != nil {
								res.Obs = "error"
							}
						case "Configure(other)":
							_ = cdi.Configure(cdi.WithSpecDirs(w.D1), cdi.WithAutoRefresh(sn.Auto))
						case "Refresh":
							_ = cdi.Refresh()
						case "GetDefaultCache+ListDevices":
							res.Obs = fmt.Sprint(len(cdi.GetDefaultCache().ListDevices()) > 0)
						case "InjectDevices":
							_, err := cdi.InjectDevices(&oci.Spec{}, c12ops.DevicesA[0])
							res.Obs = fmt.Sprint(err == nil)
						case "GetErrors":
							_ = cdi.GetErrors()
						}
						sched.Touch(&remaining)
						results = append(results, res)
					})
				}
				sched.Block("join", func() bool { return remaining == 0 })
				sched.Quiesce("settled")
				dc := cdi.GetDefaultCache()
				finalDirs = fmt.Sprint(dc.GetSpecDirectories())
				_ = dc.Refresh()
				finalDevs = fmt.Sprint(dc.ListDevices())
				_ = dc.Configure(cdi.WithAutoRefresh(false))
			}}
			in.Check = func(e *sched.Exec) (string, string, any) {
				want := fmt.Sprint([]string{w.D0, w.D1})
				other := fmt.Sprint([]string{w.D1})
				ok := finalDirs == want
				for _, n := range sn.Ops {
					if n == "Configure(other)" && finalDirs == other {
						ok = true
					}
				}
				if !ok {
					return "default-cache-configure-lost:" + sn.Ops[1], fmt.Sprintf("after Configure(WithSpecDirs(d0,d1)) raced with %s on first use, the default cache has directories %s (devices %s)", sn.Ops[1], finalDirs, finalDevs), nil
				}
				if finalDirs == want && finalDevs != fmt.Sprint(c12ops.DevicesA) {
					return "default-cache-wrong-devices:" + sn.Ops[1], "the default cache lists " + finalDevs, nil
				}
				return "", "", nil
			}
			in.Observe = func() string { return "default dirs=" + short(finalDirs) }
			return in
		}
		in.Threads = []func(){func() {
			c, _ := cdi.NewCache(cdi.WithSpecDirs(w.Dirs()...), cdi.WithAutoRefresh(sn.Auto))
			remaining := len(sn.Ops)
			for ti, name := range sn.Ops {
				ti, name := ti, name
				sched.Go(fmt.Sprintf("T%d-%s", ti, name), false, 0, func() {
					defer func() { sched.Touch(&remaining); remaining-- }()
					run := func(o c12ops.Op, lin string) {
						call := tick()
						res := o.Run(w, c)
						ret := tick()
						results = append(results, res)
						if sn.Kind == "switch" && !sn.Auto {
							out := linOut{}
							if lin == "query" {
								out.state = stateOf(res)
							}
							hist = append(hist, porcupine.Operation{ClientId: ti, Input: linIn{lin}, Call: call, Output: out, Return: ret})
						}
					}
					switch {
					case sn.Kind == "switch" && name == "Refresh":
						run(opByName("Refresh"), "refresh")
					case sn.Kind == "switch" && (name == "Switch+Refresh" || name == "WriteSpec(state B)+Refresh"):
						call := tick()
						if name == "Switch+Refresh" {
							w.Switch()
						} else {
							_ = c.WriteSpec(c12ops.SpecB(), "multi.json") // the switch happens at the rename inside
						}
						ret := tick()
						hist = append(hist, porcupine.Operation{ClientId: ti, Input: linIn{"switch"}, Call: call, Output: linOut{}, Return: ret})
						if !sn.Auto {
							run(opByName("Refresh"), "refresh")
						}
					case sn.Kind == "switch":
						o := opByName(name)
						run(o, "query")
						run(o, "query")
					default:
						run(opByName(name), "")
					}
				})
			}
			sched.Block("join", func() bool { return remaining == 0 })
			if sn.Kind == "switch" {
				// after everything has settled the cache must serve state B
				sched.Quiesce("settled")
				_ = c.ListDevices()
				sched.Quiesce("settled-2")
				finalObs = opByName("ListDevices").Run(w, c).Obs
			}
		}}
		in.Check = func(e *sched.Exec) (string, string, any) {
			for _, r := range results {
				if r.Bad != "" {
					return "mixed-result:" + r.Op + ":" + sn.Kind + ":auto=" + fmt.Sprint(sn.Auto), r.Bad + " [" + sn.String() + "]", nil
				}
			}
			if sn.Kind == "switch" {
				if finalObs != fmt.Sprint(c12ops.DevicesB) {
					return "stale-after-switch:auto=" + fmt.Sprint(sn.Auto), "after the switch (and refresh) the cache lists " + finalObs, nil
				}
				if !sn.Auto && len(hist) > 0 {
					if res := porcupine.CheckOperations(linModel, hist); !res {
						return "not-linearizable:" + sn.Ops[0], fmt.Sprintf("the call/return history is not linearizable w.r.t. (directory state, cache state): %v", describe(hist)), nil
					}
				}
			}
			return "", "", nil
		}
		in.Observe = func() string {
			var o []string
			for _, r := range results {
				o = append(o, r.Op+"="+short(r.Obs))
			}
			sort.Strings(o)
			return strings.Join(o, " ")
		}
		return in
	}
	return sc
}

func fileExists(p string) bool {
	_, err := os.Stat(p)
	return err == nil
}

func stateOf(r c12ops.Result) string {
	switch r.Op {
	case "ListDevices":
		if r.Obs == fmt.Sprint(c12ops.DevicesA) {
			return "A"
		}
		return "B"
	case "GetDevice":
		if r.Obs == "SRC_a1=A" {
			return "A"
		}
		return "B"
	case "InjectDevices":
		if strings.HasPrefix(r.Obs, "[] false") {
			return "A"
		}
		return "B"
	case "InjectDevices(a1,b1)":
		if strings.HasPrefix(r.Obs, "[] false") {
			return "B"
		}
		return "A"
	}
	return "A"
}

func short(s string) string {
	if len(s) > 40 {
		return fmt.Sprintf("%x", hx.Hash64(s))
	}
	return s
}

func describe(h []porcupine.Operation) []string {
	var o []string
	for _, op := range h {
		o = append(o, fmt.Sprintf("client%d %s[%d,%d]->%v", op.ClientId, op.Input.(linIn).op, op.Call, op.Return, op.Output.(linOut).state))
	}
	return o
}

func scenarios(thorough bool) []Scen {
	var out []Scen
	ops := c12ops.All()
	for _, auto := range []bool{false, true} {
		for _, q := range []string{"ListDevices", "GetDevice", "InjectDevices", "InjectDevices(a1,b1)"} {
			out = append(out, Scen{Kind: "switch", Ops: []string{q, "Switch+Refresh"}, Auto: auto})
		}
		out = append(out, Scen{Kind: "switch", Ops: []string{"ListDevices", "Switch+Refresh", "InjectDevices"}, Auto: auto})
		// the switch made by the library's own writer, against queries and against another thread's refresh
		for _, q := range []string{"ListDevices", "GetDevice", "InjectDevices", "InjectDevices(a1,b1)"} {
			out = append(out, Scen{Kind: "switch", Ops: []string{q, "WriteSpec(state B)+Refresh"}, Auto: auto})
		}
		out = append(out, Scen{Kind: "switch", Ops: []string{"ListDevices", "WriteSpec(state B)+Refresh", "Refresh"}, Auto: auto})
		out = append(out, Scen{Kind: "switch", Ops: []string{"InjectDevices", "WriteSpec(state B)+Refresh", "Refresh"}, Auto: auto})
		if !auto {
			// a writer's temporary file appearing and vanishing between the steps of another thread's scan
			out = append(out, Scen{Kind: "switch", Ops: []string{"ListDevices", "WriteSpec(state B)+Refresh", "Refresh"}, Fine: true})
		}
		for i := range ops {
			for j := i; j < len(ops); j++ {
				if ops[i].Name == "Switch+Refresh" && ops[j].Name == "Switch+Refresh" {
					continue
				}
				out = append(out, Scen{Kind: "pair", Ops: []string{ops[i].Name, ops[j].Name}, Auto: auto})
			}
		}
		for _, other := range []string{"Refresh", "GetDefaultCache+ListDevices", "InjectDevices", "GetErrors", "Configure(other)"} {
			out = append(out, Scen{Kind: "default", Ops: []string{"Configure", other}, Auto: auto})
		}
	}
	return out
}

type workerOut struct {
	Scenario   Scen                `json:"scenario"`
	Eager      bool                `json:"eager"`
	Executions int64               `json:"executions"`
	Points     int64               `json:"points"`
	Outcomes   map[string]int64    `json:"outcomes"`
	Violations []explore.Violation `json:"violations"`
	Capped     bool                `json:"capped"`
	Infra      string              `json:"infra"`
	Pruned     int64               `json:"pruned"`
	States     int64               `json:"states"`
	Unbounded  bool                `json:"unbounded"` // explored without a preemption bound (Capped: the execution cap ended it first)
}

var raceFrame = regexp.MustCompile(`container-device-interface/(pkg/cdi\.[^\s]+|specs-go\.[^\s]+|pkg/parser\.[^\s]+|schema\.[^\s]+)\(\)`)

// parseRaces extracts one signature per data race report: the first library frame of each of
// the two conflicting accesses.
func parseRaces(logs []string) map[string]string {
	sigs := map[string]string{}
	for _, path := range logs {
		b, err := os.ReadFile(path)
		if err != nil {
			continue
		}
		for sig, rep := range parseRaceText(string(b)) {
			if _, ok := sigs[sig]; !ok {
				sigs[sig] = rep
			}
		}
	}
	return sigs
}

var frameLine = regexp.MustCompile(`(?m)^  (\S+)\(\)\n\s+(\S+):(\d+)`)

// topFrame returns the innermost frame of an access that is neither Go runtime / standard
// library nor a transparent shim wrapper, and whether it belongs to the harness (scheduler,
// environment model, explorer, check driver, overlay-added export file) rather than to the
// code under test. Frames are classified by SOURCE FILE, not by function name: a closure of
// the library inlined into a harness function is still library code.
func topFrame(block string) (fn string, harness bool) {
	for _, m := range frameLine.FindAllStringSubmatch(block, -1) {
		f, file := m[1], m[2]
		switch {
		case strings.HasPrefix(file, "/usr/") || strings.Contains(file, "/go/src/") || strings.HasPrefix(file, "<"):
			continue // standard library / runtime: the access belongs to the caller
		case strings.Contains(file, "/verifshim/vsync/") && strings.Contains(f, "SortedKeys"),
			strings.Contains(file, "/verifshim/vos/"), strings.Contains(file, "/verifshim/vfilepath/"), strings.Contains(file, "/verifshim/vunix/"):
			continue // transparent wrappers
		case strings.Contains(file, "/verifshim/"), strings.HasSuffix(file, "export_verif.go"):
			return f, true
		case strings.HasPrefix(file, hx.RepoRoot+"/"), strings.Contains(file, "/pkg/mod/"):
			// the tree under verification, or a module it depends on
			return filepath.Base(file) + ":" + f[strings.LastIndex(f, "/")+1:], false
		}
		return f, true // the check's own sources, wherever this copy of /verif lives
	}
	return "?", true
}

// parseRaceText extracts one signature per data race report in which BOTH conflicting
// accesses are made by the code under test (reports between two harness accesses - the
// scheduler's own bookkeeping is deliberately invisible to the detector - are dropped).
func parseRaceText(text string) map[string]string {
	sigs := map[string]string{}
	for _, rep := range strings.Split(text, "WARNING: DATA RACE")[1:] {
		if i := strings.Index(rep, "=================="); i >= 0 {
			rep = rep[:i]
		}
		blocks := strings.Split(rep, "\n\n")
		var frames []string
		keep := true
		for _, bl := range blocks {
			if len(frames) == 2 {
				break
			}
			if !(strings.Contains(bl, "Read at") || strings.Contains(bl, "Write at") || strings.Contains(bl, "Previous read") || strings.Contains(bl, "Previous write")) {
				continue
			}
			fn, harness := topFrame(bl)
			if harness {
				keep = false
			}
			frames = append(frames, fn)
		}
		if !keep || len(frames) < 2 {
			continue
		}
		sort.Strings(frames)
		sig := strings.Join(frames, " | ")
		if _, ok := sigs[sig]; !ok {
			if len(rep) > 2500 {
				rep = rep[:2500]
			}
			sigs[sig] = rep
		}
	}
	return sigs
}

// raceLogTail returns what the race detector wrote to its log since the last call.
var raceLogOffset int64

func raceLogTail() string {
	base := os.Getenv("VERIF_RACELOG")
	if base == "" {
		return ""
	}
	f, err := os.Open(base + "." + strconv.Itoa(os.Getpid()))
	if err != nil {
		return ""
	}
	defer f.Close()
	st, _ := f.Stat()
	if st.Size() <= raceLogOffset {
		return ""
	}
	buf := make([]byte, st.Size()-raceLogOffset)
	_, _ = f.ReadAt(buf, raceLogOffset)
	raceLogOffset = st.Size()
	return string(buf)
}

// state-cache statistics of the explorer, summed over scenarios
var cutExecs, hbStates int64
var unbTotal, unbDone int

func main() {
	explore.BeforeExec = []func(){cdi.VerifResetGlobals}
	for i, a := range os.Args {
		if a == "-worker" {
			debug.SetGCPercent(800)
			debug.SetMemoryLimit(2 << 30) // one of up to 16 worker processes: the collector works harder near 2 GiB instead of letting the heap grow to 9x the live data
			var err error
			scratch, err = os.MkdirTemp("/dev/shm", "verif-c12w-")
			if err != nil {
				scratch, _ = os.MkdirTemp("", "verif-c12w-")
			}
			parts := strings.Split(os.Args[i+1], "/")
			wi, _ := strconv.Atoi(parts[0])
			wn, _ := strconv.Atoi(parts[1])
			thorough := os.Args[i+2] == "thorough"
			dl, _ := strconv.ParseInt(os.Args[i+3], 10, 64)
			preempt := 2
			if thorough {
				preempt = 3
			}
			if v, err := strconv.Atoi(os.Getenv("VERIF_C12_PREEMPT")); err == nil {
				preempt = v
			}
			enc := json.NewEncoder(os.Stdout)
			// pass 0: every scenario up to the preemption bound (the run is exhaustive when this pass
			// completes). pass 1 (not in the race build): every scenario again with NO preemption bound,
			// each under an execution cap - the state cache makes many of them finish; the evidence
			// reports how many did.
			passes := 2
			if raceBuild {
				passes = 1
			}
			for pass := 0; pass < passes; pass++ {
				k := 0
				for _, sn := range scenarios(thorough) {
					if only := os.Getenv("VERIF_C12_ONLY"); only != "" && !strings.Contains(sn.String(), only) {
						continue
					}
					for _, eager := range []bool{false, true} {
						if eager && !sn.Auto {
							continue // without watcher threads both orders coincide
						}
						if eager && pass == 1 {
							continue // without a bound both default orders enumerate the same schedules
						}
						k++
						if k%wn != wi {
							continue
						}
						if pass == 1 {
							sc := scenario(sn, eager, 1<<20)
							sc.MaxExecs = 2000
							if thorough {
								sc.MaxExecs = 150000
							}
							res := explore.Explore(sc, time.Unix(dl, 0))
							_ = enc.Encode(workerOut{Scenario: sn, Eager: eager, Unbounded: true, Executions: res.Executions, Points: res.Points, Outcomes: res.Outcomes, Violations: res.Violations, Capped: res.Capped, Infra: res.Infra, Pruned: res.Pruned, States: res.States})
							continue
						}
						p := preempt
						if sn.Fine {
							p = preempt + 1 // listing, a writer's rename, the look at the vanished entry: one switch more than the coarse scenarios need
						}
						if sn.Kind == "pair" {
							p = preempt - 1 // the pair matrix is wide (105 pairs x 2 modes): one preemption less than the switch scenarios
						}
						sc := scenario(sn, eager, p)
						if raceBuild {
							// this binary's scheduler hands over through raw pipe syscalls: the race detector
							// checks every explored (serialised) schedule; new reports belong to the schedule just run
							sc.Bounds.Preemptions = p - 1
							if sc.Bounds.Preemptions < 0 {
								sc.Bounds.Preemptions = 0
							}
							sc.AfterExec = func(e *sched.Exec) (string, string, any) {
								for sig, rep := range parseRaceText(raceLogTail()) {
									return "data-race:" + sig, "the Go race detector reports a data race between " + sig + " in this schedule of " + sn.String(), rep
								}
								return "", "", nil
							}
						}
						res := explore.Explore(sc, time.Unix(dl, 0))
						_ = enc.Encode(workerOut{Scenario: sn, Eager: eager, Executions: res.Executions, Points: res.Points, Outcomes: res.Outcomes, Violations: res.Violations, Capped: res.Capped, Infra: res.Infra, Pruned: res.Pruned, States: res.States})
						if raceBuild && len(sn.Ops) == 2 && sn.Ops[0] != sn.Ops[1] && sn.Kind == "pair" {
							// the same pair with the threads started in the other order: an access one thread makes
							// after releasing a lock races with the other thread's locked write only when it comes
							// first; with the reversed order that schedule is a default one (no preemption needed)
							rs := Scen{Kind: sn.Kind, Ops: []string{sn.Ops[1], sn.Ops[0]}, Auto: sn.Auto}
							rsc := scenario(rs, eager, sc.Bounds.Preemptions)
							rsc.AfterExec = func(e *sched.Exec) (string, string, any) {
								for sig, rep := range parseRaceText(raceLogTail()) {
									return "data-race:" + sig, "the Go race detector reports a data race between " + sig + " in this schedule of " + rs.String(), rep
								}
								return "", "", nil
							}
							res := explore.Explore(rsc, time.Unix(dl, 0))
							_ = enc.Encode(workerOut{Scenario: rs, Eager: eager, Executions: res.Executions, Points: res.Points, Outcomes: res.Outcomes, Violations: res.Violations, Capped: res.Capped, Infra: res.Infra, Pruned: res.Pruned, States: res.States})
						}
					}
				}
			}
			os.RemoveAll(scratch)
			return
		}
	}
	r := hx.Start("C12", "model_checking")
	var err error
	scratch, err = os.MkdirTemp("/dev/shm", "verif-c12-")
	if err != nil {
		scratch, _ = os.MkdirTemp("", "verif-c12-")
	}
	defer os.RemoveAll(scratch)
	if r.Replay != "" {
		var c Case
		r.LoadReplay(&c)
		if c.Scenario.Kind == "" {
			fmt.Println("replay: this finding comes from the free-running race-detector pass; re-run ./run C12 quick")
			os.Exit(2)
		}
		sc := scenario(c.Scenario, c.Eager, 99)
		_, _, v1 := explore.RunOnce(sc, c.Choices, true)
		_, _, v2 := explore.RunOnce(sc, c.Choices, true)
		os.RemoveAll(scratch)
		if (v1 == nil) != (v2 == nil) {
			fmt.Println("INFRA: replay is not deterministic")
			os.Exit(2)
		}
		if v1 != nil {
			fmt.Printf("replay: still FAILS: %s: %s\nVIOLATION property=C12 replay=(replayed)\n", v1.Sig, v1.Msg)
			os.Exit(1)
		}
		fmt.Println("replay: case passes now")
		os.Exit(0)
	}
	// ---- half 2 first (in the background): the free-running race-detector pass
	raceDone := make(chan error, 1)
	raceLog := filepath.Join(scratch, "race")
	iters := "6"
	if r.Thorough() {
		iters = "60"
	}
	var raceOut bytes.Buffer
	go func() {
		cmd := exec.Command(filepath.Join(hx.VerifRoot, ".bin", "c12race"), iters)
		cmd.Env = append(os.Environ(), "GORACE=halt_on_error=0 log_path="+raceLog)
		cmd.Stdout = &raceOut
		cmd.Stderr = &raceOut
		raceDone <- cmd.Run()
	}()
	// ---- half 1: schedule exploration
	nw := 14
	results := make(chan workerOut, 8192)
	done := make(chan error, nw)
	for w := 0; w < nw; w++ {
		go func(w int) {
			cmd := exec.Command(os.Args[0], "-worker", fmt.Sprintf("%d/%d", w, nw), r.Tier, strconv.FormatInt(r.Deadline.Unix(), 10))
			cmd.Stderr = os.Stderr
			out, err := cmd.Output()
			dec := json.NewDecoder(bytes.NewReader(out))
			for {
				var o workerOut
				if dec.Decode(&o) != nil {
					break
				}
				results <- o
			}
			done <- err
		}(w)
	}
	go func() {
		for w := 0; w < nw; w++ {
			if err := <-done; err != nil {
				fmt.Println("INFRA: worker failed:", err)
				os.Exit(2)
			}
		}
		close(results)
	}()
	scen := 0
	for o := range results {
		scen++
		if o.Infra != "" {
			fmt.Println("INFRA:", o.Infra, "in", o.Scenario)
			os.RemoveAll(scratch)
			os.Exit(2)
		}
		if o.Unbounded {
			unbTotal++
			if !o.Capped {
				unbDone++
			}
			r.Extra["scenarios_run_without_preemption_bound"] = unbTotal
			r.Extra["of_which_explored_completely"] = unbDone
		} else if o.Capped {
			r.Cap("time cap hit")
		}
		r.AddEvals(o.Executions, o.Executions)
		cutExecs, hbStates = cutExecs+o.Pruned, hbStates+o.States
		r.Extra["executions_cut_at_an_explored_state"], r.Extra["happens_before_states_stored"] = cutExecs, hbStates
		r.States.Add(o.Points)
		r.Transitions.Add(o.Points)
		for k := range o.Outcomes {
			r.Outcome(o.Scenario.Kind + ":" + k)
		}
		if scen%29 == 0 {
			r.AddSample(map[string]any{"scenario": o.Scenario, "executions": o.Executions, "distinct_outcomes": len(o.Outcomes)})
		}
		for _, v := range o.Violations {
			r.Fail(&hx.Failure{Sig: v.Sig, Msg: v.Msg, Case: Case{Scenario: o.Scenario, Eager: o.Eager, Choices: v.Choices, Schedule: v.Schedule}, Rank: int64(len(v.Choices))})
		}
	}
	// ---- half 1b: the same exploration (one preemption less) under the race detector, with the
	// scheduler's hand-offs invisible to it: every explored schedule is also a race check
	raceChecked, raceScen := int64(0), 0
	if bin := filepath.Join(hx.VerifRoot, ".bin", "c12r"); fileExists(bin) {
		xlog := filepath.Join(scratch, "xrace")
		nr := 14
		rres := make(chan workerOut, 8192)
		rdone := make(chan error, nr)
		for w := 0; w < nr; w++ {
			go func(w int) {
				cmd := exec.Command(bin, "-worker", fmt.Sprintf("%d/%d", w, nr), r.Tier, strconv.FormatInt(r.Deadline.Unix(), 10))
				cmd.Env = append(os.Environ(), "GORACE=halt_on_error=0 exitcode=0 log_path="+xlog, "VERIF_RACELOG="+xlog)
				cmd.Stderr = os.Stderr
				out, err := cmd.Output()
				dec := json.NewDecoder(bytes.NewReader(out))
				for {
					var o workerOut
					if dec.Decode(&o) != nil {
						break
					}
					rres <- o
				}
				rdone <- err
			}(w)
		}
		go func() {
			for w := 0; w < nr; w++ {
				if err := <-rdone; err != nil {
					fmt.Println("INFRA: race-build worker failed:", err)
					os.Exit(2)
				}
			}
			close(rres)
		}()
		for o := range rres {
			raceScen++
			if o.Infra != "" {
				fmt.Println("INFRA (race build):", o.Infra, "in", o.Scenario)
				os.RemoveAll(scratch)
				os.Exit(2)
			}
			if o.Capped {
				r.Cap("time cap hit (race build)")
			}
			raceChecked += o.Executions
			r.AddEvals(o.Executions, o.Executions)
			for _, v := range o.Violations {
				r.Fail(&hx.Failure{Sig: v.Sig, Msg: v.Msg, Case: Case{Scenario: o.Scenario, Eager: o.Eager, Choices: v.Choices, Schedule: v.Schedule}, Actual: v.Detail, Rank: int64(len(v.Choices))})
			}
		}
	}
	r.Extra["schedules_race_checked_under_controlled_scheduler"] = raceChecked
	r.Extra["race_check_note"] = "the -race build of the explorer hands control over through raw pipe syscalls (no happens-before edge between controlled threads), so each of these schedules was checked by the Go race detector with only the code's own synchronisation visible; reports whose two accesses are both in the code under test are violations"
	err = <-raceDone
	if ee, ok := err.(*exec.ExitError); ok && ee.ExitCode() == 66 {
		err = nil // the race detector's own exit status when it reported races: the log is parsed below
	}
	if ee, ok := err.(*exec.ExitError); ok && ee.ExitCode() == 3 && strings.Contains(raceOut.String(), "HANG ") {
		// two operations never returned on the unmodified build: a real deadlock
		out := raceOut.String()
		line := out[strings.Index(out, "HANG "):]
		pair := strings.SplitN(line, "\n", 2)[0]
		stacks := line
		if len(stacks) > 6000 {
			stacks = stacks[:6000]
		}
		r.Fail(&hx.Failure{Sig: "deadlock:free-running:" + strings.TrimPrefix(strings.Split(pair, " (auto")[0], "HANG "), Msg: "on the unmodified build these concurrent operations did not return within 20 s: " + pair, Case: map[string]any{"goroutines": stacks}})
		err = nil
	}
	if err != nil {
		fmt.Println("INFRA: race-detector pass failed:", err, raceOut.String())
		os.RemoveAll(scratch)
		os.Exit(2)
	}
	logs, _ := filepath.Glob(raceLog + ".*")
	races := parseRaces(logs)
	for sig, rep := range races {
		r.Fail(&hx.Failure{Sig: "data-race:" + sig, Msg: "the Go race detector reports a data race between " + sig + " (free-running pass, unmodified build)", Case: map[string]any{"race_report": rep}, Rank: 0})
	}
	var runs, bad int
	for _, l := range strings.Split(raceOut.String(), "\n") {
		if strings.HasPrefix(l, "BAD ") {
			r.Fail(&hx.Failure{Sig: "mixed-result:free-running", Msg: l, Case: l})
		}
		fmt.Sscanf(l, "RUNS %d BAD %d", &runs, &bad)
	}
	r.AddEvals(int64(runs), int64(runs))
	r.Extra["scenarios"] = scen
	r.Extra["race_detector_pass"] = map[string]any{"concurrent_runs": runs, "iterations_per_pair": iters, "distinct_races": len(races), "mixed_results": bad, "exhaustive": false,
		"note": "race freedom is sampled (free-running goroutines under the Go race detector), not enumerated: a cooperative scheduler's hand-offs are happens-before edges that hide races"}
	var names []string
	for _, o := range c12ops.All() {
		names = append(names, o.Name)
	}
	r.Rule = fmt.Sprintf("schedule exploration: every pair of %v as two controlled threads (plus watcher goroutine and fsnotify reader in automatic mode), in manual and automatic refresh mode, and the switch scenarios {query x2 || atomic rename switch A->B (+Refresh)} incl. a three-thread variant; "+
		"every schedule with <=2 (thorough 3) preemptions for the switch scenarios and <=1 (2) for the pair matrix, under a lazy and (automatic mode) an eager default order; evaluations = complete executions + free-running race-detector runs; states/transitions = choice points. "+
		"Oracle: no deadlock, no panic, every query/injection equals state A or state B entirely (unchanging files in both directories make a half-built index distinguishable), the cache serves B once everything has settled, manual-mode histories are linearizable w.r.t. (directory, cache) (porcupine). "+
		"Race freedom: the same operation bodies run free under the Go race detector on the unmodified build. non-trivial = every execution", names)
	r.Assumptions = []string{"data races are detected by a separate free-running pass (sampling), not by the exhaustive exploration", "read-only file-system calls are not scheduling points in this check",
		"weak-memory effects below Go's happens-before model are not modelled"}
	os.RemoveAll(scratch)
	r.Finish()
}
