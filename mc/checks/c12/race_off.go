//go:build !race

package main

const raceBuild = false
