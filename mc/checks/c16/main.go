// C16 — generated Spec file names are confined; write and remove are symmetric.
package main

import (
	"syscall"
	"verif/mc/dirmodel"
	"crypto/sha256"
	"encoding/hex"
	"fmt"
	"io/fs"
	"os"
	"path/filepath"
	"sort"
	"strings"

	"tags.cncf.io/container-device-interface/pkg/cdi"
	specs "tags.cncf.io/container-device-interface/specs-go"
	"verif/mc/hx"
)

var idTokens = []string{"a", "/", ".", "..", ".json", ".yaml", " ", "\x00"}
var kindsUnderTest = []string{"vendor.com/class", "v.e.n.dor/cl.ass", "vendor.com/x.json", "vendor.com/x.yaml", "v/c"}

type dirConfig struct {
	Name string   `json:"name"`
	Dirs []string `json:"dirs"` // relative to sandbox/l1/l2
	// which of them exist before the call
	Existing []string `json:"existing"`
}

var dirConfigs = []dirConfig{
	{"one-present", []string{"d0"}, []string{"d0"}},
	{"one-missing", []string{"d0"}, nil},
	{"two-last-present", []string{"d0", "d1"}, []string{"d0", "d1"}},
	{"two-last-missing", []string{"d0", "d1"}, []string{"d0"}},
	{"three-last-nested-missing", []string{"d0", "d1", "d2/n1/n2"}, []string{"d0", "d1"}},
	{"three-last-present-nonclean", []string{"d0", "d1", "d2/./x/.."}, []string{"d0", "d1", "d2"}},
	{"last-repeated", []string{"d1", "d0", "d1"}, []string{"d0", "d1"}},
}

type Case struct {
	Kind    string    `json:"kind"`
	UseID   bool      `json:"transient"`
	ID      []byte    `json:"transient_id_bytes"`
	IDStr   string    `json:"transient_id_printable"`
	Dirs    dirConfig `json:"directories"`
	Decoys  bool      `json:"decoys"`
	Api     string    `json:"name_api"` // ForSpec | ByParts
	// Reconf: the cache has a past - created for another directory, used to write and remove a
	// Spec there, then reconfigured to the directory list under test.
	Reconf bool `json:"cache_reconfigured_after_use,omitempty"`
}

type snap map[string]string // path -> "d" | "f:<hash>" | "l:<target>"

func snapshot(root string) snap {
	s := snap{}
	_ = filepath.WalkDir(root, func(p string, d fs.DirEntry, err error) error {
		if err != nil {
			s[p] = "error:" + err.Error()
			return nil
		}
		rel, _ := filepath.Rel(root, p)
		switch {
		case d.IsDir():
			s[rel] = "d"
		case d.Type()&fs.ModeSymlink != 0:
			t, _ := os.Readlink(p)
			s[rel] = "l:" + t
		case d.Type()&(fs.ModeNamedPipe|fs.ModeSocket|fs.ModeDevice) != 0:
			s[rel] = "special:" + d.Type().String()
		default:
			b, _ := os.ReadFile(p)
			h := sha256.Sum256(b)
			s[rel] = "f:" + hex.EncodeToString(h[:6])
		}
		return nil
	})
	return s
}

// diff returns created, changed, deleted paths.
func diff(a, b snap) (created, changed, deleted []string) {
	for p, v := range b {
		if av, ok := a[p]; !ok {
			created = append(created, p)
		} else if av != v {
			changed = append(changed, p)
		}
	}
	for p := range a {
		if _, ok := b[p]; !ok {
			deleted = append(deleted, p)
		}
	}
	sort.Strings(created)
	sort.Strings(changed)
	sort.Strings(deleted)
	return
}

func rawSpec(kind, marker string) *specs.Spec {
	return &specs.Spec{Version: "1.0.0", Kind: kind, Devices: []specs.Device{{Name: "dev", ContainerEdits: specs.ContainerEdits{Env: []string{"SRC=" + marker}}}}}
}

// modelTarget: A.8 of DESIGN.md
func modelTarget(lastDir, name string) (path string, json bool) {
	t := filepath.Clean(lastDir) + "/" + name
	base := t[strings.LastIndexByte(t, '/')+1:]
	ext := ""
	if i := strings.LastIndexByte(base, '.'); i >= 0 {
		ext = base[i:]
	}
	if ext != ".json" && ext != ".yaml" {
		t += ".yaml"
		ext = ".yaml"
	}
	return t, ext == ".json"
}

func eval(c Case, sandbox string) hx.Result {
	return hx.Guard("", c, func() hx.Result {
		_ = os.RemoveAll(sandbox)
		base := filepath.Join(sandbox, "l1", "l2")
		_ = os.MkdirAll(base, 0o755)
		// things around that must never be touched
		_ = os.WriteFile(filepath.Join(sandbox, "outside.json"), []byte("outside"), 0o644)
		_ = os.WriteFile(filepath.Join(sandbox, "l1", "outside.yaml"), []byte("outside1"), 0o644)
		_ = os.WriteFile(filepath.Join(base, "sibling-of-dirs.json"), []byte("outside2"), 0o644)
		for _, d := range c.Dirs.Existing {
			_ = os.MkdirAll(filepath.Join(base, d), 0o755)
		}
		fail := func(sig, msg string, exp, act any) hx.Result {
			return hx.Result{Outcome: "FAIL", Nontrivial: true, Fail: &hx.Failure{Sig: sig, Msg: msg, Case: c, Expected: exp, Actual: act, Rank: int64(len(c.ID)*10 + len(c.Dirs.Dirs))}}
		}
		raw := rawSpec(c.Kind, "new")
		id := string(c.ID)
		var name string
		var err error
		vendor, class := c.Kind[:strings.IndexByte(c.Kind, '/')], c.Kind[strings.IndexByte(c.Kind, '/')+1:]
		switch {
		case c.UseID && c.Api == "ForSpec":
			name, err = cdi.GenerateNameForTransientSpec(raw, id)
		case c.UseID:
			name = cdi.GenerateTransientSpecName(vendor, class, id)
		case c.Api == "ForSpec":
			name, err = cdi.GenerateNameForSpec(raw)
		default:
			name = cdi.GenerateSpecName(vendor, class)
		}
		if err != nil {
			return fail("name-generation-fails", "name generation failed for a valid Spec: "+err.Error(), nil, nil)
		}
		if strings.ContainsRune(name, '/') || name == "." || name == ".." || name == "" {
			return fail("name-not-a-single-component", fmt.Sprintf("generated name %q is not a single path component", name), nil, name)
		}
		var dirs []string
		for _, d := range c.Dirs.Dirs {
			dirs = append(dirs, filepath.Join(base, d)+trailing(d))
		}
		last := filepath.Clean(dirs[len(dirs)-1])
		target, isJSON := modelTarget(last, name)
		relTarget, _ := filepath.Rel(sandbox, target)
		if c.Decoys {
			// same file name in the lower directories, siblings in the last one, and an old file at the target
			for _, d := range c.Dirs.Existing {
				p := filepath.Join(base, d)
				if filepath.Clean(p) != last && !strings.ContainsRune(name, 0) {
					_ = os.WriteFile(filepath.Join(p, filepath.Base(target)), []byte(`{"cdiVersion":"1.0.0","kind":"`+c.Kind+`","devices":[{"name":"dev","containerEdits":{"env":["SRC=lower"]}}]}`), 0o644)
					// a second definition of the same device in the same lower directory: a conflict there
					// must not take the device away from the file written into the last directory
					_ = os.WriteFile(filepath.Join(p, "zz-conflict.json"), []byte(`{"cdiVersion":"1.0.0","kind":"`+c.Kind+`","devices":[{"name":"dev","containerEdits":{"env":["SRC=lower-conflict"]}}]}`), 0o644)
				}
			}
			if _, e := os.Stat(last); e == nil {
				_ = os.WriteFile(filepath.Join(last, "sibling.json"), []byte(`{"cdiVersion":"1.0.0","kind":"other.org/k","devices":[{"name":"s","containerEdits":{"env":["SRC=sibling"]}}]}`), 0o644)
				_ = os.WriteFile(filepath.Join(last, "sibling.txt"), []byte("text"), 0o644)
				// entries that are not regular files, named to sort before and after the target: they are no
				// Spec files and must neither be touched nor get in the way of the one that is written
				_ = syscall.Mkfifo(filepath.Join(last, "+early-fifo"), 0o644)
				_ = syscall.Mknod(filepath.Join(last, "+early-socket"), syscall.S_IFSOCK|0o644, 0)
				_ = syscall.Mkfifo(filepath.Join(last, "~late-fifo"), 0o644)
				_ = os.Symlink(filepath.Join(last, "no-such-target"), filepath.Join(last, "+dangling-link"))
				if !strings.ContainsRune(name, 0) {
					_ = os.WriteFile(target, []byte("old content at the target"), 0o644)
					// neighbours whose names derive from the target's: the other encoding's extension,
					// no extension, backup / hidden / temporary spellings - none may be touched
					tb := filepath.Base(target)
					stem := strings.TrimSuffix(strings.TrimSuffix(tb, ".json"), ".yaml")
					other := stem + ".json"
					if isJSON {
						other = stem + ".yaml"
					}
					for i, n := range []string{other, stem, tb + ".bak", "." + tb, tb + ".tmp", "spec.1.tmp", stem + ".yml"} {
						if n == tb || n == "" {
							continue
						}
						_ = os.WriteFile(filepath.Join(last, n), []byte(fmt.Sprintf(`{"cdiVersion":"1.0.0","kind":"other.org/n%d","devices":[{"name":"n","containerEdits":{"env":["SRC=neighbour"]}}]}`, i)), 0o644)
					}
				}
			}
		}
		var cache *cdi.Cache
		if c.Reconf {
			prev := filepath.Join(base, "dprev")
			cache, _ = cdi.NewCache(cdi.WithSpecDirs(filepath.Join(base, "dprev0"), prev), cdi.WithAutoRefresh(false))
			if err := cache.WriteSpec(rawSpec("warm.org/up", "warm"), "warmup"); err != nil {
				return fail("reconf:warm-up-write-fails", err.Error(), nil, nil)
			}
			_ = cache.Refresh()
			if err := cache.RemoveSpec("warmup"); err != nil {
				return fail("reconf:warm-up-remove-fails", err.Error(), nil, nil)
			}
			opt, reuse := dirmodel.Dirs(dirs...)
			if err := cache.Configure(opt); err != nil {
				return fail("reconf:configure-fails", err.Error(), nil, nil)
			}
			reuse()
		} else {
			opt, reuse := dirmodel.Dirs(dirs...)
			cache, _ = cdi.NewCache(opt, cdi.WithAutoRefresh(false))
			reuse()
		}
		// the caller owns the slices it passes and gets: the one given to WithSpecDirs has been reused for
		// something else by now, and the one GetSpecDirectories returns is reversed and overwritten
		if got := cache.GetSpecDirectories(); len(got) > 0 {
			for i, j := 0, len(got)-1; i < j; i, j = i+1, j-1 {
				got[i], got[j] = got[j], got[i]
			}
			got[len(got)-1] = filepath.Join(base, "written-into-the-callers-copy")
		}
		before := snapshot(sandbox)
		if !strings.ContainsRune(name, 0) && len(filepath.Base(target)) <= 255 && !c.Decoys {
			// nothing was ever written under the name (the last directory may not even exist): removing
			// it succeeds and changes nothing
			if err := cache.RemoveSpec(name); err != nil {
				return fail("remove-of-a-name-never-written-fails", "RemoveSpec of a name that was never written failed: "+err.Error(), nil, err.Error())
			}
			if cr, ch, de := diff(before, snapshot(sandbox)); len(cr)+len(ch)+len(de) != 0 {
				return fail("remove-of-a-name-never-written-changed-something", fmt.Sprint(cr, ch, de), nil, nil)
			}
		}
		werr := cache.WriteSpec(raw, name)
		after := snapshot(sandbox)
		created, changed, deleted := diff(before, after)
		if werr != nil {
			if strings.ContainsRune(name, 0) || len(filepath.Base(target)) > 255 {
				// no file system can store this name (NUL, or longer than 255 bytes); the only requirement left is that nothing else happened
				for _, p := range append(append(created, changed...), deleted...) {
					if after[p] != "d" {
						return fail("refused-write-changed-files", "WriteSpec failed but changed "+p, nil, []any{created, changed, deleted})
					}
				}
				return hx.Result{Outcome: "write-refused:name-cannot-be-stored", Nontrivial: true}
			}
			return fail("write-fails", fmt.Sprintf("WriteSpec(%q) failed: %v", name, werr), relTarget, nil)
		}
		// exactly one file created or replaced, at the model's path; only missing directories of the last Spec dir may appear
		var files []string
		for _, p := range created {
			if after[p] == "d" {
				full := filepath.Join(sandbox, p)
				if !(full == last || strings.HasPrefix(last, full+"/")) {
					return fail("foreign-directory-created", "directory "+p+" created", relTarget, created)
				}
				continue
			}
			files = append(files, p)
		}
		files = append(files, changed...)
		if len(deleted) != 0 {
			return fail("write-deleted-something", "WriteSpec deleted "+fmt.Sprint(deleted), nil, deleted)
		}
		if len(files) != 1 || files[0] != relTarget {
			return fail("write-touched-other-than-target:"+classify(files, relTarget), fmt.Sprintf("WriteSpec(%q) created/changed %v, model target %s", name, files, relTarget), relTarget, files)
		}
		data, _ := os.ReadFile(target)
		if isJSON != (len(data) > 0 && data[0] == '{') {
			return fail("wrong-encoding", fmt.Sprintf("file %s: JSON expected=%v", relTarget, isJSON), isJSON, string(data[:min(20, len(data))]))
		}
		// after a refresh the devices resolve to that file with the top priority
		_ = cache.Refresh()
		q := c.Kind + "=dev"
		d := cache.GetDevice(q)
		if d == nil || d.GetSpec().GetPath() != target || d.GetSpec().GetPriority() != len(dirs)-1 || d.ContainerEdits.Env[0] != "SRC=new" {
			got := "unresolved"
			if d != nil {
				got = fmt.Sprintf("%s prio %d %v", d.GetSpec().GetPath(), d.GetSpec().GetPriority(), d.ContainerEdits.Env)
			}
			return fail("written-spec-does-not-take-precedence", "after Refresh "+q+" is "+got, target, got)
		}
		// write again: replaces, still one file
		raw2 := rawSpec(c.Kind, "second")
		mid := snapshot(sandbox)
		if err := cache.WriteSpec(raw2, name); err != nil {
			return fail("rewrite-fails", "second WriteSpec failed: "+err.Error(), nil, nil)
		}
		cr, ch, de := diff(mid, snapshot(sandbox))
		if len(cr) != 0 || len(de) != 0 || len(ch) != 1 || ch[0] != relTarget {
			return fail("rewrite-touched-other-than-target", fmt.Sprintf("second WriteSpec created %v changed %v deleted %v", cr, ch, de), relTarget, []any{cr, ch, de})
		}
		// remove: exactly that file
		mid = snapshot(sandbox)
		if err := cache.RemoveSpec(name); err != nil {
			return fail("remove-fails", "RemoveSpec failed: "+err.Error(), nil, nil)
		}
		cr, ch, de = diff(mid, snapshot(sandbox))
		if len(cr) != 0 || len(ch) != 0 || len(de) != 1 || de[0] != relTarget {
			return fail("remove-touched-other-than-target", fmt.Sprintf("RemoveSpec created %v changed %v deleted %v", cr, ch, de), relTarget, []any{cr, ch, de})
		}
		// removing again (absent) succeeds and changes nothing
		mid = snapshot(sandbox)
		if err := cache.RemoveSpec(name); err != nil {
			return fail("remove-of-absent-fails", "RemoveSpec of an absent name failed: "+err.Error(), nil, nil)
		}
		cr, ch, de = diff(mid, snapshot(sandbox))
		if len(cr)+len(ch)+len(de) != 0 {
			return fail("remove-of-absent-changed-something", fmt.Sprint(cr, ch, de), nil, nil)
		}
		// the name is free again: writing the very Spec the cache loaded from it earlier (no refresh
		// since the removal) must create the file anew - and once more after the file was replaced
		// behind the cache's back by other content
		kept := filepath.Join(sandbox, "kept-elsewhere"+filepath.Ext(target))
		for round, prep := range []func(){func() {}, func() { _ = os.WriteFile(target, []byte("replaced by someone else"), 0o644) },
			// ... and after someone put a symbolic link to a file kept elsewhere under the name: the write
			// replaces the directory entry, the file elsewhere is none of its business
			func() {
				_ = os.Remove(target)
				_ = os.WriteFile(kept, []byte(`{"cdiVersion":"1.0.0","kind":"kept.org/k","devices":[{"name":"k","containerEdits":{"env":["SRC=kept"]}}]}`), 0o644)
				_ = os.Symlink(kept, target)
			}} {
			prep()
			mid = snapshot(sandbox)
			if err := cache.WriteSpec(rawSpec(c.Kind, "new"), name); err != nil {
				return fail("write-after-remove-fails", "WriteSpec of the Spec written first, after its removal, failed: "+err.Error(), nil, nil)
			}
			cr, ch, de = diff(mid, snapshot(sandbox))
			touched := append(append([]string{}, cr...), ch...)
			if len(de) != 0 || len(touched) != 1 || touched[0] != relTarget {
				return fail(fmt.Sprintf("write-of-the-spec-loaded-earlier-does-not-produce-the-file:round%d", round), fmt.Sprintf("WriteSpec (same Spec as loaded from this name before) created %v changed %v deleted %v, model: exactly %s", cr, ch, de, relTarget), relTarget, []any{cr, ch, de})
			}
			if back, rerr := cdi.ReadSpec(target, 0); rerr != nil || len(back.Devices) == 0 || back.Devices[0].ContainerEdits.Env[0] != "SRC=new" {
				return fail("write-of-the-spec-loaded-earlier-wrong-content", "the file does not hold the Spec just written", nil, nil)
			}
		}
		if err := cache.RemoveSpec(name); err != nil {
			return fail("remove-fails", "final RemoveSpec failed: "+err.Error(), nil, nil)
		}
		_ = os.Remove(kept)
		enc := "yaml"
		if isJSON {
			enc = "json"
		}
		return hx.Result{Outcome: "ok:" + enc + ":" + c.Dirs.Name, Nontrivial: true}
	})
}

func trailing(d string) string {
	if strings.HasSuffix(d, "..") {
		return "/"
	}
	return ""
}

func classify(files []string, target string) string {
	if len(files) == 0 {
		return "nothing-written"
	}
	for _, f := range files {
		if f != target {
			if strings.Contains(f, ".tmp") {
				return "temporary-left"
			}
			if filepath.Dir(f) != filepath.Dir(target) {
				return "other-directory"
			}
			return "other-name"
		}
	}
	return "extra"
}

func main() {
	r := hx.Start("C16", "model_checking")
	base, err := os.MkdirTemp("/dev/shm", "verif-c16-")
	if err != nil {
		base, _ = os.MkdirTemp("", "verif-c16-")
	}
	defer os.RemoveAll(base)
	if r.Replay != "" {
		var c Case
		r.LoadReplay(&c)
		res := eval(c, filepath.Join(base, "replay"))
		os.RemoveAll(base)
		hx.ReplayExit("C16", res)
	}
	maxTok := 2
	if r.Thorough() {
		maxTok = 3
	}
	ids := []string{""}
	level := []string{""}
	for n := 1; n <= maxTok; n++ {
		var next []string
		for _, p := range level {
			for _, t := range idTokens {
				next = append(next, p+t)
			}
		}
		ids = append(ids, next...)
		level = next
	}
	var cases []Case
	for _, k := range kindsUnderTest {
		for _, dc := range dirConfigs {
			for _, decoys := range []bool{false, true} {
				for _, api := range []string{"ForSpec", "ByParts"} {
					cases = append(cases, Case{Kind: k, Dirs: dc, Decoys: decoys, Api: api})
					cases = append(cases, Case{Kind: k, Dirs: dc, Decoys: decoys, Api: api, Reconf: true})
					for _, id := range ids {
						if api == "ByParts" && !r.Thorough() && len(id) > 2 {
							continue
						}
						cases = append(cases, Case{Kind: k, UseID: true, ID: []byte(id), IDStr: fmt.Sprintf("%q", id), Dirs: dc, Decoys: decoys, Api: api})
						if len(id) <= 1 {
							cases = append(cases, Case{Kind: k, UseID: true, ID: []byte(id), IDStr: fmt.Sprintf("%q", id), Dirs: dc, Decoys: decoys, Api: api, Reconf: true})
						}
					}
				}
			}
		}
	}
	// long transient ids: file names of 200..256 bytes made of one-, two- and three-byte characters
	// (the limit of a file name is 255 BYTES; whatever the writer derives from the name must fit too)
	nLong := 0
	for _, unit := range []string{"a", "\u00e9", "\u20ac"} {
		for _, total := range []int{200, 239, 240, 241, 245, 249, 250, 251, 253, 254, 255, 256} {
			for _, ext := range []string{"", ".json"} {
				fixed := len("vendor.com-class_") + len(ext)
				if ext == "" {
					fixed += len(".yaml")
				}
				k := (total - fixed) / len(unit)
				id := strings.Repeat(unit, k) + strings.Repeat("a", total-fixed-k*len(unit)) + ext
				for _, dc := range []dirConfig{dirConfigs[0], dirConfigs[3]} {
					cases = append(cases, Case{Kind: "vendor.com/class", UseID: true, ID: []byte(id), IDStr: fmt.Sprintf("%d-byte name of %d-byte characters%s", total, len(unit), ext), Dirs: dc, Decoys: false, Api: "ForSpec"})
					nLong++
				}
			}
		}
	}
	r.Extra["long_file_names"] = nLong
	r.Rule = fmt.Sprintf("%d Spec kinds (dots in vendor/class, classes ending in .json/.yaml, one-letter) x transient ids = every string of 0..%d tokens over %q (plus the non-transient name) x %d directory configurations (1-3 directories, last present / missing / nested missing / non-clean / repeated) x decoys (same name in lower directories, siblings, old file at the target, neighbours named after the target: other extension, no extension, .bak/.tmp/hidden) x both name APIs, and (non-transient names and ids of <=1 byte) on a cache with a past: created for other directories, used to write and remove a Spec there, then reconfigured; "+
		"sequence per case: RemoveSpec of the name never written (cases without decoys), WriteSpec, Refresh+GetDevice, WriteSpec again, RemoveSpec, RemoveSpec again, WriteSpec of the first Spec again (three times: name free, file replaced by someone else, name taken by a symbolic link to a file kept elsewhere), RemoveSpec, with a snapshot (paths, types, content hashes) of a sandbox three levels above the Spec directories before and after every step. "+
		"Oracle: name is one path component; exactly one file created/replaced at the model path with the model encoding; top precedence after refresh; remove deletes exactly that file; removing an absent name succeeds. Distinct by construction; all non-trivial",
		len(kindsUnderTest), maxTok, idTokens, len(dirConfigs))
	r.Assumptions = []string{"a name containing NUL cannot be stored by any file system: there the write must fail and must not touch any file"}
	nw := 16
	pool := make(chan string, nw)
	for i := 0; i < nw; i++ {
		pool <- filepath.Join(base, fmt.Sprintf("w%d", i))
	}
	r.ParallelL(int64(len(cases)), func(i int64, l *hx.Local) {
		sb := <-pool
		res := eval(cases[i], sb)
		pool <- sb
		l.Record(res, func() any { return map[string]any{"case": cases[i], "outcome": res.Outcome} })
	})
	os.RemoveAll(base)
	r.Finish()
}
