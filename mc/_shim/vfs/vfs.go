// Package vfs is the environment model of Engine B: file-system operations are performed for
// real on a scratch tree, but each one is a scheduling point, may be answered with an injected
// errno or a crash, and feeds a virtual inotify (the kernel side of fsnotify) so that the event
// stream the cache sees is decided by the explorer, not by timing.
package vfs

import (
	"errors"
	"fmt"
	"os"
	"path/filepath"
	"sort"
	"strings"
	"syscall"

	"tags.cncf.io/container-device-interface/verifshim/sched"
)

// inotify masks (values as in <sys/inotify.h>)
const (
	InModify     = 0x2
	InAttrib     = 0x4
	InMovedFrom  = 0x40
	InMovedTo    = 0x80
	InCreate     = 0x100
	InDelete     = 0x200
	InDeleteSelf = 0x400
	InMoveSelf   = 0x800
	InIgnored    = 0x8000
	InIsDir      = 0x40000000
)

// KEvent is one record in an inotify instance's kernel queue.
type KEvent struct {
	WatchPath string // the path the watch was added with
	Name      string // entry name inside the directory ("" for self events)
	Mask      uint32
}

func (k KEvent) String() string { return fmt.Sprintf("%s/%s:%#x", filepath.Base(k.WatchPath), k.Name, k.Mask) }

// Instance is one virtual inotify instance.
type Instance struct {
	ID      int
	Watches map[string]string // cleaned directory path -> path as given to Add
	Queue   []KEvent
	Closed  bool
}

// World is the per-execution environment state.
type World struct {
	Root        string // scratch root (paths in keys are relative to it)
	Instances   []*Instance
	tempCounter int
	fdPaths     map[int]string
	// fault configuration
	FaultFor    func(thread *sched.Thread, op, path string) []string // extra answers (errno names) for this op; nil = none
	CrashFor    func(thread *sched.Thread, op, path string) bool     // may the thread's process die before this op?
	Hook        func(op, path string) error                         // unconditional environment answer (e.g. EMFILE window); nil error = proceed
	WriteChunks int                                                 // a Write is split into this many chunks (>=1)
	OpLog       []string                                            // operations actually performed (kind path), for conformance
	LogOps      bool
	FdCreates   int // number of descriptor-creating calls so far (for exhaustion windows)
	// OverflowReports: a watcher's reader may report a kernel queue overflow (ErrEventOverflow on
	// the Errors channel) before it hands over its first event: the aftermath of an earlier burst
	// whose net effect on the directories is nil. One environment answer (fault) per watcher.
	OverflowReports bool
	CoarseReads     bool // read-only operations (lstat, stat, open for reading, read, opendir) are not scheduling points
	LiveWatchers int
}

// W is the world of the execution in progress.
var W = &World{WriteChunks: 1, fdPaths: map[int]string{}}

// Reset starts a fresh world.
func Reset(root string) *World {
	W = &World{Root: root, WriteChunks: 1, fdPaths: map[int]string{}}
	return W
}

func rel(p string) string {
	if W.Root != "" && strings.HasPrefix(p, W.Root) {
		r := strings.TrimPrefix(p, W.Root)
		if r == "" {
			return "/"
		}
		return r
	}
	return p
}

var errnoByName = map[string]syscall.Errno{
	"ENOSPC": syscall.ENOSPC, "EIO": syscall.EIO, "EMFILE": syscall.EMFILE, "ENFILE": syscall.ENFILE, "ENOENT": syscall.ENOENT,
	"EACCES": syscall.EACCES, "ENOTDIR": syscall.ENOTDIR, "EXDEV": syscall.EXDEV, "EEXIST": syscall.EEXIST, "EINTR": syscall.EINTR,
	"EBUSY": syscall.EBUSY, "EPERM": syscall.EPERM, "EROFS": syscall.EROFS, "EINVAL": syscall.EINVAL, "ENOSYS": syscall.ENOSYS,
	"EDQUOT": syscall.EDQUOT, "EFBIG": syscall.EFBIG, "ENOMEM": syscall.ENOMEM, "EISDIR": syscall.EISDIR, "ELOOP": syscall.ELOOP,
	"ENAMETOOLONG": syscall.ENAMETOOLONG, "ENOTEMPTY": syscall.ENOTEMPTY, "EMLINK": syscall.EMLINK, "ETXTBSY": syscall.ETXTBSY,
}

var readOnly = map[string]bool{"lstat": true, "stat": true, "open": true, "read": true, "opendir": true}

// Env is the object environment operations are recorded on (sched.Touch).
var Env = new(int)

// ErrDead is what a crashed thread's file-system calls return: the process is gone.
var ErrDead = errors.New("process is dead")

// Begin is called at the start of every environment operation: scheduling point, then the
// environment's answer. A non-nil error means the operation must not be performed.
func Begin(op, path string) error {
	// the whole environment (file tree, inotify instances and queues, descriptor accounting) is
	// one shared object for the happens-before hashing: touched before the point (state the
	// caller prepared) and after it (the operation itself), also for calls that are no points
	sched.Touch(Env)
	if !(W.CoarseReads && readOnly[op]) {
		sched.Point(op + " " + rel(path))
	}
	sched.Touch(Env)
	t := sched.Current()
	if t != nil && t.Dead {
		return ErrDead
	}
	if W.Hook != nil {
		if err := W.Hook(op, path); err != nil {
			log(op, path, err.Error())
			return err
		}
	}
	if t == nil {
		log(op, path, "")
		return nil
	}
	alts := []string{"ok"}
	kinds := []int{sched.KindSched}
	if W.FaultFor != nil {
		for _, f := range W.FaultFor(t, op, path) {
			alts = append(alts, f)
			kinds = append(kinds, sched.KindFault)
		}
	}
	if W.CrashFor != nil && W.CrashFor(t, op, path) {
		alts = append(alts, "CRASH")
		kinds = append(kinds, sched.KindCrash)
	}
	if len(alts) == 1 {
		log(op, path, "")
		return nil
	}
	c := sched.Choose(op+" "+rel(path), alts, kinds)
	if c == 0 {
		log(op, path, "")
		return nil
	}
	if alts[c] == "CRASH" {
		t.Dead = true
		log(op, path, "CRASH")
		return ErrDead
	}
	log(op, path, alts[c])
	name := alts[c]
	if i := strings.IndexByte(name, '@'); i >= 0 { // e.g. ENOSPC@3 (partial write): handled by the caller
		name = name[:i]
	}
	return &FaultError{Errno: errnoByName[name], Answer: alts[c]}
}

// FaultError is an injected errno (Answer carries details such as a partial write length).
type FaultError struct {
	Errno  syscall.Errno
	Answer string
}

func (f *FaultError) Error() string { return f.Errno.Error() }
func (f *FaultError) Unwrap() error { return f.Errno }

func log(op, path, answer string) {
	if W.LogOps {
		s := op + " " + rel(path)
		if answer != "" {
			s += " => " + answer
		}
		W.OpLog = append(W.OpLog, s)
	}
}

// PathErr wraps an injected error like the os package would.
func PathErr(op, path string, err error) error {
	var fe *FaultError
	if errors.As(err, &fe) {
		return &os.PathError{Op: op, Path: path, Err: fe.Errno}
	}
	return &os.PathError{Op: op, Path: path, Err: err}
}

// ---- inotify --------------------------------------------------------------------------------

// NewInstance creates a virtual inotify instance.
func NewInstance() *Instance {
	in := &Instance{ID: len(W.Instances), Watches: map[string]string{}}
	W.Instances = append(W.Instances, in)
	return in
}

// Notify appends an event for entry name in directory dir to every instance watching dir.
// Identical to the unread queue tail => merged (as the kernel does).
func Notify(dir, name string, mask uint32) {
	dir = filepath.Clean(dir)
	for _, in := range W.Instances {
		if in.Closed {
			continue
		}
		given, ok := in.Watches[dir]
		if !ok {
			continue
		}
		ev := KEvent{WatchPath: given, Name: name, Mask: mask}
		if n := len(in.Queue); n > 0 && in.Queue[n-1] == ev {
			continue
		}
		in.Queue = append(in.Queue, ev)
	}
}

// NotifySelf delivers a self event of a watched directory and optionally drops the watch.
func NotifySelf(dir string, mask uint32, drop bool) {
	dir = filepath.Clean(dir)
	for _, in := range W.Instances {
		if in.Closed {
			continue
		}
		given, ok := in.Watches[dir]
		if !ok {
			continue
		}
		in.Queue = append(in.Queue, KEvent{WatchPath: given, Mask: mask})
		if drop {
			in.Queue = append(in.Queue, KEvent{WatchPath: given, Mask: InIgnored})
			delete(in.Watches, dir)
		}
	}
}

// WatchSummary renders live instances and watches (resource accounting, state keys).
func WatchSummary() string {
	var parts []string
	for _, in := range W.Instances {
		if in.Closed {
			continue
		}
		var ws []string
		for d := range in.Watches {
			ws = append(ws, rel(d))
		}
		sort.Strings(ws)
		parts = append(parts, fmt.Sprintf("inotify%d{%s}q%d", in.ID, strings.Join(ws, ","), len(in.Queue)))
	}
	return strings.Join(parts, " ")
}

// LiveInstances / LiveWatches: resource counters.
func LiveInstances() (n int) {
	for _, in := range W.Instances {
		if !in.Closed {
			n++
		}
	}
	return
}

func LiveWatches() (n int) {
	for _, in := range W.Instances {
		if !in.Closed {
			n += len(in.Watches)
		}
	}
	return
}

// ---- file-system operations with event generation ----------------------------------------------
// Each returns os-style errors. They are used both by the vos shim (code under test) and by
// harness threads playing "another process".

func exists(p string) bool {
	_, err := os.Lstat(p)
	return err == nil
}

func isDir(p string) bool {
	fi, err := os.Lstat(p)
	return err == nil && fi.IsDir()
}

// Remove unlinks a file or removes an empty directory.
func Remove(path string) error {
	// as os.Remove: unlink(2), and when that fails rmdir(2) - two system calls, two points
	if err := Begin("unlink", path); err != nil {
		return PathErr("remove", path, err)
	}
	e := syscall.Unlink(path)
	if e == nil {
		Notify(filepath.Dir(path), filepath.Base(path), uint32(InDelete))
		return nil
	}
	if err := Begin("rmdir", path); err != nil {
		return PathErr("remove", path, err)
	}
	e1 := syscall.Rmdir(path)
	if e1 == nil {
		NotifySelf(path, InDeleteSelf, true)
		Notify(filepath.Dir(path), filepath.Base(path), uint32(InDelete)|InIsDir)
		return nil
	}
	if e1 != syscall.ENOTDIR {
		e = e1
	}
	return &os.PathError{Op: "remove", Path: path, Err: e}
}

// RemoveAll removes a directory tree entry by entry (as rm -rf does), each unlink a point.
func RemoveAll(path string) error {
	fi, err := os.Lstat(path)
	if err != nil {
		if os.IsNotExist(err) {
			return nil
		}
		return err
	}
	if fi.IsDir() {
		// entries in the order the file system returns them, as os.RemoveAll / rm -r see them
		var names []string
		if d, err := os.Open(path); err == nil {
			names, _ = d.Readdirnames(-1)
			d.Close()
		}
		for _, n := range names {
			if err := RemoveAll(filepath.Join(path, n)); err != nil {
				return err
			}
		}
	}
	return Remove(path)
}

// Mkdir creates one directory.
func Mkdir(path string, perm os.FileMode) error {
	if err := Begin("mkdir", path); err != nil {
		return PathErr("mkdir", path, err)
	}
	if err := os.Mkdir(path, perm); err != nil {
		return err
	}
	Notify(filepath.Dir(path), filepath.Base(path), InCreate|InIsDir)
	return nil
}

// MkdirAll creates missing components one by one.
func MkdirAll(path string, perm os.FileMode) error {
	path = filepath.Clean(path)
	if fi, err := os.Stat(path); err == nil {
		if fi.IsDir() {
			return nil
		}
		return &os.PathError{Op: "mkdir", Path: path, Err: syscall.ENOTDIR}
	}
	parent := filepath.Dir(path)
	if parent != path {
		if err := MkdirAll(parent, perm); err != nil {
			return err
		}
	}
	err := Mkdir(path, perm)
	if err != nil && os.IsExist(err) && isDir(path) {
		return nil
	}
	return err
}

// Rename moves oldpath to newpath (overwriting).
func Rename(oldpath, newpath string) error {
	if err := Begin("rename", oldpath+" -> "+rel(newpath)); err != nil {
		return &os.LinkError{Op: "rename", Old: oldpath, New: newpath, Err: unwrapErrno(err)}
	}
	fi, _ := os.Lstat(oldpath)
	if err := os.Rename(oldpath, newpath); err != nil {
		return err
	}
	Notify(filepath.Dir(oldpath), filepath.Base(oldpath), InMovedFrom)
	Notify(filepath.Dir(newpath), filepath.Base(newpath), InMovedTo)
	if fi != nil && fi.IsDir() {
		// a watch follows the inode: the watched directory keeps its watch under its new name
		// (the watcher still knows it under the name it was added with) and gets IN_MOVE_SELF
		oldc, newc := filepath.Clean(oldpath), filepath.Clean(newpath)
		for _, in := range W.Instances {
			if in.Closed {
				continue
			}
			if given, ok := in.Watches[oldc]; ok {
				delete(in.Watches, oldc)
				in.Watches[newc] = given
				in.Queue = append(in.Queue, KEvent{WatchPath: given, Mask: InMoveSelf})
			}
		}
	}
	return nil
}

func unwrapErrno(err error) error {
	var fe *FaultError
	if errors.As(err, &fe) {
		return fe.Errno
	}
	return err
}

// Link / Symlink create a new name.
func Link(oldname, newname string) error {
	if err := Begin("link", newname); err != nil {
		return &os.LinkError{Op: "link", Old: oldname, New: newname, Err: unwrapErrno(err)}
	}
	if err := os.Link(oldname, newname); err != nil {
		return err
	}
	Notify(filepath.Dir(newname), filepath.Base(newname), InCreate)
	return nil
}

func Symlink(oldname, newname string) error {
	if err := Begin("symlink", newname); err != nil {
		return &os.LinkError{Op: "symlink", Old: oldname, New: newname, Err: unwrapErrno(err)}
	}
	if err := os.Symlink(oldname, newname); err != nil {
		return err
	}
	Notify(filepath.Dir(newname), filepath.Base(newname), InCreate)
	return nil
}

// WriteFile = open(O_CREAT|O_TRUNC) . write . close, each a point, as os.WriteFile does.
func WriteFile(path string, data []byte, perm os.FileMode) error {
	f, err := OpenFile(path, os.O_WRONLY|os.O_CREATE|os.O_TRUNC, perm)
	if err != nil {
		return err
	}
	_, err = f.Write(data)
	if cerr := f.Close(); cerr != nil && err == nil {
		err = cerr
	}
	return err
}

// CreateEmpty creates an empty file (touch).
func CreateEmpty(path string) error {
	f, err := OpenFile(path, os.O_WRONLY|os.O_CREATE|os.O_EXCL, 0o644)
	if err != nil {
		return err
	}
	return f.Close()
}

// File is an open file of the virtual environment.
type File struct {
	f      *os.File
	path   string
	closed bool
}

// OpenFile opens (and possibly creates / truncates) a file.
func OpenFile(path string, flag int, perm os.FileMode) (*File, error) {
	op := "open"
	if flag&os.O_CREATE != 0 {
		op = "creat"
	}
	W.FdCreates++
	if err := Begin(op, path); err != nil {
		return nil, PathErr("open", path, err)
	}
	// events are generated for the directory entry the kernel really touches: a write through
	// a symbolic link modifies the link's target, not an entry of the link's directory
	if resolved, err := filepath.EvalSymlinks(path); err == nil {
		path = resolved
	}
	existed := exists(path)
	var oldSize int64
	if fi, err := os.Stat(path); err == nil {
		oldSize = fi.Size()
	}
	f, err := os.OpenFile(path, flag, perm)
	if err != nil {
		return nil, err
	}
	if flag&os.O_CREATE != 0 && !existed {
		Notify(filepath.Dir(path), filepath.Base(path), InCreate)
	}
	if flag&os.O_TRUNC != 0 && existed && oldSize > 0 {
		Notify(filepath.Dir(path), filepath.Base(path), InModify)
	}
	W.fdPaths[int(f.Fd())] = path
	return &File{f: f, path: path}, nil
}

// Open opens for reading (files or directories).
func Open(path string) (*File, error) { return OpenFile(path, os.O_RDONLY, 0) }

// CreateTemp creates dir/pattern with '*' replaced by a per-execution counter (deterministic).
func CreateTemp(dir, pattern string) (*File, error) {
	for tries := 0; tries < 10000; tries++ {
		W.tempCounter++
		name := strings.Replace(pattern, "*", fmt.Sprintf("%d", W.tempCounter), 1)
		if !strings.Contains(pattern, "*") {
			name = pattern + fmt.Sprintf("%d", W.tempCounter)
		}
		p := filepath.Join(dir, name)
		if exists(p) {
			continue
		}
		return OpenFile(p, os.O_RDWR|os.O_CREATE|os.O_EXCL, 0o600)
	}
	return nil, errors.New("vfs: no free temp name")
}

func (f *File) Name() string { return f.path }
func (f *File) Fd() uintptr  { return f.f.Fd() }
func (f *File) Real() *os.File {
	return f.f
}

// Write writes data in W.WriteChunks chunks; each chunk is a point and may fail part-way.
func (f *File) Write(data []byte) (int, error) {
	chunks := W.WriteChunks
	if chunks < 1 || len(data) < chunks {
		chunks = 1
	}
	written := 0
	for c := 0; c < chunks; c++ {
		lo, hi := len(data)*c/chunks, len(data)*(c+1)/chunks
		part := data[lo:hi]
		if err := Begin(fmt.Sprintf("write[%d/%d]", c+1, chunks), f.path); err != nil {
			var fe *FaultError
			if errors.As(err, &fe) {
				// partial write: ENOSPC@k means k bytes of this chunk reach the file
				k := 0
				if i := strings.IndexByte(fe.Answer, '@'); i >= 0 {
					switch fe.Answer[i+1:] {
					case "0":
						k = 0
					case "1":
						k = 1
					case "half":
						k = len(part) / 2
					case "all-but-1":
						k = len(part) - 1
					}
				}
				if k > len(part) {
					k = len(part)
				}
				if k > 0 {
					n, _ := f.f.Write(part[:k])
					written += n
					Notify(filepath.Dir(f.path), filepath.Base(f.path), InModify)
				}
				return written, &os.PathError{Op: "write", Path: f.path, Err: fe.Errno}
			}
			return written, &os.PathError{Op: "write", Path: f.path, Err: err}
		}
		n, err := f.f.Write(part)
		written += n
		if n > 0 {
			Notify(filepath.Dir(f.path), filepath.Base(f.path), InModify)
		}
		if err != nil {
			return written, err
		}
	}
	return written, nil
}

// Read, ReadAt, Seek, Stat, Sync, Truncate, Readdirnames: the rest of the *os.File surface code under
// test may start using; each is one environment operation on the open descriptor.
func (f *File) Read(p []byte) (int, error) {
	if err := Begin("read", f.path); err != nil {
		return 0, PathErr("read", f.path, err)
	}
	return f.f.Read(p)
}

func (f *File) ReadAt(p []byte, off int64) (int, error) {
	if err := Begin("read", f.path); err != nil {
		return 0, PathErr("read", f.path, err)
	}
	return f.f.ReadAt(p, off)
}

func (f *File) Seek(offset int64, whence int) (int64, error) { return f.f.Seek(offset, whence) }

func (f *File) Stat() (os.FileInfo, error) {
	if err := Begin("stat", f.path); err != nil {
		return nil, PathErr("stat", f.path, err)
	}
	return f.f.Stat()
}

func (f *File) Sync() error {
	if err := Begin("fsync", f.path); err != nil {
		return PathErr("sync", f.path, err)
	}
	return f.f.Sync()
}

func (f *File) Truncate(size int64) error {
	if err := Begin("truncate", f.path); err != nil {
		return PathErr("truncate", f.path, err)
	}
	err := f.f.Truncate(size)
	if err == nil {
		Notify(filepath.Dir(f.path), filepath.Base(f.path), InModify)
	}
	return err
}

func (f *File) Readdirnames(n int) ([]string, error) {
	if err := Begin("readdir", f.path); err != nil {
		return nil, PathErr("readdirent", f.path, err)
	}
	return f.f.Readdirnames(n)
}

func (f *File) WriteString(s string) (int, error) { return f.Write([]byte(s)) }

func (f *File) Close() error {
	if f.closed {
		return &os.PathError{Op: "close", Path: f.path, Err: os.ErrClosed}
	}
	err := Begin("close", f.path)
	// the descriptor is released whatever the answer is (a dead process's descriptors vanish too)
	f.closed = true
	delete(W.fdPaths, int(f.f.Fd()))
	cerr := f.f.Close()
	if err != nil {
		return PathErr("close", f.path, err)
	}
	return cerr
}

// PathOfFd maps a descriptor obtained from File.Fd back to its path.
func PathOfFd(fd int) (string, bool) {
	p, ok := W.fdPaths[fd]
	return p, ok
}

// ReadFile = open . read . close.
func ReadFile(path string) ([]byte, error) {
	W.FdCreates++
	if err := Begin("open", path); err != nil {
		return nil, PathErr("open", path, err)
	}
	if err := Begin("read", path); err != nil {
		return nil, PathErr("read", path, err)
	}
	b, err := os.ReadFile(path)
	if err == nil || !os.IsNotExist(err) {
		log("close", path, "") // no point and no fault: os.ReadFile ignores what close answers
	}
	return b, err
}

// Lstat / Stat
func Lstat(path string) (os.FileInfo, error) {
	if err := Begin("lstat", path); err != nil {
		return nil, PathErr("lstat", path, err)
	}
	return os.Lstat(path)
}

func Stat(path string) (os.FileInfo, error) {
	if err := Begin("stat", path); err != nil {
		return nil, PathErr("stat", path, err)
	}
	return os.Stat(path)
}

// ReadDirNames = open dir . readdir . close (sorted, as filepath.Walk does).
func ReadDirNames(path string) ([]string, error) {
	W.FdCreates++
	if err := Begin("opendir", path); err != nil {
		return nil, PathErr("open", path, err)
	}
	f, err := os.Open(path)
	if err != nil {
		return nil, err
	}
	names, err := f.Readdirnames(-1)
	f.Close()
	if err != nil {
		return nil, err
	}
	sort.Strings(names)
	return names, nil
}

// Renameat2 within (possibly) two directory descriptors.
func Renameat2(olddir, oldname, newdir, newname string, noreplace bool) error {
	oldp, newp := filepath.Join(olddir, oldname), filepath.Join(newdir, newname)
	if err := Begin("renameat2", oldp+" -> "+rel(newp)); err != nil {
		return unwrapErrno(err)
	}
	if noreplace && exists(newp) {
		return syscall.EEXIST
	}
	if err := os.Rename(oldp, newp); err != nil {
		var le *os.LinkError
		if errors.As(err, &le) {
			return le.Err
		}
		return err
	}
	Notify(olddir, oldname, InMovedFrom)
	Notify(newdir, newname, InMovedTo)
	return nil
}

// RawWrite is write(2) / writev(2) on a descriptor opened through this package, with the
// system call's own contract: when only part of the data fits (a fault answer with @k, k > 0)
// it returns the short count and NO error - the error would come from the next call. os.File
// hides that by looping; code that calls the system call itself has to loop too.
func RawWrite(fd int, data []byte) (int, error) {
	path, ok := W.fdPaths[fd]
	if !ok {
		return -1, syscall.EBADF
	}
	if err := Begin("write[1/1]", path); err != nil {
		var fe *FaultError
		if errors.As(err, &fe) {
			k := 0
			if i := strings.IndexByte(fe.Answer, '@'); i >= 0 {
				switch fe.Answer[i+1:] {
				case "1":
					k = 1
				case "half":
					k = len(data) / 2
				case "all-but-1":
					k = len(data) - 1
				}
			}
			if k > len(data) {
				k = len(data)
			}
			if k > 0 {
				n, _ := syscall.Write(fd, data[:k])
				Notify(filepath.Dir(path), filepath.Base(path), InModify)
				return n, nil
			}
			return -1, fe.Errno
		}
		return -1, err
	}
	n, err := syscall.Write(fd, data)
	if n > 0 {
		Notify(filepath.Dir(path), filepath.Base(path), InModify)
	}
	return n, err
}
