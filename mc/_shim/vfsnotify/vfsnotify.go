// Package vfsnotify replaces github.com/fsnotify/fsnotify (v1.5.1, linux) in the rewritten
// pkg/cdi files. The kernel side is vfs's virtual inotify; the reader goroutine of fsnotify
// (which moves events from the kernel queue to Watcher.Events and applies the "does the file
// still exist" filter at the moment it runs) is a scheduled environment thread.
package vfsnotify

import (
	"bytes"
	"errors"
	"fmt"
	"os"
	"path/filepath"
	"syscall"

	"tags.cncf.io/container-device-interface/verifshim/sched"
	"tags.cncf.io/container-device-interface/verifshim/vfs"
	"tags.cncf.io/container-device-interface/verifshim/vsync"
)

// Op describes a set of file operations.
type Op uint32

const (
	Create Op = 1 << iota
	Write
	Remove
	Rename
	Chmod
)

func (op Op) String() string {
	var buffer bytes.Buffer
	if op&Create == Create {
		buffer.WriteString("|CREATE")
	}
	if op&Remove == Remove {
		buffer.WriteString("|REMOVE")
	}
	if op&Write == Write {
		buffer.WriteString("|WRITE")
	}
	if op&Rename == Rename {
		buffer.WriteString("|RENAME")
	}
	if op&Chmod == Chmod {
		buffer.WriteString("|CHMOD")
	}
	if buffer.Len() == 0 {
		return ""
	}
	return buffer.String()[1:]
}

// Event represents a single file system notification.
type Event struct {
	Name string
	Op   Op
}

func (e Event) String() string { return fmt.Sprintf("%q: %s", e.Name, e.Op.String()) }

var ErrEventOverflow = errors.New("fsnotify queue overflow")

// Watcher watches a set of files, delivering events to a channel.
type Watcher struct {
	Events chan Event
	Errors chan error
	in     *vfs.Instance
	closed bool
	asked  bool // the overflow-report choice has been offered for this watcher
}

// Delivered logs every event handed to Watcher.Events in this execution (conformance, diagnostics).
var Delivered []Event

func ResetLog() { Delivered = nil }

// NewWatcher establishes a new watcher and starts its reader thread.
func NewWatcher() (*Watcher, error) {
	vfs.W.FdCreates++
	if err := vfs.Begin("inotify_init", ""); err != nil {
		var fe *vfs.FaultError
		if errors.As(err, &fe) {
			return nil, fe.Errno
		}
		return nil, err
	}
	w := &Watcher{Events: make(chan Event, 1), Errors: make(chan error, 1), in: vfs.NewInstance()}
	vsync.RegisterChan(w.Events)
	vsync.RegisterChan(w.Errors)
	if sched.Active() {
		sched.Go("fsnotify-reader", true, 10, w.readEvents)
	}
	return w, nil
}

func toOp(mask uint32) Op {
	var op Op
	if mask&vfs.InCreate != 0 || mask&vfs.InMovedTo != 0 {
		op |= Create
	}
	if mask&vfs.InDeleteSelf != 0 || mask&vfs.InDelete != 0 {
		op |= Remove
	}
	if mask&vfs.InModify != 0 {
		op |= Write
	}
	if mask&vfs.InMoveSelf != 0 || mask&vfs.InMovedFrom != 0 {
		op |= Rename
	}
	if mask&vfs.InAttrib != 0 {
		op |= Chmod
	}
	return op
}

// readEvents is fsnotify's reader goroutine: one step = take the queue head, translate it,
// apply the existence filter now, hand it to Events (which has room for exactly one event:
// the event the real reader would be blocked sending).
func (w *Watcher) readEvents() {
	for {
		sched.Block("fsnotify.read", func() bool {
			return w.closed || (len(w.in.Queue) > 0 && len(w.Events) == 0)
		})
		sched.Touch(vfs.Env)
		vsync.TouchChan(w.Events)
		if w.closed {
			return
		}
		if vfs.W.OverflowReports && !w.asked {
			w.asked = true
			if sched.Choose("fsnotify.overflow-report", []string{"none", "ErrEventOverflow"}, []int{sched.KindSched, sched.KindFault}) == 1 {
				vsync.TouchChan(w.Errors)
				select {
				case w.Errors <- ErrEventOverflow:
				default:
				}
			}
		}
		k := w.in.Queue[0]
		w.in.Queue = w.in.Queue[1:]
		if k.Mask&vfs.InIgnored != 0 {
			continue
		}
		name := k.WatchPath
		if k.Name != "" {
			name = filepath.Join(k.WatchPath, k.Name)
		}
		ev := Event{Name: name, Op: toOp(k.Mask)}
		if ev.Op == 0 {
			continue
		}
		if !(ev.Op&Remove == Remove || ev.Op&Rename == Rename) {
			if _, err := os.Lstat(ev.Name); os.IsNotExist(err) {
				continue // fsnotify 1.5.1 ignoreLinux: the file is gone already
			}
		}
		Delivered = append(Delivered, ev)
		w.Events <- ev
	}
}

// Add starts watching the named file or directory (non-recursively).
func (w *Watcher) Add(name string) error {
	if err := vfs.Begin("inotify_add_watch", name); err != nil {
		var fe *vfs.FaultError
		if errors.As(err, &fe) {
			return fe.Errno
		}
		return err
	}
	if w.closed {
		return errors.New("inotify instance already closed")
	}
	name = filepath.Clean(name)
	if _, err := os.Stat(name); err != nil {
		var pe *os.PathError
		if errors.As(err, &pe) {
			return pe.Err
		}
		return syscall.ENOENT
	}
	if _, ok := w.in.Watches[name]; !ok {
		w.in.Watches[name] = name
	}
	return nil
}

// Remove stops watching the named file or directory.
func (w *Watcher) Remove(name string) error {
	if err := vfs.Begin("inotify_rm_watch", name); err != nil {
		return err
	}
	name = filepath.Clean(name)
	if _, ok := w.in.Watches[name]; ok {
		delete(w.in.Watches, name)
		return nil
	}
	// a watch whose directory was renamed since: the watcher knows it under the name it was added with
	for cur, given := range w.in.Watches {
		if given == name {
			delete(w.in.Watches, cur)
			return nil
		}
	}
	return fmt.Errorf("can't remove non-existent inotify watch for: %s", name)
}

// Close removes all watches and closes the events channel. As in fsnotify 1.5.1 it returns
// only when the reader has gone: an event the reader was still trying to send is dropped.
func (w *Watcher) Close() error {
	if w.closed {
		return nil
	}
	if err := vfs.Begin("inotify_close", ""); err != nil && err == vfs.ErrDead {
		return err
	}
	sched.Touch(vfs.Env)
	vsync.TouchChan(w.Events)
	vsync.TouchChan(w.Errors)
	w.closed = true
	w.in.Closed = true
	w.in.Watches = map[string]string{}
	w.in.Queue = nil
	select {
	case <-w.Events:
	default:
	}
	vsync.Close(w.Events)
	vsync.Close(w.Errors)
	return nil
}

// WatchList returns the watched paths (diagnostics).
func (w *Watcher) WatchList() []string {
	var l []string
	for p := range w.in.Watches {
		l = append(l, p)
	}
	return l
}
