// Package sched is Engine B's controlled scheduler: every goroutine of the code under test
// and of the harness is a Thread; exactly one runs at a time; before every visible operation
// (lock, channel receive, file-system call, fsnotify call, spawn) the running thread reaches a
// Point where the explorer decides which enabled thread runs next. Environment answers
// (fault / crash / success of an operation) are decided at the same kind of choice point.
//
// The package lives, through `go build -overlay`, inside the module of the code under test
// (import path tags.cncf.io/container-device-interface/verifshim/sched) so that both the
// rewritten pkg/cdi files and the harness can import it.
package sched

import (
	"fmt"
	"os"
	"runtime"
	"sort"
	"strings"
	"time"
)

// Kinds of deviation from the default execution.
const (
	KindSched = iota // choice of the next thread (cost: preemption)
	KindFault        // environment answer: an errno instead of success
	KindCrash        // the thread's process dies before the operation
)

// PointRec records one choice point of an execution.
type PointRec struct {
	Key     string   // stable description of the operation (thread, op, object)
	Kind    int      //
	N       int      // number of alternatives
	Chosen  int      //
	Free    bool     // a non-default choice costs nothing (the running thread was not enabled)
	Alts    []string // printable alternatives (thread names / answers)
	AltKind []int    // per alternative: KindSched / KindFault / KindCrash (for KindSched points all KindSched)
}

type Thread struct {
	ID       int
	Name     string
	Daemon   bool // does not keep the execution alive (watcher goroutines, environment threads)
	Prio     int  // higher runs first in "eager" order
	wake     handoff // channel (normal build) or pipe invisible to the race detector (-race build)
	done     bool
	started  bool
	ready    func() bool // nil = enabled; else enabled iff ready()
	key      string      // operation it is parked before
	Dead     bool        // crashed: its file-system calls are inert
	quiescing bool
	fn       func()
	Canon    string // creation-order independent name: root index, or parent's name + "." + spawn count
	hb       Hash   // hash of this thread's events so far, each chained to its happens-before predecessors
	spawned  int
	panicVal any
	panicStk string
}

type abortSentinel struct{}

// Exec is one controlled execution.
type Exec struct {
	threads  []*Thread
	cur      *Thread
	prefix   []int
	Trace    []PointRec
	Eager    bool // environment / daemon threads have priority at every point
	finished chan struct{}
	aborting bool
	Deadlock bool
	Diverged string
	Steps    int
	MaxSteps int
	Overrun  bool
	Log      []string // operation log (keys in execution order)
	LogOps   bool
	opCount  map[string]int
	Panics   []string
	// happens-before hashing (state keys for the explorer's visited table)
	objHash   map[any]Hash
	universal Hash
	// Visit, when set, is asked at every scheduling choice beyond the replayed prefix whether the
	// state (key) was already explored with at most the deviations spent so far; true ends the
	// execution there (Pruned).
	Visit               func(key Hash, p, f, c int) bool
	Pruned              bool
	CostP, CostF, CostC int
}

// Hash is a 128-bit hash value.
type Hash struct{ A, B uint64 }

func mix(h Hash, v uint64) Hash {
	h.A = (h.A ^ v) * 0x9E3779B97F4A7C15
	h.A ^= h.A >> 29
	h.B = (h.B + v + 0x632BE59BD9B4E019) * 0xD6E8FEB86659FD93
	h.B ^= h.B >> 32
	return h
}

func combine(h Hash, others ...Hash) Hash {
	for _, o := range others {
		h = mix(mix(h, o.A), o.B)
	}
	return h
}

func hashString(s string) Hash {
	h := Hash{0xcbf29ce484222325, 0x84222325cbf29ce4}
	for i := 0; i < len(s); i++ {
		h = mix(h, uint64(s[i])+1)
	}
	return mix(h, uint64(len(s)))
}

// Touch records that the running thread accesses the shared object obj now (between two
// scheduling points): the access is ordered after the thread's previous events, after the
// previous access to obj by any thread (every access counts as a write) and after the last
// global observation. Two executions in which every thread performs the same accesses with the
// same predecessors are equivalent (same Mazurkiewicz trace) and reach the same state; the
// explorer uses the resulting hashes to recognise such states. Every piece of state shared
// between controlled threads must be touched when it is read or written; touching more than
// necessary only costs reduction, never soundness.
func Touch(obj any) {
	e := E
	if e == nil || e.aborting || e.cur == nil {
		return
	}
	t := e.cur
	h := combine(t.hb, e.objHash[obj], e.universal)
	h = mix(h, 1)
	t.hb = h
	e.objHash[obj] = h
}

// TouchAll records a global observation or action by the running thread (it depends on
// everything before it, and everything after it depends on it): quiescence, thread exit.
func TouchAll() {
	e := E
	if e == nil || e.aborting || e.cur == nil {
		return
	}
	e.touchAll(e.cur)
}

func (e *Exec) touchAll(t *Thread) {
	h := t.hb
	for _, u := range e.canonical() {
		h = combine(h, u.hb)
	}
	h = mix(h, 2)
	t.hb = h
	e.universal = h
}

func (e *Exec) canonical() []*Thread {
	ths := append([]*Thread{}, e.threads...)
	sort.Slice(ths, func(i, j int) bool { return ths[i].Canon < ths[j].Canon })
	return ths
}

// stateKey identifies the state at a scheduling step up to happens-before equivalence.
func (e *Exec) stateKey(from *Thread) Hash {
	h := Hash{1, 2}
	for _, t := range e.canonical() {
		h = combine(h, hashString(t.Canon), t.hb, hashString(t.key))
		var fl uint64
		if t.done {
			fl |= 1
		}
		if t.Dead {
			fl |= 2
		}
		if t.quiescing {
			fl |= 4
		}
		h = mix(h, fl)
	}
	if from != nil {
		h = combine(h, hashString("from:"+from.Canon))
	}
	return h
}

// VisitHook is installed as Exec.Visit of every execution started by Run (set by the explorer).
var VisitHook func(key Hash, p, f, c int) bool

// OnStep, when set, is called at every scheduling step of a controlled execution (by the
// running thread, before the next thread is chosen): state invariants are evaluated here.
var OnStep func()

// E is the execution in progress (nil: shims pass through to the real primitives).
var E *Exec

func Active() bool { return E != nil && !E.aborting }

// Current returns the running thread (nil outside an execution).
func Current() *Thread {
	if E == nil {
		return nil
	}
	return E.cur
}

// Run executes body threads under the scheduler, replaying prefix and taking choice 0 beyond.
// setup runs first, outside the scheduler's control but with E set (so shims register objects).
func Run(prefix []int, eager bool, maxSteps int, mains []func(), names []string) *Exec {
	e := &Exec{prefix: prefix, Eager: eager, finished: make(chan struct{}), MaxSteps: maxSteps, opCount: map[string]int{}, objHash: map[any]Hash{}}
	e.Visit = VisitHook
	E = e
	for i, fn := range mains {
		e.newThread(names[i], false, 0, fn)
	}
	// pick the first thread
	e.cur = nil
	_ = e.schedule(nil)
	<-e.finished
	// abort whatever is still parked (daemons, deadlocked threads, threads of a cut execution),
	// one thread at a time: an aborted thread unwinds through the deferred calls of the code
	// under test (Close, Unlock ...), which reach the shims' bookkeeping; two threads unwinding
	// at once would race there.
	e.aborting = true
	for _, t := range e.threads {
		if !t.started || t.done {
			continue
		}
		t.wake.signal()
		for spins := 0; !t.done && spins < 4000; spins++ {
			runtime.Gosched()
			if spins > 200 {
				time.Sleep(50 * time.Microsecond)
			}
		}
	}
	for _, t := range e.threads {
		if !t.started || t.done {
			t.wake.close()
		}
	}
	E = nil
	return e
}

func (e *Exec) newThread(name string, daemon bool, prio int, fn func()) *Thread {
	t := &Thread{ID: len(e.threads), Name: name, Daemon: daemon, Prio: prio, wake: newHandoff(), fn: fn}
	if p := e.cur; p != nil {
		// spawned by a controlled thread: the spawn is an event of the parent, the child starts after it
		p.spawned++
		t.Canon = fmt.Sprintf("%s.%d", p.Canon, p.spawned)
		p.hb = mix(combine(p.hb, hashString(t.Canon)), 3)
		t.hb = mix(p.hb, 4)
	} else {
		t.Canon = fmt.Sprintf("r%d", len(e.threads))
		t.hb = hashString(t.Canon)
	}
	e.threads = append(e.threads, t)
	// the goroutine is created by the spawning thread right away (parked until scheduled), so that
	// the only happens-before edge into the new thread is the one a real `go` statement has
	e.start(t)
	return t
}

// Go spawns a new controlled thread running fn. The spawn itself is a point of the caller.
func Go(name string, daemon bool, prio int, fn func()) {
	if !Active() {
		go fn()
		return
	}
	e := E
	t := e.newThread(fmt.Sprintf("%s#%d", name, len(e.threads)), daemon, prio, fn)
	_ = t
	Point("spawn " + name)
}

func (e *Exec) start(t *Thread) {
	t.started = true
	go func() {
		t.wake.wait()
		defer func() {
			if p := recover(); p != nil {
				if _, ok := p.(abortSentinel); !ok {
					buf := make([]byte, 6000)
					n := runtime.Stack(buf, false)
					t.panicVal, t.panicStk = p, string(buf[:n])
					e.Panics = append(e.Panics, fmt.Sprintf("thread %s: panic: %v\n%s", t.Name, p, t.panicStk))
				}
			}
			t.done = true
			if !e.aborting {
				e.touchAll(t) // thread exit is observed by quiescence predicates and deadlock detection
				_ = e.schedule(t)
			}
		}()
		if e.aborting {
			return
		}
		t.fn()
	}()
}

func (t *Thread) enabled() bool {
	if t.done {
		return false
	}
	if t.ready == nil {
		return true
	}
	return t.ready()
}

// schedule is called by the thread that just parked (from) or finished; it picks the next
// thread and hands control over. from == nil at the start.
func (e *Exec) schedule(from *Thread) *Thread {
	if e.aborting {
		return nil
	}
	e.Steps++
	if OnStep != nil {
		OnStep()
	}
	if e.MaxSteps > 0 && e.Steps > e.MaxSteps {
		e.Overrun = true
		e.finish()
		return nil
	}
	var en []*Thread
	for _, t := range e.threads {
		if t.enabled() {
			en = append(en, t)
		}
	}
	if len(en) == 0 {
		for _, t := range e.threads {
			if !t.done && !t.Daemon {
				e.Deadlock = true
			}
		}
		e.finish()
		return nil
	}
	// all remaining enabled threads are daemons and no non-daemon is alive: keep draining (quiescence = nobody enabled)
	curEnabled := from != nil && !from.done && from.enabled()
	sort.SliceStable(en, func(i, j int) bool {
		a, b := en[i], en[j]
		if e.Eager && a.Prio != b.Prio {
			return a.Prio > b.Prio
		}
		if (a == from) != (b == from) {
			return a == from
		}
		return a.ID < b.ID
	})
	choice := 0
	if len(en) > 1 {
		idx := len(e.Trace)
		if e.Visit != nil && idx >= len(e.prefix) && e.Visit(e.stateKey(from), e.CostP, e.CostF, e.CostC) {
			e.Pruned = true
			e.finish()
			return nil
		}
		if idx < len(e.prefix) {
			choice = e.prefix[idx]
			if choice >= len(en) {
				e.Diverged = fmt.Sprintf("replay divergence at point %d: choice %d of %d enabled", idx, choice, len(en))
				e.finish()
				return nil
			}
		}
		alts := make([]string, len(en))
		for i, t := range en {
			alts[i] = t.Name + ":" + t.key
		}
		key := "sched"
		if from != nil {
			key = "sched after " + from.Name + ":" + from.key
		}
		e.Trace = append(e.Trace, PointRec{Key: key, Kind: KindSched, N: len(en), Chosen: choice, Free: false, Alts: alts})
		if choice != 0 {
			e.CostP++
		}
		_ = curEnabled // every non-default choice counts as one deviation, also at a forced switch: exploring all
		// orders of the remaining threads for free at every blocking point is exponential in the drain phase
	}
	next := en[choice]
	e.cur = next
	if e.LogOps {
		e.Log = append(e.Log, next.Name+": "+next.key)
	}
	if !next.started {
		e.start(next)
	}
	if next != from {
		next.wake.signal() // last action: from now on the next thread runs
	}
	return next
}

// defaultIsPreferred: in eager order the first thread may outrank the running one; choosing
// anything else is then a deviation even when the running thread is blocked.
func (e *Exec) defaultIsPreferred(en []*Thread) bool {
	return e.Eager && len(en) > 1 && en[0].Prio > en[1].Prio
}

func (e *Exec) finish() {
	select {
	case <-e.finished:
	default:
		close(e.finished)
	}
}

// Point: the running thread is about to perform the visible operation key.
func Point(key string) {
	Block(key, nil)
}

// Block: like Point, but the thread may only continue when ready() holds.
func Block(key string, ready func() bool) {
	if !Active() {
		if ready != nil {
			for !ready() {
				runtime.Gosched()
			}
		}
		return
	}
	e := E
	t := e.cur
	if t == nil {
		return
	}
	t.key = key
	t.ready = ready
	if next := e.schedule(t); next != t {
		t.wake.wait() // parked until chosen again (or until the execution is torn down)
		if e.aborting {
			panic(abortSentinel{})
		}
	}
	t.ready = nil
}

// Quiesce parks the running thread until no other thread is enabled (other threads that are
// themselves waiting for quiescence do not count): "the watcher has caught up".
func Quiesce(key string) {
	if !Active() {
		return
	}
	e := E
	me := e.cur
	me.quiescing = true
	Block("quiesce "+key, func() bool {
		for _, t := range e.threads {
			if t == me || t.quiescing || t.done {
				continue
			}
			if t.enabled() {
				return false
			}
		}
		return true
	})
	me.quiescing = false
	e.touchAll(me)
}

// Choose asks the explorer for an environment answer of the running thread's operation:
// alternative 0 is the default (success). kinds[i] is KindFault or KindCrash for i >= 1.
func Choose(key string, alts []string, kinds []int) int {
	if !Active() || len(alts) <= 1 {
		return 0
	}
	e := E
	idx := len(e.Trace)
	choice := 0
	if idx < len(e.prefix) {
		choice = e.prefix[idx]
		if choice >= len(alts) {
			e.Diverged = fmt.Sprintf("replay divergence at point %d (%s): answer %d of %d", idx, key, choice, len(alts))
			e.finish()
			panic(abortSentinel{})
		}
	}
	name := ""
	if e.cur != nil {
		name = e.cur.Name + ":"
	}
	e.Trace = append(e.Trace, PointRec{Key: name + key, Kind: KindFault, N: len(alts), Chosen: choice, Alts: alts, AltKind: kinds})
	if e.LogOps && choice != 0 {
		e.Log = append(e.Log, fmt.Sprintf("%s%s => %s", name, key, alts[choice]))
	}
	if choice != 0 {
		if kinds != nil && kinds[choice] == KindCrash {
			e.CostC++
		} else {
			e.CostF++
		}
	}
	if e.cur != nil {
		// the environment's answer is part of the thread's history
		e.cur.hb = mix(combine(e.cur.hb, hashString(alts[choice])), 5)
	}
	return choice
}

// Occurrence returns a per-execution occurrence number for a key prefix (stable object naming).
func Occurrence(k string) int {
	if E == nil {
		return 0
	}
	E.opCount[k]++
	return E.opCount[k]
}

// Choices returns the choice vector of the execution.
func (e *Exec) Choices() []int {
	c := make([]int, len(e.Trace))
	for i, p := range e.Trace {
		c[i] = p.Chosen
	}
	return c
}

// Costs of taking alternative alt at point i instead of the recorded choice.
func (p PointRec) Cost(alt int) (preempt, fault, crash int) {
	if alt == 0 {
		return
	}
	switch p.Kind {
	case KindSched:
		if !p.Free {
			preempt = 1
		}
	default:
		if p.AltKind != nil && p.AltKind[alt] == KindCrash {
			crash = 1
		} else {
			fault = 1
		}
	}
	return
}

// Describe renders a trace for replay files.
func (e *Exec) Describe() []string {
	var out []string
	for i, p := range e.Trace {
		if p.Chosen != 0 || p.Kind != KindSched {
			out = append(out, fmt.Sprintf("#%d %s -> [%d] %s", i, p.Key, p.Chosen, p.Alts[p.Chosen]))
		}
	}
	return out
}

func Fatal(format string, a ...any) {
	fmt.Fprintf(os.Stderr, "INFRA(sched): "+format+"\n", a...)
	os.Exit(2)
}

// ThreadNames lists thread names (diagnostics).
func (e *Exec) ThreadNames() string {
	var n []string
	for _, t := range e.threads {
		st := "parked"
		if t.done {
			st = "done"
		}
		n = append(n, t.Name+"("+st+" before "+t.key+")")
	}
	return strings.Join(n, ", ")
}

// AliveNamed counts threads of the running execution that have not finished and whose name
// contains substr (resource accounting: goroutines a component keeps alive).
func AliveNamed(substr string) int {
	if E == nil {
		return 0
	}
	n := 0
	for _, t := range E.threads {
		if !t.done && strings.Contains(t.Name, substr) {
			n++
		}
	}
	return n
}

// DeadNamed reports whether a thread of the running execution with that name has crashed (its
// process is gone: whatever it left in memory is gone with it).
func DeadNamed(name string) bool {
	if E == nil {
		return false
	}
	for _, t := range E.threads {
		if t.Name == name && t.Dead {
			return true
		}
	}
	return false
}
