//go:build race

package sched

import "syscall"

// handoff (-race build): control passes from thread to thread through a pipe, with the read and
// write system calls issued directly (syscall.Syscall carries no race-detector annotation,
// unlike syscall.Read/Write and unlike channel operations). The race detector therefore sees
// NO happens-before edge between the controlled threads other than the synchronisation the
// code under test performs itself (vsync announces lock/unlock explicitly), so a serialised
// execution is still race-checked faithfully: every explored schedule is also a race check.
type handoff struct{ r, w int }

func newHandoff() handoff {
	var p [2]int
	if err := syscall.Pipe(p[:]); err != nil {
		panic("sched: pipe: " + err.Error())
	}
	return handoff{r: p[0], w: p[1]}
}

//go:norace
func (h handoff) signal() {
	var b [1]byte
	for {
		n, _, e := syscall.Syscall(syscall.SYS_WRITE, uintptr(h.w), uintptr(unsafePointer(&b[0])), 1)
		if n == 1 {
			return
		}
		if e != syscall.EINTR && e != syscall.EAGAIN {
			panic("sched: handoff write failed: " + e.Error())
		}
	}
}

//go:norace
func (h handoff) wait() {
	var b [1]byte
	for {
		n, _, e := syscall.Syscall(syscall.SYS_READ, uintptr(h.r), uintptr(unsafePointer(&b[0])), 1)
		if n == 1 {
			return
		}
		if e != syscall.EINTR && e != syscall.EAGAIN {
			panic("sched: handoff read failed: " + e.Error())
		}
	}
}

func (h handoff) close() {
	_ = syscall.Close(h.r)
	_ = syscall.Close(h.w)
}
