//go:build !race

package sched

// handoff (normal build): a one-slot channel.
type handoff struct{ c chan struct{} }

func newHandoff() handoff   { return handoff{c: make(chan struct{}, 1)} }
func (h handoff) signal()   { h.c <- struct{}{} }
func (h handoff) wait()     { <-h.c }
func (h handoff) close()    {}
