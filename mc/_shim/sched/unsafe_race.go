//go:build race

package sched

import "unsafe"

func unsafePointer(b *byte) unsafe.Pointer { return unsafe.Pointer(b) }
