// Package vfilepath replaces "path/filepath": Walk goes through the environment model.
package vfilepath

import (
	"io/fs"
	"os"
	"path/filepath"

	"tags.cncf.io/container-device-interface/verifshim/vfs"
)

type WalkFunc = filepath.WalkFunc

const (
	Separator     = filepath.Separator
	ListSeparator = filepath.ListSeparator
)

var (
	SkipDir    = filepath.SkipDir
	SkipAll    = filepath.SkipAll
	ErrBadPattern = filepath.ErrBadPattern
)

func Clean(p string) string                        { return filepath.Clean(p) }
func Join(e ...string) string                      { return filepath.Join(e...) }
func Ext(p string) string                          { return filepath.Ext(p) }
func Dir(p string) string                          { return filepath.Dir(p) }
func Base(p string) string                         { return filepath.Base(p) }
func Abs(p string) (string, error)                 { return filepath.Abs(p) }
func IsAbs(p string) bool                          { return filepath.IsAbs(p) }
func Rel(b, t string) (string, error)              { return filepath.Rel(b, t) }
func Split(p string) (string, string)              { return filepath.Split(p) }
func Match(pattern, name string) (bool, error)     { return filepath.Match(pattern, name) }
func Glob(pattern string) ([]string, error)        { return filepath.Glob(pattern) }
func ToSlash(p string) string                      { return filepath.ToSlash(p) }
func FromSlash(p string) string                    { return filepath.FromSlash(p) }
func VolumeName(p string) string                   { return filepath.VolumeName(p) }
func EvalSymlinks(p string) (string, error)        { return filepath.EvalSymlinks(p) }
func SplitList(p string) []string                  { return filepath.SplitList(p) }

// Walk mirrors path/filepath.Walk (go1.23) with lstat and directory reads as environment operations.
func Walk(root string, fn WalkFunc) error {
	info, err := vfs.Lstat(root)
	if err != nil {
		err = fn(root, nil, err)
	} else {
		err = walk(root, info, fn)
	}
	if err == SkipDir || err == SkipAll {
		return nil
	}
	return err
}

func walk(path string, info os.FileInfo, walkFn WalkFunc) error {
	if !info.IsDir() {
		return walkFn(path, info, nil)
	}
	names, err := vfs.ReadDirNames(path)
	err1 := walkFn(path, info, err)
	if err != nil || err1 != nil {
		return err1
	}
	for _, name := range names {
		filename := filepath.Join(path, name)
		fileInfo, err := vfs.Lstat(filename)
		if err != nil {
			if err := walkFn(filename, fileInfo, err); err != nil && err != SkipDir {
				return err
			}
		} else {
			err = walk(filename, fileInfo, walkFn)
			if err != nil {
				if !fileInfo.IsDir() || err != SkipDir {
					return err
				}
			}
		}
	}
	return nil
}

// WalkDir mirrors path/filepath.WalkDir on top of Walk's operations.
func WalkDir(root string, fn fs.WalkDirFunc) error {
	return Walk(root, func(path string, info os.FileInfo, err error) error {
		var d fs.DirEntry
		if info != nil {
			d = fs.FileInfoToDirEntry(info)
		}
		return fn(path, d, err)
	})
}
