// Package vunix replaces "golang.org/x/sys/unix" for the few calls pkg/cdi makes.
package vunix

import (
	"golang.org/x/sys/unix"

	"tags.cncf.io/container-device-interface/verifshim/vfs"
)

type Stat_t = unix.Stat_t

const (
	RENAME_NOREPLACE = unix.RENAME_NOREPLACE
	RENAME_EXCHANGE  = unix.RENAME_EXCHANGE
	S_IFMT           = unix.S_IFMT
	S_IFBLK          = unix.S_IFBLK
	S_IFCHR          = unix.S_IFCHR
	S_IFIFO          = unix.S_IFIFO
	S_IFDIR          = unix.S_IFDIR
	S_IFREG          = unix.S_IFREG
	S_IFLNK          = unix.S_IFLNK
	AT_FDCWD         = unix.AT_FDCWD
	ENOENT           = unix.ENOENT
	EEXIST           = unix.EEXIST
	ENOTDIR          = unix.ENOTDIR
	EINVAL           = unix.EINVAL
	ENOSYS           = unix.ENOSYS
)

func Major(dev uint64) uint32 { return unix.Major(dev) }
func Minor(dev uint64) uint32 { return unix.Minor(dev) }
func Mkdev(major, minor uint32) uint64 { return unix.Mkdev(major, minor) }

func Lstat(path string, st *Stat_t) error {
	if err := vfs.Begin("lstat", path); err != nil {
		return unwrap(err)
	}
	return unix.Lstat(path, st)
}

func Stat(path string, st *Stat_t) error {
	if err := vfs.Begin("stat", path); err != nil {
		return unwrap(err)
	}
	return unix.Stat(path, st)
}

func unwrap(err error) error {
	if fe, ok := err.(*vfs.FaultError); ok {
		return fe.Errno
	}
	return unix.EIO
}

// Renameat2 resolves the directory descriptors (obtained from vos.File.Fd) back to paths.
func Renameat2(olddirfd int, oldpath string, newdirfd int, newpath string, flags uint) error {
	od, ok1 := vfs.PathOfFd(olddirfd)
	nd, ok2 := vfs.PathOfFd(newdirfd)
	if !ok1 || !ok2 {
		return unix.EBADF
	}
	return vfs.Renameat2(od, oldpath, nd, newpath, flags&unix.RENAME_NOREPLACE != 0)
}

func Rename(from, to string) error { return vfs.Rename(from, to) }
func Unlink(path string) error    { return vfs.Remove(path) }

// Write and Writev: the raw system calls (short counts are returned as such, see vfs.RawWrite).
func Write(fd int, p []byte) (int, error) { return vfs.RawWrite(fd, p) }

func Writev(fd int, iovs [][]byte) (int, error) {
	var all []byte
	for _, b := range iovs {
		all = append(all, b...)
	}
	return vfs.RawWrite(fd, all)
}
