// Package vsync replaces "sync" (and `go` / channel receive / select statements) in the
// rewritten pkg/cdi files. Under a controlled execution every operation is a scheduling
// point; outside of one the real primitives are used.
package vsync

import (
	"fmt"
	"reflect"
	"sort"
	"sync"

	"tags.cncf.io/container-device-interface/verifshim/sched"
)

var mutexNames int

// Mutex is a drop-in for sync.Mutex.
type Mutex struct {
	mu    sync.Mutex // pass-through mode
	held  bool       // controlled mode
	owner string
}

func (m *Mutex) Lock() {
	if !sched.Active() {
		m.mu.Lock()
		return
	}
	sched.Block("Mutex.Lock", func() bool { return !m.held })
	sched.Touch(m)
	m.held = true
	if t := sched.Current(); t != nil {
		m.owner = t.Name
	}
	raceAcquire(m)
}

func (m *Mutex) TryLock() bool {
	if !sched.Active() {
		return m.mu.TryLock()
	}
	sched.Point("Mutex.TryLock")
	sched.Touch(m)
	if m.held {
		return false
	}
	m.held = true
	raceAcquire(m)
	return true
}

func (m *Mutex) Unlock() {
	if m.held {
		// locked under the scheduler (possibly being torn down now)
		raceRelease(m)
		sched.Touch(m)
		m.held = false
		m.owner = ""
		if sched.Active() {
			sched.Point("Mutex.Unlock")
		}
		return
	}
	if sched.Active() {
		panic("vsync: unlock of unlocked mutex")
	}
	m.mu.Unlock()
}

// Held reports whether the mutex is held in the controlled execution (for state dumps).
func (m *Mutex) Held() (bool, string) { return m.held, m.owner }

// RWMutex is a drop-in for sync.RWMutex. As with the real one, a blocked Lock call keeps new
// readers out (writer preference), so a recursive read lock can deadlock against a writer.
type RWMutex struct {
	mu      sync.RWMutex
	writer  bool
	readers int
	pending int // writers waiting in Lock
}

func (m *RWMutex) Lock() {
	if !sched.Active() {
		m.mu.Lock()
		return
	}
	sched.Touch(m)
	m.pending++
	sched.Block("RWMutex.Lock", func() bool { return !m.writer && m.readers == 0 })
	sched.Touch(m)
	m.pending--
	m.writer = true
	raceAcquire(m)
}

func (m *RWMutex) Unlock() {
	if m.writer {
		raceRelease(m)
		sched.Touch(m)
		m.writer = false
		if sched.Active() {
			sched.Point("RWMutex.Unlock")
		}
		return
	}
	m.mu.Unlock()
}

func (m *RWMutex) RLock() {
	if !sched.Active() {
		m.mu.RLock()
		return
	}
	sched.Block("RWMutex.RLock", func() bool { return !m.writer && m.pending == 0 })
	sched.Touch(m)
	m.readers++
	raceAcquire(m)
}

func (m *RWMutex) RUnlock() {
	if m.readers > 0 {
		raceRelease(m)
		sched.Touch(m)
		m.readers--
		if sched.Active() {
			sched.Point("RWMutex.RUnlock")
		}
		return
	}
	m.mu.RUnlock()
}

// Once is a drop-in for sync.Once.
type Once struct {
	once sync.Once
	m    Mutex
	done bool
}

func (o *Once) Do(f func()) {
	if !sched.Active() && !o.m.held {
		if o.done {
			return
		}
		o.once.Do(func() {
			if !o.done {
				f()
				o.done = true
			}
		})
		return
	}
	sched.Point("Once.Do")
	sched.Touch(o)
	if o.done {
		raceAcquire(o)
		return
	}
	o.m.Lock()
	defer o.m.Unlock()
	if !o.done {
		f()
		raceRelease(o)
		sched.Touch(o)
		o.done = true
	}
}

// WaitGroup is a drop-in for sync.WaitGroup.
type WaitGroup struct {
	wg sync.WaitGroup
	n  int
}

func (w *WaitGroup) Add(d int) {
	if !sched.Active() {
		w.wg.Add(d)
		return
	}
	sched.Touch(w)
	w.n += d
}
func (w *WaitGroup) Done() {
	if !sched.Active() && w.n == 0 {
		w.wg.Done()
		return
	}
	raceRelease(w)
	sched.Touch(w)
	w.n--
	if sched.Active() {
		sched.Point("WaitGroup.Done")
	}
}
func (w *WaitGroup) Wait() {
	if !sched.Active() {
		w.wg.Wait()
		return
	}
	sched.Block("WaitGroup.Wait", func() bool { return w.n <= 0 })
	sched.Touch(w)
	raceAcquire(w)
}

// Go replaces a `go` statement: f and its arguments were evaluated at the spawn site.
func Go(name string, f func()) {
	sched.Go(name, true, 5, f)
}

// SortedKeys returns the keys of a map in a deterministic order (used by the rewritten
// range-over-map statements of the code under test).
func SortedKeys[M ~map[K]V, K comparable, V any](m M) []K {
	keys := make([]K, 0, len(m))
	for k := range m {
		keys = append(keys, k)
	}
	sort.Slice(keys, func(i, j int) bool { return fmt.Sprint(keys[i]) < fmt.Sprint(keys[j]) })
	return keys
}

// ---- channels ---------------------------------------------------------------------------

// closedChans tracks channels closed through Close (shim-owned channels).
var closedChans = map[any]bool{}

// Close closes a channel and remembers it (so that receives on it are enabled).
func Close[T any](ch chan T) {
	sched.Touch(any(ch))
	closedChans[ch] = true
	close(ch)
}

func IsClosed(ch any) bool { return closedChans[ch] }

// TouchChan records an access to a channel by shim code that sends on it directly.
func TouchChan(ch any) { sched.Touch(bidir(ch)) }

// Forget drops bookkeeping of a channel (end of an execution).
func ResetChannels() { closedChans = map[any]bool{} }

func chanReady(ch any) bool {
	if closedChans[ch] {
		return true
	}
	return reflect.ValueOf(ch).Len() > 0
}

// Recv2 replaces `v, ok := <-ch`.
func Recv2[T any](ch <-chan T) (T, bool) {
	if !sched.Active() {
		v, ok := <-ch
		return v, ok
	}
	key := bidir(ch)
	sched.Block("chan.recv", func() bool { return chanReady(key) })
	sched.Touch(key)
	select {
	case v, ok := <-ch:
		return v, ok
	default:
		panic("vsync: receive became disabled")
	}
}

// Recv replaces `<-ch` / `v := <-ch`.
func Recv[T any](ch <-chan T) T {
	v, _ := Recv2(ch)
	return v
}

// registry from receive-only views to the bidirectional channel value used as key
var views = map[any]any{}

// RegisterChan makes a channel known to the scheduler-aware receive helpers. recvView is the
// `<-chan T` (or chan T) value the code under test will receive from.
func RegisterChan[T any](ch chan T) {
	var r <-chan T = ch
	views[r] = ch
	views[ch] = ch
}

func bidir(ch any) any {
	if k, ok := views[ch]; ok {
		return k
	}
	return ch
}

// Select2 replaces a select over two receive cases (no default): returns the index of the
// case that fired with its value and ok flag.
func Select2[A, B any](a <-chan A, b <-chan B) (idx int, va A, oka bool, vb B, okb bool) {
	if !sched.Active() {
		select {
		case va, oka = <-a:
			return 0, va, oka, vb, okb
		case vb, okb = <-b:
			return 1, va, oka, vb, okb
		}
	}
	ka, kb := bidir(a), bidir(b)
	sched.Block("select.recv", func() bool { return chanReady(ka) || chanReady(kb) })
	sched.Touch(ka)
	sched.Touch(kb)
	// deterministic preference: first ready case in source order
	if chanReady(ka) {
		select {
		case va, oka = <-a:
			return 0, va, oka, vb, okb
		default:
		}
	}
	select {
	case vb, okb = <-b:
		return 1, va, oka, vb, okb
	default:
		panic(fmt.Sprintf("vsync: select became disabled (%v %v)", chanReady(ka), chanReady(kb)))
	}
}

// Select2Default is Select2 with a default case: idx == -1 when nothing is ready.
func Select2Default[A, B any](a <-chan A, b <-chan B) (idx int, va A, oka bool, vb B, okb bool) {
	if sched.Active() {
		sched.Point("select.poll")
		sched.Touch(bidir(a))
		sched.Touch(bidir(b))
	}
	select {
	case va, oka = <-a:
		return 0, va, oka, vb, okb
	case vb, okb = <-b:
		return 1, va, oka, vb, okb
	default:
		return -1, va, oka, vb, okb
	}
}

// Select1 replaces a select with a single receive case.
func Select1[A any](a <-chan A) (A, bool) { return Recv2(a) }

// Pool is a deterministic sync.Pool: a LIFO free list that never drops what was put back (the
// real pool may drop items at a collection; keeping them is the case in which a stale item is
// handed out again). Access is a scheduling point like a lock operation.
type Pool struct {
	New   func() any
	items []any
}

func (p *Pool) Get() any {
	if sched.Active() {
		sched.Point("pool.get")
		sched.Touch(p)
	}
	if n := len(p.items); n > 0 {
		x := p.items[n-1]
		p.items = p.items[:n-1]
		return x
	}
	if p.New != nil {
		return p.New()
	}
	return nil
}

func (p *Pool) Put(x any) {
	if x == nil {
		return
	}
	if sched.Active() {
		sched.Point("pool.put")
		sched.Touch(p)
	}
	p.items = append(p.items, x)
}

// Map is a deterministic sync.Map (plain map behind scheduling points; Range in insertion order).
type Map struct {
	m    map[any]any
	keys []any
}

func (m *Map) point(op string) {
	if sched.Active() {
		sched.Point("map." + op)
		sched.Touch(m)
	}
}

func (m *Map) Load(k any) (any, bool) { m.point("load"); v, ok := m.m[k]; return v, ok }

func (m *Map) Store(k, v any) {
	m.point("store")
	if m.m == nil {
		m.m = map[any]any{}
	}
	if _, ok := m.m[k]; !ok {
		m.keys = append(m.keys, k)
	}
	m.m[k] = v
}

func (m *Map) LoadOrStore(k, v any) (any, bool) {
	m.point("loadorstore")
	if old, ok := m.m[k]; ok {
		return old, true
	}
	if m.m == nil {
		m.m = map[any]any{}
	}
	m.keys = append(m.keys, k)
	m.m[k] = v
	return v, false
}

func (m *Map) LoadAndDelete(k any) (any, bool) {
	m.point("loadanddelete")
	v, ok := m.m[k]
	if ok {
		m.remove(k)
	}
	return v, ok
}

func (m *Map) Delete(k any) { m.point("delete"); m.remove(k) }

func (m *Map) remove(k any) {
	if _, ok := m.m[k]; !ok {
		return
	}
	delete(m.m, k)
	for i, x := range m.keys {
		if x == k {
			m.keys = append(m.keys[:i], m.keys[i+1:]...)
			break
		}
	}
}

func (m *Map) Range(f func(k, v any) bool) {
	m.point("range")
	for _, k := range append([]any{}, m.keys...) {
		if v, ok := m.m[k]; ok && !f(k, v) {
			return
		}
	}
}
