//go:build race

package vsync

import (
	"reflect"
	"runtime"
	"unsafe"
)

// With the race detector on, the controlled scheduler's hand-offs are invisible to it
// (raw pipe syscalls), so the synchronisation the code under test really performs is
// announced explicitly: a lock acquisition acquires, an unlock releases, on the lock's address.
func addr(p any) unsafe.Pointer { return unsafe.Pointer(reflect.ValueOf(p).Pointer()) }

func raceAcquire(p any) { runtime.RaceAcquire(addr(p)) }
func raceRelease(p any) { runtime.RaceRelease(addr(p)) }
