//go:build !race

package vsync

func raceAcquire(p any) {}
func raceRelease(p any) {}
