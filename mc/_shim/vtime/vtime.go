// Package vtime replaces "time" in the code under test: timers belong to the explorer.
//
// Model: a virtual clock that only moves when a timer fires. Every pending timer is a daemon
// thread of the scheduler whose single step is "the timer fires"; it is enabled when its deadline
// is the earliest one pending (timers fire in deadline order). In the lazy default order it comes
// last (the driver's operations follow each other faster than any timer); in the eager default
// order it runs before the driver continues (operations are far apart: the paced real replay).
// Any other moment is a deviation the explorer enumerates like a preemption. Quiescence
// includes "every pending timer has fired".
package vtime

import (
	"fmt"
	"time"

	"tags.cncf.io/container-device-interface/verifshim/sched"
	"tags.cncf.io/container-device-interface/verifshim/vsync"
)

type (
	Duration = time.Duration
	Time     = time.Time
	Month    = time.Month
	Weekday  = time.Weekday
	Location = time.Location
)

const (
	Nanosecond  = time.Nanosecond
	Microsecond = time.Microsecond
	Millisecond = time.Millisecond
	Second      = time.Second
	Minute      = time.Minute
	Hour        = time.Hour
	RFC3339     = time.RFC3339
	RFC3339Nano = time.RFC3339Nano
)

var UTC = time.UTC

func Unix(sec, nsec int64) Time                          { return time.Unix(sec, nsec) }
func ParseDuration(s string) (Duration, error)           { return time.ParseDuration(s) }
func Parse(layout, value string) (Time, error)           { return time.Parse(layout, value) }
func Date(y int, m Month, d, h, mi, s, ns int, l *Location) Time { return time.Date(y, m, d, h, mi, s, ns, l) }

// the virtual clock (per execution; reset by Reset)
var (
	base    = time.Unix(1_700_000_000, 0)
	now     Duration
	pending []*Timer
	serial  int
)

// Reset forgets all timers and rewinds the clock (start of an execution).
func Reset() { now, pending, serial = 0, nil, 0 }

func Now() Time               { touchClock(); return base.Add(now) }
func Since(t Time) Duration   { return Now().Sub(t) }
func Until(t Time) Duration   { return t.Sub(Now()) }

var clockObj = new(int)

func touchClock() {
	if sched.Active() {
		sched.Touch(clockObj)
	}
}

// Timer mirrors time.Timer (C, Stop, Reset).
type Timer struct {
	C        <-chan Time
	c        chan Time
	deadline Duration
	fn       func()
	live     bool
	id       int
}

func earliest(t *Timer) bool {
	for _, p := range pending {
		if p.live && p.deadline < t.deadline {
			return false
		}
	}
	return true
}

func drop(t *Timer) {
	for i, p := range pending {
		if p == t {
			pending = append(pending[:i], pending[i+1:]...)
			return
		}
	}
}

func (t *Timer) arm(d Duration) {
	touchClock()
	if d < 0 {
		d = 0
	}
	t.deadline, t.live = now+d, true
	serial++
	t.id = serial
	pending = append(pending, t)
	me := t
	id := t.id
	sched.Go(fmt.Sprintf("timer-%d(%v)", id, d), true, 3, func() { // eager order: after the goroutines of the code under test (5) and the event reader (10), before the driver threads (0); lazy order: last (newest thread)
		sched.Block("timer fires", func() bool { return !me.live || me.id != id || earliest(me) })
		touchClock()
		if !me.live || me.id != id {
			return // stopped or re-armed meanwhile
		}
		me.live = false
		drop(me)
		if me.deadline > now {
			now = me.deadline
		}
		if me.fn != nil {
			me.fn()
			return
		}
		vsync.TouchChan(me.c)
		select {
		case me.c <- base.Add(now):
		default:
		}
	})
}

func NewTimer(d Duration) *Timer {
	if !sched.Active() {
		rt := time.NewTimer(d)
		return &Timer{C: rt.C}
	}
	c := make(chan Time, 1)
	vsync.RegisterChan(c)
	t := &Timer{C: c, c: c}
	t.arm(d)
	return t
}

func (t *Timer) Stop() bool {
	touchClock()
	was := t.live
	t.live = false
	drop(t)
	return was
}

func (t *Timer) Reset(d Duration) bool {
	was := t.Stop()
	t.arm(d)
	return was
}

func After(d Duration) <-chan Time {
	if !sched.Active() {
		return time.After(d)
	}
	return NewTimer(d).C
}

func AfterFunc(d Duration, f func()) *Timer {
	if !sched.Active() {
		time.AfterFunc(d, f)
		return &Timer{}
	}
	t := &Timer{fn: f}
	t.arm(d)
	return t
}

func Sleep(d Duration) {
	if !sched.Active() {
		time.Sleep(d)
		return
	}
	vsync.Recv(After(d))
}

// Ticker mirrors time.Ticker: re-armed every time it fires, until stopped.
type Ticker struct {
	C    <-chan Time
	stop bool
}

func NewTicker(d Duration) *Ticker {
	if !sched.Active() {
		rt := time.NewTicker(d)
		return &Ticker{C: rt.C}
	}
	c := make(chan Time, 1)
	vsync.RegisterChan(c)
	tk := &Ticker{C: c}
	var t *Timer
	t = &Timer{fn: func() {
		if tk.stop {
			return
		}
		vsync.TouchChan(c)
		select {
		case c <- base.Add(now):
		default:
		}
		t.arm(d)
	}}
	t.arm(d)
	return tk
}

func (t *Ticker) Stop() { touchClock(); t.stop = true }

func Tick(d Duration) <-chan Time { return NewTicker(d).C }
