// Package vos replaces "os" in the rewritten pkg/cdi files: file-system calls go through the
// environment model (vfs); everything else forwards to the real package.
package vos

import (
	"io/fs"
	"os"

	"tags.cncf.io/container-device-interface/verifshim/sched"
	"tags.cncf.io/container-device-interface/verifshim/vfs"
)

type (
	File     = vfs.File
	FileInfo = os.FileInfo
	FileMode = os.FileMode
	DirEntry = os.DirEntry
	PathError = os.PathError
	LinkError = os.LinkError
	Signal   = os.Signal
)

const (
	PathSeparator     = os.PathSeparator
	PathListSeparator = os.PathListSeparator
	O_RDONLY          = os.O_RDONLY
	O_WRONLY          = os.O_WRONLY
	O_RDWR            = os.O_RDWR
	O_APPEND          = os.O_APPEND
	O_CREATE          = os.O_CREATE
	O_EXCL            = os.O_EXCL
	O_SYNC            = os.O_SYNC
	O_TRUNC           = os.O_TRUNC
	ModePerm          = os.ModePerm
	ModeDir           = os.ModeDir
	ModeSymlink       = os.ModeSymlink
	ModeNamedPipe     = os.ModeNamedPipe
	ModeDevice        = os.ModeDevice
	ModeCharDevice    = os.ModeCharDevice
	ModeSetuid        = os.ModeSetuid
	ModeSetgid        = os.ModeSetgid
	ModeSticky        = os.ModeSticky
	ModeType          = os.ModeType
)

var (
	ErrNotExist   = os.ErrNotExist
	ErrExist      = os.ErrExist
	ErrPermission = os.ErrPermission
	ErrInvalid    = os.ErrInvalid
	ErrClosed     = os.ErrClosed
	Stdin         = os.Stdin
	Stdout        = os.Stdout
	Stderr        = os.Stderr
	Args          = os.Args
)

func IsNotExist(err error) bool   { return os.IsNotExist(err) }
func IsExist(err error) bool      { return os.IsExist(err) }
func IsPermission(err error) bool { return os.IsPermission(err) }
func Getenv(k string) string      { return os.Getenv(k) }
func LookupEnv(k string) (string, bool) { return os.LookupEnv(k) }
func Getpid() int                 { return os.Getpid() }
func Getuid() int                 { return os.Getuid() }
func Geteuid() int                { return os.Geteuid() }
func TempDir() string             { return os.TempDir() }
func Exit(code int)               { os.Exit(code) }
func Getwd() (string, error)      { return os.Getwd() }
func Hostname() (string, error)   { return os.Hostname() }

func ReadFile(name string) ([]byte, error)                   { return vfs.ReadFile(name) }
func WriteFile(name string, data []byte, perm FileMode) error { return vfs.WriteFile(name, data, perm) }
func MkdirAll(path string, perm FileMode) error               { return vfs.MkdirAll(path, perm) }
func Mkdir(path string, perm FileMode) error                  { return vfs.Mkdir(path, perm) }
func Remove(name string) error                                { return vfs.Remove(name) }
func RemoveAll(name string) error                             { return vfs.RemoveAll(name) }
func Rename(oldpath, newpath string) error                    { return vfs.Rename(oldpath, newpath) }
func Link(oldname, newname string) error                      { return vfs.Link(oldname, newname) }
func Symlink(oldname, newname string) error                   { return vfs.Symlink(oldname, newname) }
func Readlink(name string) (string, error)                    { sched.Touch(vfs.Env); return os.Readlink(name) }
func Open(name string) (*File, error)                         { return vfs.Open(name) }
func Create(name string) (*File, error) {
	return vfs.OpenFile(name, os.O_RDWR|os.O_CREATE|os.O_TRUNC, 0o666)
}
func OpenFile(name string, flag int, perm FileMode) (*File, error) { return vfs.OpenFile(name, flag, perm) }
func CreateTemp(dir, pattern string) (*File, error) {
	if dir == "" {
		dir = os.TempDir()
	}
	return vfs.CreateTemp(dir, pattern)
}
func MkdirTemp(dir, pattern string) (string, error) { sched.Touch(vfs.Env); return os.MkdirTemp(dir, pattern) }
func Stat(name string) (FileInfo, error)            { return vfs.Stat(name) }
func Lstat(name string) (FileInfo, error)           { return vfs.Lstat(name) }
func Chmod(name string, mode FileMode) error        { sched.Touch(vfs.Env); return os.Chmod(name, mode) }
func Chown(name string, uid, gid int) error         { sched.Touch(vfs.Env); return os.Chown(name, uid, gid) }
func SameFile(a, b FileInfo) bool                   { return os.SameFile(a, b) }
func ReadDir(name string) ([]DirEntry, error) {
	if _, err := vfs.ReadDirNames(name); err != nil {
		return nil, err
	}
	return os.ReadDir(name)
}
func DirFS(dir string) fs.FS { return os.DirFS(dir) }
