// Package hx is the shared plumbing of every check: tier/seed handling, parallel
// exhaustive enumeration helpers, outcome accounting, known-findings matching,
// replay files, evidence files and the VIOLATION / KNOWN-FINDING protocol.
package hx

import (
	"crypto/sha256"
	"encoding/hex"
	"encoding/json"
	"flag"
	"fmt"
	"os"
	"path/filepath"
	"runtime"
	"runtime/debug"
	"sort"
	"strconv"
	"sync"
	"sync/atomic"
	"time"
)

// VerifRoot is /verif, or the snapshot the run script lives in (VERIF_ROOT).
var VerifRoot = func() string {
	if r := os.Getenv("VERIF_ROOT"); r != "" {
		return r
	}
	return "/verif"
}()

// RepoRoot is the tree under verification: /repo, or a scratch worktree (VERIF_REPO, see mc/goenv.sh).
var RepoRoot = func() string {
	if r := os.Getenv("VERIF_REPO"); r != "" {
		return r
	}
	return "/repo"
}()

// Failure is one violated case.
type Failure struct {
	Sig      string `json:"signature"` // class of the failing case; matched against known-findings.json
	Msg      string `json:"message"`
	Case     any    `json:"case"`
	Expected any    `json:"expected,omitempty"`
	Actual   any    `json:"actual,omitempty"`
	Rank     int64  `json:"rank,omitempty"` // smaller = simpler case; the simplest case per signature is kept
}

// Result of evaluating one case.
type Result struct {
	Outcome    string // outcome class (for distinct-outcome accounting)
	Nontrivial bool
	Fail       *Failure
}

type knownEntry struct {
	Property  string `json:"property"`
	Status    string `json:"status"` // known | fixed
	Signature string `json:"signature"`
	Note      string `json:"note"`
	Commit    string `json:"commit,omitempty"`
}

// Run accumulates what one invocation of a check covered.
type Run struct {
	ID       string
	Tier     string
	Seed     int64
	Level    string
	Replay   string // --replay <file>
	Deadline time.Time

	start       time.Time
	evals       atomic.Int64
	nontrivial  atomic.Int64
	States      atomic.Int64
	Transitions atomic.Int64
	Traces      atomic.Int64

	mu          sync.Mutex
	outcomes    map[string]int64
	samples     []any
	failures    map[string]*Failure // first failure per signature
	failCount   map[string]int64
	Rule        string
	Assumptions []string
	Extra       map[string]any
	Exhaustive  bool
	capsHit     []string
	sampleEvery int64
}

// Start parses flags/env and returns a Run. Call once from main.
func Start(id, level string) *Run {
	tier := flag.String("tier", "", "quick|thorough")
	replay := flag.String("replay", "", "replay file")
	flag.Parse()
	r := &Run{ID: id, Level: level, start: time.Now(), outcomes: map[string]int64{},
		failures: map[string]*Failure{}, failCount: map[string]int64{}, Extra: map[string]any{}, Exhaustive: true}
	r.Tier = *tier
	if r.Tier == "" {
		r.Tier = os.Getenv("VERIF_TIER")
	}
	if r.Tier != "thorough" {
		r.Tier = "quick"
	}
	if s := os.Getenv("VERIF_SEED"); s != "" {
		r.Seed, _ = strconv.ParseInt(s, 10, 64)
	}
	r.Replay = *replay
	budget := 240 * time.Second // quick tiers finish in 1-70 s on an idle machine; the budget only matters on a loaded one (then: exhaustive=false, exit 0)
	if r.Tier == "thorough" {
		budget = 40 * time.Minute
	}
	if s := os.Getenv("VERIF_BUDGET_S"); s != "" {
		if n, err := strconv.Atoi(s); err == nil {
			budget = time.Duration(n) * time.Second
		}
	}
	r.Deadline = r.start.Add(budget)
	r.sampleEvery = 1
	debug.SetGCPercent(800)        // the checks allocate many short-lived objects; trade memory for time
	debug.SetMemoryLimit(24 << 30) // ... up to a point: the collector works harder near 24 GiB
	return r
}

func (r *Run) Thorough() bool { return r.Tier == "thorough" }

// Expired reports whether the run's internal budget is used up; the caller stops
// enumerating and the evidence says exhaustive:false.
func (r *Run) Expired() bool {
	if time.Now().After(r.Deadline) {
		r.Cap("time budget reached")
		return true
	}
	return false
}

func (r *Run) Cap(what string) {
	r.mu.Lock()
	defer r.mu.Unlock()
	r.Exhaustive = false
	for _, c := range r.capsHit {
		if c == what {
			return
		}
	}
	r.capsHit = append(r.capsHit, what)
}

// Record accounts one evaluated case.
func (r *Run) Record(res Result, sample func() any) {
	n := r.evals.Add(1)
	if res.Nontrivial {
		r.nontrivial.Add(1)
	}
	takeSample := false
	if sample != nil {
		// deterministic thinning: sample at exponentially spaced evaluation counts, rotated by seed
		k := n + r.Seed%7
		takeSample = k&(k-1) == 0 && k >= 1
	}
	r.mu.Lock()
	r.outcomes[res.Outcome]++
	if takeSample && len(r.samples) < 12 {
		r.samples = append(r.samples, sample())
	}
	if res.Fail != nil {
		r.keep(res.Fail)
	}
	r.mu.Unlock()
}

func (r *Run) keep(f *Failure) {
	if os.Getenv("VERIF_ALLFAILS") != "" {
		fmt.Printf("FAILCASE %s | %s\n", f.Sig, f.Msg)
	}
	r.failCount[f.Sig]++
	if old, ok := r.failures[f.Sig]; !ok || f.Rank < old.Rank {
		r.failures[f.Sig] = f
	}
}

// Fail records a failure outside Record (state-space checks).
func (r *Run) Fail(f *Failure) {
	r.mu.Lock()
	r.keep(f)
	r.mu.Unlock()
}

func (r *Run) Failed() int {
	r.mu.Lock()
	defer r.mu.Unlock()
	return len(r.failures)
}

func (r *Run) AddSample(s any) {
	r.mu.Lock()
	if len(r.samples) < 12 {
		r.samples = append(r.samples, s)
	}
	r.mu.Unlock()
}

func (r *Run) Outcome(o string) {
	r.mu.Lock()
	r.outcomes[o]++
	r.mu.Unlock()
}

func (r *Run) Evals() int64 { return r.evals.Load() }
func (r *Run) AddEvals(n, nontrivial int64) {
	r.evals.Add(n)
	r.nontrivial.Add(nontrivial)
}

// Guard runs f, converting a panic into a Failure with the given signature prefix.
func Guard(sigPrefix string, c any, f func() Result) (res Result) {
	defer func() {
		if p := recover(); p != nil {
			st := string(debug.Stack())
			res = Result{Outcome: "panic", Nontrivial: true, Fail: &Failure{
				Sig: sigPrefix + "panic:" + PanicSite(st), Msg: fmt.Sprintf("panic: %v", p), Case: c, Actual: firstLines(st, 14)}}
		}
	}()
	return f()
}

// Local is a per-worker accumulator (no contention); merged into the Run when the worker ends.
type Local struct {
	r          *Run
	evals      int64
	nontrivial int64
	outcomes   map[string]int64
}

func (l *Local) Record(res Result, sample func() any) {
	l.evals++
	if res.Nontrivial {
		l.nontrivial++
	}
	l.outcomes[res.Outcome]++
	if sample != nil && l.evals&(l.evals-1) == 0 && l.evals >= 64 {
		l.r.AddSample(sample())
	}
	if res.Fail != nil {
		l.r.Fail(res.Fail)
	}
}

func (l *Local) merge() {
	l.r.evals.Add(l.evals)
	l.r.nontrivial.Add(l.nontrivial)
	l.r.mu.Lock()
	for k, n := range l.outcomes {
		l.r.outcomes[k] += n
	}
	l.r.mu.Unlock()
}

// ParallelL is Parallel with a per-worker accumulator, for sweeps of many millions of cases.
func (r *Run) ParallelL(total int64, fn func(i int64, l *Local)) {
	r.parallel(total, func() (func(i int64), func()) {
		l := &Local{r: r, outcomes: map[string]int64{}}
		return func(i int64) { fn(i, l) }, l.merge
	})
}

// Parallel calls fn(i) for i in [0,total) on all cores, stopping early when the budget expires.
func (r *Run) Parallel(total int64, fn func(i int64)) {
	r.parallel(total, func() (func(i int64), func()) { return fn, func() {} })
}

func (r *Run) parallel(total int64, mk func() (func(i int64), func())) {
	workers := runtime.NumCPU()
	if s := os.Getenv("VERIF_WORKERS"); s != "" {
		if n, err := strconv.Atoi(s); err == nil && n > 0 {
			workers = n
		}
	}
	var next atomic.Int64
	chunk := total / int64(workers*8)
	if chunk > 256 {
		chunk = 256
	}
	if chunk < 1 {
		chunk = 1
	}
	var wg sync.WaitGroup
	var stop atomic.Bool
	for w := 0; w < workers; w++ {
		wg.Add(1)
		go func() {
			defer wg.Done()
			fn, done := mk()
			defer done()
			for !stop.Load() {
				lo := next.Add(chunk) - chunk
				if lo >= total {
					return
				}
				hi := lo + chunk
				if hi > total {
					hi = total
				}
				for i := lo; i < hi; i++ {
					fn(i)
				}
				if (lo/chunk)%64 == 0 && r.Expired() {
					stop.Store(true)
				}
			}
		}()
	}
	wg.Wait()
	if stop.Load() {
		r.Extra["completed_index_below"] = next.Load()
	}
}

// ParallelSlice evaluates every element of cases on all cores.
func ParallelSlice[C any](r *Run, cases []C, fn func(c C)) {
	r.Parallel(int64(len(cases)), func(i int64) { fn(cases[i]) })
}

// outRoot is /verif, or a scratch directory when VERIF_NO_EVIDENCE is set (runs against
// deliberately broken trees must not overwrite the committed evidence).
func outRoot() string {
	if os.Getenv("VERIF_NO_EVIDENCE") != "" {
		return filepath.Join(os.TempDir(), "verif-scratch-out")
	}
	return VerifRoot
}

func loadKnown() []knownEntry {
	var ks []knownEntry
	b, err := os.ReadFile(filepath.Join(VerifRoot, "known-findings.json"))
	if err != nil {
		return nil
	}
	if err := json.Unmarshal(b, &ks); err != nil {
		fmt.Fprintf(os.Stderr, "known-findings.json unreadable: %v\n", err)
		os.Exit(2)
	}
	return ks
}

// Finish writes the evidence file, prints the protocol lines and exits.
func (r *Run) Finish() {
	known := map[string]knownEntry{}
	for _, k := range loadKnown() {
		if k.Property == r.ID && k.Status == "known" {
			known[k.Signature] = k
		}
	}
	sigs := make([]string, 0, len(r.failures))
	for s := range r.failures {
		sigs = append(sigs, s)
	}
	sort.Slice(sigs, func(i, j int) bool {
		a, b := r.failures[sigs[i]], r.failures[sigs[j]]
		if a.Rank != b.Rank {
			return a.Rank < b.Rank
		}
		return sigs[i] < sigs[j]
	})
	violations := 0
	knownHits := 0
	var lines []string
	for _, s := range sigs {
		f := r.failures[s]
		if k, ok := known[s]; ok {
			knownHits++
			lines = append(lines, fmt.Sprintf("KNOWN-FINDING: property=%s %s — %s (%d cases)", r.ID, s, k.Note, r.failCount[s]))
			continue
		}
		violations++
		if violations > 8 {
			continue // further signatures are counted in the evidence but not written out
		}
		path := r.writeReplay(f)
		fmt.Printf("violation: %s: %s\n", f.Sig, f.Msg)
		lines = append(lines, fmt.Sprintf("VIOLATION property=%s replay=%s", r.ID, path))
	}
	r.writeEvidence(violations, knownHits, sigs)
	for _, l := range lines {
		fmt.Println(l)
	}
	fmt.Printf("%s %s: evaluations=%d nontrivial=%d outcomes=%d states=%d transitions=%d exhaustive=%v wall=%.1fs violations=%d known=%d\n",
		r.ID, r.Tier, r.evals.Load(), r.nontrivial.Load(), len(r.outcomes), r.States.Load(), r.Transitions.Load(), r.Exhaustive,
		time.Since(r.start).Seconds(), violations, knownHits)
	if violations > 0 {
		os.Exit(1)
	}
	os.Exit(0)
}

func (r *Run) writeReplay(f *Failure) string {
	doc := map[string]any{"property": r.ID, "tier": r.Tier, "signature": f.Sig, "message": f.Msg,
		"case": f.Case, "expected": f.Expected, "actual": f.Actual}
	b, _ := json.MarshalIndent(doc, "", " ")
	h := sha256.Sum256([]byte(f.Sig))
	dir := filepath.Join(outRoot(), "replays")
	_ = os.MkdirAll(dir, 0o755)
	path := filepath.Join(dir, r.ID+"-"+hex.EncodeToString(h[:5])+".json")
	doc["repro"] = "./run " + r.ID + " --replay " + path
	b, _ = json.MarshalIndent(doc, "", " ")
	_ = os.WriteFile(path, b, 0o644)
	return path
}

func (r *Run) writeEvidence(violations, knownHits int, sigs []string) {
	cov := map[string]any{}
	for k, v := range r.Extra {
		cov[k] = v
	}
	cov["evaluations"] = r.evals.Load()
	cov["distinct_nontrivial"] = r.nontrivial.Load()
	cov["rule"] = r.Rule
	samples := r.samples
	if len(samples) == 0 {
		samples = []any{}
	}
	cov["samples"] = samples
	cov["exhaustive"] = r.Exhaustive
	if len(r.capsHit) > 0 {
		cov["caps_hit"] = r.capsHit
	}
	if r.States.Load() > 0 {
		cov["states"] = r.States.Load()
		cov["transitions"] = r.Transitions.Load()
		cov["traces_validated_against_impl"] = r.Traces.Load()
	}
	type oc struct {
		K string
		N int64
	}
	var ocs []oc
	for k, n := range r.outcomes {
		ocs = append(ocs, oc{k, n})
	}
	sort.Slice(ocs, func(i, j int) bool { return ocs[i].N > ocs[j].N || (ocs[i].N == ocs[j].N && ocs[i].K < ocs[j].K) })
	cov["distinct_outcomes"] = len(ocs)
	top := map[string]int64{}
	for i, o := range ocs {
		if i >= 40 {
			break
		}
		top[o.K] = o.N
	}
	cov["outcome_classes"] = top
	if len(sigs) > 0 {
		cov["failure_signatures"] = sigs
	}
	ev := map[string]any{
		"property_id": r.ID, "tier": r.Tier, "seed": r.Seed, "level": r.Level,
		"coverage": cov, "assumptions": r.Assumptions, "wall_s": time.Since(r.start).Seconds(),
		"violations": violations, "known_findings": knownHits,
	}
	if r.Assumptions == nil {
		ev["assumptions"] = []string{}
	}
	b, _ := json.MarshalIndent(ev, "", " ")
	dir := filepath.Join(outRoot(), "evidence")
	_ = os.MkdirAll(dir, 0o755)
	if err := os.WriteFile(filepath.Join(dir, r.ID+".json"), append(b, '\n'), 0o644); err != nil {
		fmt.Fprintf(os.Stderr, "cannot write evidence: %v\n", err)
		os.Exit(2)
	}
}

// LoadReplay decodes the "case" member of a replay file into c.
func (r *Run) LoadReplay(c any) {
	b, err := os.ReadFile(r.Replay)
	if err != nil {
		fmt.Fprintln(os.Stderr, err)
		os.Exit(2)
	}
	var doc struct {
		Case json.RawMessage `json:"case"`
	}
	if err := json.Unmarshal(b, &doc); err != nil {
		fmt.Fprintln(os.Stderr, err)
		os.Exit(2)
	}
	if err := json.Unmarshal(doc.Case, c); err != nil {
		fmt.Fprintln(os.Stderr, err)
		os.Exit(2)
	}
}

// ReplayExit prints the result of replaying one case and exits 1 if it still fails.
func ReplayExit(id string, res Result) {
	if res.Fail != nil {
		b, _ := json.MarshalIndent(res.Fail, "", " ")
		fmt.Printf("replay: still FAILS\n%s\n", b)
		fmt.Printf("VIOLATION property=%s replay=(replayed)\n", id)
		os.Exit(1)
	}
	fmt.Printf("replay: case passes now (outcome %q)\n", res.Outcome)
	os.Exit(0)
}

func firstLines(s string, n int) string {
	out, c := 0, 0
	for i := range s {
		if s[i] == '\n' {
			c++
			if c == n {
				out = i
				break
			}
		}
	}
	if out == 0 {
		return s
	}
	return s[:out]
}
