package hx

import (
	"encoding/json"
	"hash/fnv"
	"regexp"
	"strings"
)

var siteRe = regexp.MustCompile(`(?m)^((?:tags\.cncf\.io/container-device-interface|github\.com/|gopkg\.in/|sigs\.k8s\.io/)\S*)\(`)

// PanicSite extracts the innermost non-runtime function of a panic stack: the call site
// that identifies a crash class.
func PanicSite(stack string) string {
	// skip frames up to and including the panic() frame
	if i := strings.Index(stack, "panic("); i >= 0 {
		stack = stack[i:]
	}
	for _, m := range siteRe.FindAllStringSubmatch(stack, -1) {
		fn := m[1]
		if strings.Contains(fn, "verif/mc") {
			continue
		}
		fn = strings.TrimPrefix(fn, "tags.cncf.io/container-device-interface/")
		return fn
	}
	return "unknown"
}

func JSON(v any) string {
	b, err := json.Marshal(v)
	if err != nil {
		return "<unmarshalable: " + err.Error() + ">"
	}
	return string(b)
}

func Hash64(s string) uint64 {
	h := fnv.New64a()
	_, _ = h.Write([]byte(s))
	return h.Sum64()
}

// Digits decodes index i in mixed radix (least significant digit first).
func Digits(i int64, radix []int) []int {
	d := make([]int, len(radix))
	for k, r := range radix {
		d[k] = int(i % int64(r))
		i /= int64(r)
	}
	return d
}

func Product(radix []int) int64 {
	p := int64(1)
	for _, r := range radix {
		p *= int64(r)
	}
	return p
}
