// Package explore is Engine B's stateless search: iterative deviation-bounded depth-first
// exploration of the executions of a scenario under the controlled scheduler (threads,
// environment answers, crashes). Only built through the overlay (it imports the scheduler
// from the instrumented module).
package explore

import (
	"fmt"
	"os"
	"runtime"
	"strings"
	"time"

	"tags.cncf.io/container-device-interface/verifshim/sched"
	"tags.cncf.io/container-device-interface/verifshim/vfs"
	"tags.cncf.io/container-device-interface/verifshim/vfsnotify"
	"tags.cncf.io/container-device-interface/verifshim/vsync"
	"tags.cncf.io/container-device-interface/verifshim/vtime"
)

// Bounds on deviations from the default execution.
type Bounds struct {
	Preemptions int
	Faults      int
	Crashes     int
}

// Instance is one fresh instantiation of a scenario (fresh scratch tree, fresh objects).
type Instance struct {
	Threads []func()
	Names   []string
	// Check is evaluated after the execution ended (all threads done or quiescent). It returns
	// a violation description or "".
	Check func(e *sched.Exec) (sig, msg string, detail any)
	// CheckPartial is evaluated instead of Check when the execution was cut at an already
	// explored state: it reports what the execution has established about its own path so far
	// (an invariant over intermediate global states, which — unlike the final state — is not the
	// same for all equivalent executions). Scenarios that evaluate sched.OnStep need it.
	CheckPartial func(e *sched.Exec) (sig, msg string, detail any)
	// Observe returns a canonical observation of the outcome (distinct-outcome accounting).
	Observe func() string
	Cleanup func()
}

type Scenario struct {
	Name     string
	Eager    bool
	Bounds   Bounds
	MaxSteps int
	New      func() *Instance
	MaxExecs int64 // cap on executions (0 = none); hitting it makes the result non-exhaustive
	// NoPrune switches the happens-before state cache off for this scenario (validation runs;
	// scenarios whose Check looks at something that is not invariant under reordering of
	// independent operations).
	NoPrune bool
	// AfterExec, when set, is consulted after every execution that passed Check (e.g. new
	// race-detector reports attributed to this schedule).
	AfterExec func(e *sched.Exec) (sig, msg string, detail any)
}

type Violation struct {
	Sig, Msg string
	Detail   any
	Choices  []int
	Schedule []string
	OpLog    []string
}

type Result struct {
	Executions int64
	Points     int64 // total choice points seen
	Outcomes   map[string]int64
	Violations []Violation
	Capped     bool
	Deadlocks  int64
	MaxTrace   int
	Infra      string // non-empty: infrastructure problem (replay divergence, overrun)
	WallS      float64
	Pruned     int64 // executions cut at a state already explored with at most the same deviations
	States     int64 // distinct happens-before states stored
}

// NoPrune (VERIF_NOPRUNE=1) switches the state cache off globally: used to validate that
// pruning changes neither the set of outcomes nor the set of violations.
var NoPrune = os.Getenv("VERIF_NOPRUNE") == "1"

// MaxStates bounds the state cache of one Explore call (memory: roughly 100 bytes per state).
var MaxStates = 3_000_000

type cost struct{ p, f, c int }

// BeforeExec functions run before every execution (reset of package-level state of the code under test).
var BeforeExec []func()

// LastOps is the environment-operation log of the most recent execution (when logging was on).
var LastOps []string

// RunOnce executes the scenario with the given choice prefix.
func RunOnce(sc *Scenario, prefix []int, logOps bool) (*sched.Exec, *Instance, *Violation) {
	vsync.ResetChannels()
	vtime.Reset()
	vfsnotify.ResetLog()
	for _, f := range BeforeExec {
		f()
	}
	in := sc.New()
	if logOps {
		vfs.W.LogOps = true
	}
	maxSteps := sc.MaxSteps
	if maxSteps == 0 {
		maxSteps = 20000
	}
	e := sched.Run(prefix, sc.Eager, maxSteps, in.Threads, in.Names)
	LastOps = append([]string{}, vfs.W.OpLog...)
	var v *Violation
	mk := func(sig, msg string, detail any) *Violation {
		return &Violation{Sig: sig, Msg: msg, Detail: detail, Choices: e.Choices(), Schedule: e.Describe(), OpLog: LastOps}
	}
	switch {
	case e.Pruned:
		// the rest of this execution is equivalent to one explored from the stored state
		if in.CheckPartial != nil {
			if sig, msg, detail := in.CheckPartial(e); sig != "" {
				v = mk(sig, msg, detail)
			}
		}
	case e.Diverged != "" || e.Overrun:
		// reported by the caller as infrastructure trouble
	case len(e.Panics) > 0:
		v = mk("panic:"+firstLine(e.Panics[0]), e.Panics[0], nil)
	case e.Deadlock:
		v = mk("deadlock", "no enabled thread while a non-daemon thread has not finished: "+e.ThreadNames(), nil)
	default:
		if in.Check != nil {
			if sig, msg, detail := in.Check(e); sig != "" {
				v = mk(sig, msg, detail)
			}
		}
		if v == nil && sc.AfterExec != nil {
			if sig, msg, detail := sc.AfterExec(e); sig != "" {
				v = mk(sig, msg, detail)
			}
		}
	}
	return e, in, v
}

func firstLine(s string) string {
	if i := strings.IndexByte(s, '\n'); i >= 0 {
		return s[:i]
	}
	return s
}

// Explore enumerates every execution within the bounds.
func Explore(sc *Scenario, deadline time.Time) *Result {
	start := time.Now()
	res := &Result{Outcomes: map[string]int64{}}
	// depth-first search with one frame per executed execution whose deviations are not exhausted
	// yet (children are generated on demand: materialising every child prefix up front needs
	// memory proportional to executions x trace length, which unbounded exploration cannot afford)
	type frame struct {
		trace      []sched.PointRec
		start      int   // deviations are allowed at points >= start
		cp, cf, cc []int // deviations spent before point i
		i, alt     int   // next candidate: point i, alternative alt
	}
	var stack []*frame
	next := func(fr *frame) []int {
		for fr.i >= fr.start {
			pt := fr.trace[fr.i]
			for fr.alt < pt.N {
				alt := fr.alt
				fr.alt++
				dp, df, dc := pt.Cost(alt)
				if fr.cp[fr.i]+dp > sc.Bounds.Preemptions || fr.cf[fr.i]+df > sc.Bounds.Faults || fr.cc[fr.i]+dc > sc.Bounds.Crashes {
					continue
				}
				child := make([]int, fr.i+1)
				for k := 0; k < fr.i; k++ {
					child[k] = fr.trace[k].Chosen
				}
				child[fr.i] = alt
				return child
			}
			fr.i--
			fr.alt = 1
		}
		return nil
	}
	pending := [][]int{nil} // the first execution: empty prefix
	seenSig := map[string]bool{}
	// state cache: happens-before state key -> non-dominated deviation vectors it was reached with
	visited := map[sched.Hash][]cost{}
	sched.VisitHook = nil
	if !sc.NoPrune && !NoPrune {
		sched.VisitHook = func(key sched.Hash, p, f, c int) bool {
			vs := visited[key]
			for _, v := range vs {
				if v.p <= p && v.f <= f && v.c <= c {
					return true
				}
			}
			if vs == nil && len(visited) >= MaxStates {
				return false // table full: keep exploring without storing (sound, less reduction)
			}
			keep := vs[:0]
			for _, v := range vs {
				if !(p <= v.p && f <= v.f && c <= v.c) {
					keep = append(keep, v)
				}
			}
			visited[key] = append(keep, cost{p, f, c})
			return false
		}
	}
	defer func() { sched.VisitHook = nil; res.States = int64(len(visited)) }()
	for {
		var prefix []int
		if len(pending) > 0 {
			prefix, pending = pending[0], nil
		} else {
			for len(stack) > 0 && prefix == nil {
				if prefix = next(stack[len(stack)-1]); prefix == nil {
					stack = stack[:len(stack)-1]
				}
			}
			if prefix == nil && len(stack) == 0 {
				break
			}
		}
		if sc.MaxExecs > 0 && res.Executions >= sc.MaxExecs {
			res.Capped = true
			break
		}
		if res.Executions%64 == 0 && time.Now().After(deadline) {
			res.Capped = true
			break
		}
		e, in, v := RunOnce(sc, prefix, false)
		res.Executions++
		res.Points += int64(len(e.Trace))
		if len(e.Trace) > res.MaxTrace {
			res.MaxTrace = len(e.Trace)
		}
		if e.Diverged != "" {
			res.Infra = e.Diverged
			cleanup(in)
			break
		}
		if e.Overrun {
			res.Infra = fmt.Sprintf("execution exceeded %d steps (livelock or horizon too small) in scenario %s", e.MaxSteps, sc.Name)
			cleanup(in)
			break
		}
		if e.Deadlock {
			res.Deadlocks++
		}
		if e.Pruned {
			res.Pruned++
		} else if in.Observe != nil {
			res.Outcomes[in.Observe()]++
		}
		if v != nil && !seenSig[v.Sig] {
			seenSig[v.Sig] = true
			res.Violations = append(res.Violations, *v)
		}
		cleanup(in)
		// children: deviate at every point at or beyond the prefix (deepest point first)
		fr := &frame{trace: e.Trace, start: len(prefix), i: len(e.Trace) - 1, alt: 1}
		fr.cp, fr.cf, fr.cc = make([]int, len(e.Trace)+1), make([]int, len(e.Trace)+1), make([]int, len(e.Trace)+1)
		for k, pt := range e.Trace {
			dp, df, dc := pt.Cost(pt.Chosen)
			fr.cp[k+1], fr.cf[k+1], fr.cc[k+1] = fr.cp[k]+dp, fr.cf[k]+df, fr.cc[k]+dc
		}
		if len(e.Trace) > len(prefix) {
			stack = append(stack, fr)
		}
	}
	if os.Getenv("VERIF_DEBUG_MEM") != "" {
		var ms runtime.MemStats
		runtime.ReadMemStats(&ms)
		fmt.Fprintf(os.Stderr, "DEBUG %s: execs=%d goroutines=%d heapMB=%d stackMB=%d\n", sc.Name, res.Executions, runtime.NumGoroutine(), ms.HeapAlloc>>20, ms.StackInuse>>20)
	}
	res.WallS = time.Since(start).Seconds()
	return res
}

func cleanup(in *Instance) {
	if in != nil && in.Cleanup != nil {
		in.Cleanup()
	}
}
