// Package gen holds the generators of the bounded input spaces: CDI documents as plain
// trees (so that unknown members, wrong types and null entries are representable), their
// single/double-defect neighbours, and renderers to JSON and YAML.
package gen

import (
	"encoding/json"
	"fmt"
	"sort"
	"strings"

	yaml3 "gopkg.in/yaml.v3"
)

type M = map[string]any
type L = []any

// Base is a well-formed CDI document tree.
type Base struct {
	Name string
	Tree M
}

// EditKinds are the device/spec edit shapes combined into bases.
var EditKinds = []string{"env", "dnMin", "dnFull", "mountMin", "mountFull",
	"hook-prestart", "hook-createRuntime", "hook-createContainer", "hook-startContainer", "hook-poststart", "hook-poststop",
	"rdt", "gids", "all",
	// features in their least conspicuous spellings (they are features all the same: the version rules apply)
	"gidsZero", "rdtFlagOnly"}

func hook(stage string, full bool) M {
	h := M{"hookName": stage, "path": "/usr/bin/hook"}
	if full {
		h["args"] = L{"hook", "--arg"}
		h["env"] = L{"HOOK=1", "EMPTY="}
		h["timeout"] = int64(5)
	}
	return h
}

// Edits returns a fresh containerEdits tree of the given kind; tag makes values distinguishable.
func Edits(kind, tag string) M {
	switch {
	case kind == "env":
		return M{"env": L{"VAR_" + tag + "=1", "OTHER=x=y"}}
	case kind == "dnMin":
		return M{"deviceNodes": L{M{"path": "/dev/" + tag}}}
	case kind == "dnFull":
		return M{"deviceNodes": L{
			M{"path": "/dev/" + tag + "0"},
			M{"path": "/dev/" + tag + "1", "hostPath": "/dev/host" + tag, "type": "c", "major": int64(10), "minor": int64(200),
				"fileMode": int64(0o660), "permissions": "rw", "uid": int64(1000), "gid": int64(0)}}}
	case kind == "mountMin":
		return M{"mounts": L{M{"hostPath": "/host/" + tag, "containerPath": "/ctr/" + tag}}}
	case kind == "mountFull":
		return M{"mounts": L{
			M{"hostPath": "/host/" + tag, "containerPath": "/ctr/" + tag},
			M{"hostPath": "/host2/" + tag, "containerPath": "/ctr2/" + tag, "options": L{"ro", "nosuid"}, "type": "bind"}}}
	case strings.HasPrefix(kind, "hook-"):
		return M{"hooks": L{hook(strings.TrimPrefix(kind, "hook-"), true)}}
	case kind == "rdt":
		return M{"intelRdt": M{"closID": "clos" + tag, "l3CacheSchema": "L3:0=f", "memBwSchema": "MB:0=50", "enableCMT": true, "enableMBM": false}}
	case kind == "gids":
		return M{"additionalGids": L{int64(5), int64(4294967295)}}
	case kind == "gidsZero":
		return M{"additionalGids": L{int64(0), int64(0)}}
	case kind == "rdtFlagOnly":
		return M{"intelRdt": M{"enableMBM": true}}
	case kind == "all":
		e := M{}
		for _, k := range []string{"env", "dnFull", "mountFull", "rdt", "gids"} {
			for kk, v := range Edits(k, tag) {
				e[kk] = v
			}
		}
		e["hooks"] = L{hook("prestart", false), hook("createRuntime", true), hook("poststop", false)}
		return e
	}
	panic("unknown edit kind " + kind)
}

// MinVersion computes the minimum version the statement assigns to a (type-correct) tree.
func MinVersion(t M) string {
	min := 3
	up := func(v int) {
		if v > min {
			min = v
		}
	}
	scanEdits := func(e any) {
		em, _ := e.(M)
		for _, m := range asList(em["mounts"]) {
			if mm, ok := m.(M); ok {
				if s, _ := mm["type"].(string); s != "" {
					up(4)
				}
			}
		}
		for _, d := range asList(em["deviceNodes"]) {
			if dm, ok := d.(M); ok {
				if s, _ := dm["hostPath"].(string); s != "" {
					up(5)
				}
			}
		}
		if em["intelRdt"] != nil {
			up(7)
		}
		if len(asList(em["additionalGids"])) > 0 {
			up(7)
		}
	}
	scanEdits(t["containerEdits"])
	if a, ok := t["annotations"].(M); ok && len(a) > 0 {
		up(6)
	}
	if k, ok := t["kind"].(string); ok {
		if i := strings.IndexByte(k, '/'); i >= 0 && strings.Contains(k[i+1:], ".") {
			up(6)
		}
	}
	for _, d := range asList(t["devices"]) {
		dm, ok := d.(M)
		if !ok {
			continue
		}
		if n, _ := dm["name"].(string); n != "" && n[0] >= '0' && n[0] <= '9' {
			up(5)
		}
		if a, ok := dm["annotations"].(M); ok && len(a) > 0 {
			up(6)
		}
		scanEdits(dm["containerEdits"])
	}
	return fmt.Sprintf("0.%d.0", min)
}

func asList(v any) L {
	l, _ := v.(L)
	return l
}

// MakeBase builds a document: devKinds gives the edit kind of each device.
func MakeBase(specAnn bool, specEdits string, devKinds []string, devAnn bool, kind string, exactVersion bool) Base {
	t := M{"kind": kind}
	if specAnn {
		t["annotations"] = M{"vendor.com/note": "spec", "plain": ""}
	}
	if specEdits != "" {
		t["containerEdits"] = Edits(specEdits, "spec")
	}
	devs := L{}
	for i, k := range devKinds {
		d := M{"name": fmt.Sprintf("dev%d", i), "containerEdits": Edits(k, fmt.Sprintf("d%d", i))}
		if devAnn && i == len(devKinds)/2 {
			d["annotations"] = M{"example.com/dev-note": "x"}
		}
		devs = append(devs, d)
	}
	t["devices"] = devs
	if exactVersion {
		t["cdiVersion"] = MinVersion(t)
	} else {
		t["cdiVersion"] = "1.0.0"
	}
	name := fmt.Sprintf("ann=%v,specEdits=%s,devs=%s,devAnn=%v,kind=%s,exact=%v", specAnn, specEdits, strings.Join(devKinds, "+"), devAnn, kind, exactVersion)
	return Base{Name: name, Tree: t}
}

// Bases enumerates the well-formed base documents. level 0: ~400 (quick); level 1: several thousand.
func Bases(level int) []Base {
	var out []Base
	specEditsOpts := []string{"", "env", "all"}
	for _, sa := range []bool{false, true} {
		for _, se := range specEditsOpts {
			for _, k := range EditKinds {
				for _, da := range []bool{false, true} {
					out = append(out, MakeBase(sa, se, []string{k}, da, "vendor.com/class", true))
				}
			}
		}
	}
	// two devices: every kind first or last
	for _, se := range specEditsOpts {
		for _, k := range EditKinds {
			out = append(out, MakeBase(false, se, []string{k, "env"}, false, "vendor.com/class", false))
			out = append(out, MakeBase(true, se, []string{"env", k}, true, "vendor.com/class", true))
		}
	}
	// three devices: every kind in the middle; everything everywhere
	for _, k := range EditKinds {
		out = append(out, MakeBase(false, "", []string{"env", k, "env"}, false, "vendor.com/class", true))
		out = append(out, MakeBase(true, "all", []string{"all", k, "all"}, true, "vendor.com/class", false))
	}
	// kinds: one-letter vendor/class, dotted class, punctuation
	for _, kind := range []string{"v/c", "v.com/c", "v/class", "vendor.com/cl.ass", "vendor-x_y.com/class_a-b", "Vendor.COM/Class9"} {
		out = append(out, MakeBase(false, "", []string{"env"}, false, kind, true))
		out = append(out, MakeBase(true, "all", []string{"all", "dnMin"}, true, kind, false))
	}
	if level >= 1 {
		for _, se := range specEditsOpts {
			for _, k1 := range EditKinds {
				for _, k2 := range EditKinds {
					out = append(out, MakeBase(se == "env", se, []string{k1, k2}, k1 < k2, "vendor.com/class", k1 > k2))
				}
			}
		}
		for _, k1 := range EditKinds {
			for _, k2 := range EditKinds {
				for _, k3 := range []string{"env", "dnFull", "mountFull", "rdt", "all"} {
					out = append(out, MakeBase(false, "", []string{k1, k2, k3}, true, "vendor.com/class", true))
				}
			}
		}
	}
	return out
}

// Clone deep-copies a tree.
func Clone(v any) any {
	switch x := v.(type) {
	case M:
		c := make(M, len(x))
		for k, e := range x {
			c[k] = Clone(e)
		}
		return c
	case L:
		c := make(L, len(x))
		for i, e := range x {
			c[i] = Clone(e)
		}
		return c
	}
	return v
}

// RenderJSON / RenderYAML encode a tree.
func RenderJSON(t any) []byte {
	b, err := json.Marshal(t)
	if err != nil {
		panic(err)
	}
	return b
}

// RenderJSONASCII renders JSON in which every character outside printable ASCII is written as
// \uXXXX (surrogate pairs above the BMP): bytes every JSON and every YAML reader accepts,
// whatever the strings contain.
func RenderJSONASCII(t any) []byte {
	src := RenderJSON(t)
	out := make([]byte, 0, len(src)+16)
	for _, r := range string(src) {
		switch {
		case r < 0x7f:
			out = append(out, byte(r))
		case r < 0x10000:
			out = append(out, fmt.Sprintf("\\u%04x", r)...)
		default:
			r -= 0x10000
			out = append(out, fmt.Sprintf("\\u%04x\\u%04x", 0xd800+(r>>10), 0xdc00+(r&0x3ff))...)
		}
	}
	return out
}

func RenderYAML(t any) []byte {
	b, err := yaml3.Marshal(t)
	if err != nil {
		panic(err)
	}
	return b
}

// RenderYAMLQuotedKeys is RenderYAML with every mapping key written as a double-quoted scalar (what a
// quote-everything emitter produces): block style, the first byte of the document is a quote.
func RenderYAMLQuotedKeys(t any) []byte {
	var n yaml3.Node
	if err := n.Encode(t); err != nil {
		panic(err)
	}
	var walk func(x *yaml3.Node)
	walk = func(x *yaml3.Node) {
		if x.Kind == yaml3.MappingNode {
			for i := 0; i+1 < len(x.Content); i += 2 {
				x.Content[i].Style = yaml3.DoubleQuotedStyle
			}
		}
		for _, c := range x.Content {
			walk(c)
		}
	}
	walk(&n)
	b, err := yaml3.Marshal(&n)
	if err != nil {
		panic(err)
	}
	return b
}

// Path addresses a node: string = map key, int = list index.
type Path []any

func (p Path) String() string {
	var b strings.Builder
	for _, e := range p {
		switch x := e.(type) {
		case string:
			b.WriteString("." + x)
		case int:
			fmt.Fprintf(&b, "[%d]", x)
		}
	}
	return b.String()
}

func (p Path) With(e ...any) Path {
	return append(append(Path{}, p...), e...)
}

// Get returns the node at p (nil,false when absent).
func Get(t any, p Path) (any, bool) {
	cur := t
	for _, e := range p {
		switch k := e.(type) {
		case string:
			m, ok := cur.(M)
			if !ok {
				return nil, false
			}
			cur, ok = m[k]
			if !ok {
				return nil, false
			}
		case int:
			l, ok := cur.(L)
			if !ok || k >= len(l) {
				return nil, false
			}
			cur = l[k]
		}
	}
	return cur, true
}

// Mutation is one deviation from a base.
type Mutation struct {
	Class  string `json:"class"`  // defect class (signature material)
	Path   Path   `json:"-"`      // where
	Where  string `json:"where"`  // printable path
	Op     string `json:"op"`     // set | del
	Value  any    `json:"value"`  // for set
	Expect string `json:"expect"` // invalid | valid | unspecified  (what the generator intends; the reference validator decides)
}

// Apply returns a mutated deep copy of t.
func Apply(t M, ms ...Mutation) M {
	c := Clone(t).(M)
	for _, m := range ms {
		applyOne(c, m)
	}
	return c
}

func applyOne(root M, m Mutation) {
	if len(m.Path) == 0 {
		panic("empty path")
	}
	// create missing intermediate objects (e.g. an absent spec-level containerEdits)
	var cur any = root
	for i := 0; i < len(m.Path)-1; i++ {
		if k, ok := m.Path[i].(string); ok {
			if cm, ok := cur.(M); ok {
				if _, present := cm[k]; !present && m.Op == "set" {
					cm[k] = M{}
				}
			}
		}
		cur, _ = Get(cur, Path{m.Path[i]})
	}
	parent, _ := Get(root, m.Path[:len(m.Path)-1])
	last := m.Path[len(m.Path)-1]
	switch k := last.(type) {
	case string:
		pm, ok := parent.(M)
		if !ok {
			return
		}
		if m.Op == "del" {
			delete(pm, k)
		} else {
			pm[k] = Clone(m.Value)
		}
	case int:
		pl, ok := parent.(L)
		if !ok || k >= len(pl) {
			return
		}
		pl[k] = Clone(m.Value)
	}
}

// RaiseVersion sets cdiVersion to the tree's minimum version when the declared one is a
// released version below it, so that a mutation which adds a gated feature stays a
// single-defect document. Not applied when a mutation targets cdiVersion itself.
func RaiseVersion(t M, ms []Mutation) {
	for _, m := range ms {
		if len(m.Path) == 1 && m.Path[0] == "cdiVersion" {
			return
		}
	}
	cur, ok := t["cdiVersion"].(string)
	if !ok {
		return
	}
	min := MinVersion(t)
	order := map[string]int{"0.3.0": 3, "0.4.0": 4, "0.5.0": 5, "0.6.0": 6, "0.7.0": 7, "0.8.0": 8, "1.0.0": 10}
	if c, ok := order[cur]; ok && c < order[min] {
		t["cdiVersion"] = min
	}
}

// SortedKeys of a map node.
func SortedKeys(m M) []string {
	ks := make([]string, 0, len(m))
	for k := range m {
		ks = append(ks, k)
	}
	sort.Strings(ks)
	return ks
}
