package gen

import (
	"os"

	oci "github.com/opencontainers/runtime-spec/specs-go"
)

type NamedOCI struct {
	Name string
	Make func() *oci.Spec
}

func u32(v uint32) *uint32 { return &v }
func i64(v int64) *int64   { return &v }
func fm(v os.FileMode) *os.FileMode {
	return &v
}

// OCIShapes: initial OCI specs with nil / empty / populated sections.
func OCIShapes() []NamedOCI {
	return []NamedOCI{
		{"empty", func() *oci.Spec { return &oci.Spec{} }},
		{"version-only", func() *oci.Spec { return &oci.Spec{Version: "1.1.0", Hostname: "h"} }},
		{"process-nonroot", func() *oci.Spec {
			return &oci.Spec{Version: "1.1.0", Process: &oci.Process{Env: []string{"PATH=/bin", "VAR_d0=old", "OTHER=keep"}, User: oci.User{UID: 1000, GID: 2000}, Cwd: "/"}}
		}},
		{"process-root-linux-empty", func() *oci.Spec {
			return &oci.Spec{Process: &oci.Process{User: oci.User{UID: 0, GID: 0}}, Linux: &oci.Linux{}, Hooks: &oci.Hooks{}}
		}},
		{"linux-resources-no-devices", func() *oci.Spec {
			return &oci.Spec{Linux: &oci.Linux{Resources: &oci.LinuxResources{}}}
		}},
		{"populated", func() *oci.Spec {
			return &oci.Spec{
				Version:  "1.1.0",
				Hostname: "host",
				Root:     &oci.Root{Path: "rootfs", Readonly: true},
				Process: &oci.Process{Env: []string{"PATH=/bin", "VAR_spec=old", "EMPTY="}, Args: []string{"sh"}, Cwd: "/",
					User: oci.User{UID: 1000, GID: 0, AdditionalGids: []uint32{5, 7}}},
				Mounts: []oci.Mount{
					{Destination: "/ctr/d0/sub/deep", Source: "/x", Type: "bind"},
					{Destination: "/proc", Type: "proc", Source: "proc"},
					{Destination: "/ctr/d0", Source: "/old", Options: []string{"rw"}},
					{Destination: "/a//b/", Source: "/y"},
				},
				Hooks:       &oci.Hooks{Prestart: []oci.Hook{{Path: "/old/prestart"}}, CreateRuntime: []oci.Hook{{Path: "/old/cr"}}, Poststop: []oci.Hook{{Path: "/old/ps"}}},
				Annotations: map[string]string{"a": "b"},
				Linux: &oci.Linux{
					Devices:    []oci.LinuxDevice{{Path: "/dev/d0", Type: "c", Major: 1, Minor: 3}, {Path: "/dev/keep", Type: "b", Major: 8, Minor: 0, FileMode: fm(0o600), UID: u32(1), GID: u32(2)}},
					Resources:  &oci.LinuxResources{Devices: []oci.LinuxDeviceCgroup{{Allow: false, Access: "rwm"}, {Allow: true, Type: "c", Major: i64(1), Minor: i64(3), Access: "rw"}}},
					IntelRdt:   &oci.LinuxIntelRdt{ClosID: "oldclos", L3CacheSchema: "old"},
					Namespaces: []oci.LinuxNamespace{{Type: "pid"}},
				},
			}
		}},
	}
}

// OddOCIShapes: OCI specs a runtime could hand over that are legal Go values but unusual:
// environment entries without '=', empty paths, nil optional members. Only used where the
// oracle is "does not crash" (C08); the semantic checks take well-formed specs.
func OddOCIShapes() []NamedOCI {
	return []NamedOCI{
		{"odd-env", func() *oci.Spec {
			return &oci.Spec{Process: &oci.Process{Env: []string{"TERM", "", "=novalue", "A=b", "A=c", "B"}}}
		}},
		{"odd-paths", func() *oci.Spec {
			return &oci.Spec{
				Process: &oci.Process{Env: []string{"VAR_spec"}, User: oci.User{UID: 4294967295, GID: 4294967295, AdditionalGids: []uint32{0, 0, 4294967295}}},
				Mounts: []oci.Mount{{Destination: ""}, {Destination: "relative/path"}, {Destination: "/"}, {Destination: "//"}, {Destination: "/ctr/d0"}, {Destination: "/ctr/d0"},
					// other spellings of destinations the generated Specs mount to
					{Destination: "/ctr/d0/"}, {Destination: "//ctr/spec"}, {Destination: "/ctr/./d1"}, {Destination: "/ctr2/d0/."}, {Destination: "/ctr/x/../spec"}, {Destination: "/ctr/all/"}, {Destination: "/ctr/env/"}},
				Hooks: &oci.Hooks{Prestart: []oci.Hook{{}}, Poststop: nil},
				Linux: &oci.Linux{
					Devices:   []oci.LinuxDevice{{Path: ""}, {Path: "/dev/d0"}, {Path: "/dev/d0"}, {Path: "/dev/d0/"}, {Path: "//dev/spec"}, {Path: "/dev/./d00"}},
					Resources: &oci.LinuxResources{Devices: []oci.LinuxDeviceCgroup{{Allow: true}, {Allow: false, Type: "a"}}},
					IntelRdt:  &oci.LinuxIntelRdt{},
				},
			}
		}},
		// device cgroup rules as runtimes write them: wildcards (nil major and / or minor) for the very
		// types, majors and access strings the generated device nodes use, before and after a deny-all
		{"odd-cgroup-rules", func() *oci.Spec {
			p := func(v int64) *int64 { return &v }
			var rules []oci.LinuxDeviceCgroup
			for _, ty := range []string{"c", "b", "a", ""} {
				for _, acc := range []string{"rwm", "rw", "r", "m", ""} {
					for _, maj := range []*int64{nil, p(10), p(1), p(7), p(136)} {
						rules = append(rules, oci.LinuxDeviceCgroup{Allow: true, Type: ty, Major: maj, Minor: nil, Access: acc})
						if maj == nil {
							rules = append(rules, oci.LinuxDeviceCgroup{Allow: true, Type: ty, Major: nil, Minor: p(200), Access: acc})
						}
					}
				}
			}
			rules = append(rules, oci.LinuxDeviceCgroup{Allow: false, Access: "rwm"})
			return &oci.Spec{Process: &oci.Process{Env: []string{"PATH=/bin"}}, Linux: &oci.Linux{Resources: &oci.LinuxResources{Devices: rules}}}
		}},
	}
}
