package gen

import (
	"fmt"
	"os"
	"path/filepath"

	"golang.org/x/sys/unix"
)

// HostNodes creates real device nodes in dir for injection checks:
// char (c 1:3), char2 (c 10:200), block (b 7:0), fifo (p), file (regular), missing (absent).
type HostNodes struct {
	Dir string
}

func MakeHostNodes(dir string) (*HostNodes, error) {
	if err := os.MkdirAll(dir, 0o755); err != nil {
		return nil, err
	}
	mk := func(name string, mode uint32, major, minor uint32) error {
		p := filepath.Join(dir, name)
		_ = os.Remove(p)
		return unix.Mknod(p, mode, int(unix.Mkdev(major, minor)))
	}
	if err := mk("char", unix.S_IFCHR|0o600, 1, 3); err != nil {
		return nil, fmt.Errorf("mknod char: %w", err)
	}
	if err := mk("char2", unix.S_IFCHR|0o600, 10, 200); err != nil {
		return nil, err
	}
	if err := mk("block", unix.S_IFBLK|0o600, 7, 0); err != nil {
		return nil, err
	}
	if err := mk("fifo", unix.S_IFIFO|0o600, 0, 0); err != nil {
		return nil, err
	}
	if err := os.WriteFile(filepath.Join(dir, "file"), []byte("x"), 0o644); err != nil {
		return nil, err
	}
	return &HostNodes{Dir: dir}, nil
}

func (h *HostNodes) Path(name string) string { return filepath.Join(h.Dir, name) }

// Replace re-creates a node with another type/number (C14: host changes between injections).
func (h *HostNodes) Replace(name, typ string, major, minor uint32) error {
	p := filepath.Join(h.Dir, name)
	_ = os.Remove(p)
	mode := uint32(0o600)
	switch typ {
	case "c":
		mode |= unix.S_IFCHR
	case "b":
		mode |= unix.S_IFBLK
	case "p":
		mode |= unix.S_IFIFO
	}
	return unix.Mknod(p, mode, int(unix.Mkdev(major, minor)))
}

// Stat is the harness' own view of a host node (independent of the code under test).
func Stat(path string) (typ string, major, minor int64, err error) {
	var st unix.Stat_t
	if err = unix.Lstat(path, &st); err != nil {
		return "", 0, 0, err
	}
	switch st.Mode & unix.S_IFMT {
	case unix.S_IFBLK:
		typ = "b"
	case unix.S_IFCHR:
		typ = "c"
	case unix.S_IFIFO:
		typ = "p"
	default:
		return "", 0, 0, fmt.Errorf("not a device node")
	}
	return typ, int64(unix.Major(uint64(st.Rdev))), int64(unix.Minor(uint64(st.Rdev))), nil
}
