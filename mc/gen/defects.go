package gen

import (
	"fmt"
	"strings"

	"verif/mc/refmodel"
)

func posLabel(i, n int) string {
	switch {
	case n == 1:
		return "only"
	case i == 0:
		return "first"
	case i == n-1:
		return "last"
	}
	return "middle"
}

// firstLast returns the indices to mutate in a list of length n: first and last.
func firstLast(n int) []int {
	if n == 0 {
		return nil
	}
	if n == 1 {
		return []int{0}
	}
	return []int{0, n - 1}
}

var prevVersion = map[string]string{"0.4.0": "0.3.0", "0.5.0": "0.4.0", "0.6.0": "0.5.0", "0.7.0": "0.6.0"}

// Defects enumerates every single deviation of the statement's defect kinds from base t, at
// every position (spec level, each device, first/last list element).
func Defects(t M) []Mutation {
	var out []Mutation
	add := func(class string, p Path, op string, v any, expect string) {
		out = append(out, Mutation{Class: class, Path: p, Where: p.String(), Op: op, Value: v, Expect: expect})
	}
	inv, val, uns := refmodel.Invalid, refmodel.Valid, refmodel.Unspecified
	_ = uns

	// --- spec level scalars
	add("version-missing", Path{"cdiVersion"}, "del", nil, inv)
	for _, v := range []string{"0.9.0", "2.0.0", "junk", "", "0.0.1", "1.0", "1.0.1"} {
		add("version-unreleased", Path{"cdiVersion"}, "set", v, inv)
	}
	min := MinVersion(t)
	if pv, ok := prevVersion[min]; ok {
		add("version-too-old", Path{"cdiVersion"}, "set", pv, inv)
		add("version-too-old", Path{"cdiVersion"}, "set", "0.3.0", inv)
		// the same, spelled with a leading "v": whether one reads "v0.5.0" as 0.5.0 or as no released
		// version at all, it is not a released version that is new enough
		add("version-too-old-spelled-with-v", Path{"cdiVersion"}, "set", "v"+pv, inv)
		add("version-too-old-spelled-with-v", Path{"cdiVersion"}, "set", "v0.3.0", inv)
	}
	add("version-too-old-spelled-with-v", Path{"cdiVersion"}, "set", "v0.1.0", inv)
	add("version-too-old-spelled-with-v", Path{"cdiVersion"}, "set", "v0.2.0", inv)
	// versions older than anything a Spec can require (the minimum is never below 0.3.0)
	add("version-too-old", Path{"cdiVersion"}, "set", "0.1.0", inv)
	add("version-too-old", Path{"cdiVersion"}, "set", "0.2.0", inv)
	add("version-exact-minimum", Path{"cdiVersion"}, "set", min, val)
	add("kind-missing", Path{"kind"}, "del", nil, inv)
	for _, k := range []string{"vendor", "", "/", "/class", "vendor.com/", "1vendor.com/class", "ven dor/class", "vendor-/class", "vendor.com/1class",
		"vendor.com/cla ss", "vendor.com/class-", "vendor.com/cl/ass", "vendor.com/class=x", "_vendor/class", "vendor/cl:ass", "véndor/class"} {
		add("kind-malformed", Path{"kind"}, "set", k, inv)
	}
	add("devices-missing", Path{"devices"}, "del", nil, inv)
	add("devices-empty", Path{"devices"}, "set", L{}, inv)
	add("devices-null", Path{"devices"}, "set", nil, inv)

	annotationDefects := func(level string, p Path, present bool) {
		for _, k := range []string{"", "a/b/c", "-a", "a-", "a b", "a_b/x", "/x", "x/", strings.Repeat("a", 64), "a..b/x", "example.com/" + strings.Repeat("n", 64), "a=b", "café"} {
			add("annotation-key-malformed@"+level, p, "set", M{k: "v"}, inv)
			if present {
				add("annotation-key-malformed-added@"+level, p.With(k), "set", "v", inv)
			}
		}
		add("annotation-key-valid-edge@"+level, p, "set", M{strings.Repeat("a", 63): "v", "UPPER.example.com/N_a.m-e": "", "a": "v"}, val)
		// several keys of one set that are related: equal up to case, one a prefix of the other, equal name under different prefixes
		add("annotation-keys-related-valid@"+level, p, "set", M{"vendor.com/Mode": "a", "vendor.com/mode": "b", "Vendor.com/mode": "c", "mode": "d", "MODE": "e", "vendor.com/mode.x": "f", "other.org/mode": "g"}, val)
		add("annotations-too-large@"+level, p, "set", M{"big": strings.Repeat("x", 256*1024)}, inv)
		add("annotations-too-large-in-bytes-only@"+level, p, "set", M{"big": strings.Repeat("\u20ac", 90000)}, inv) // 270000 bytes, 90000 characters
		add("annotations-at-size-limit@"+level, p, "set", M{"big": strings.Repeat("x", 256*1024-3)}, val)
		add("annotation-value-not-string@"+level, p, "set", M{"k": L{"x"}}, inv)
		// a malformed key together with a value that is not a string (the schema's key pattern does
		// not see an empty or newline-only key)
		for _, bad := range []M{{"": int64(1)}, {"\n": true}, {"": nil}, {"\n\n": M{"x": "y"}}, {"a b": L{}}, {"": L{"x"}}} {
			add("annotation-key-and-value-malformed@"+level, p, "set", bad, inv)
		}
		add("annotations-empty-object@"+level, p, "set", M{}, val)
	}
	_, hasAnn := t["annotations"]
	annotationDefects("spec", Path{"annotations"}, hasAnn)

	// --- edits blocks
	editsDefects := func(level string, p Path, e M) {
		bad := []string{"FOO", "=bar", "", "=", " "}
		_ = bad
		envDefects := func(cls string, ep Path, l L) {
			for _, i := range firstLast(len(l)) {
				for _, b := range []string{"FOO", "=bar", ""} {
					add(cls+"@"+level+"/"+posLabel(i, len(l)), ep.With(i), "set", b, inv)
				}
				add(cls+"-null@"+level+"/"+posLabel(i, len(l)), ep.With(i), "set", nil, inv)
			}
			if len(l) == 0 {
				add(cls+"@"+level+"/new", ep, "set", L{"FOO"}, inv)
				add(cls+"@"+level+"/new", ep, "set", L{"=x"}, inv)
				add(cls+"@"+level+"/new-after-valid", ep, "set", L{"A=b", "FOO"}, inv)
				add(cls+"-null@"+level+"/new", ep, "set", L{nil}, inv)
			}
		}
		envDefects("env-malformed", p.With("env"), asList(e["env"]))
		// lists are lists: an entry may occur more than once (repeated options, arguments, variables)
		add("list-with-repeated-entries@"+level+"/env", p.With("env"), "set", L{"A=1", "B=2", "A=1", "A=1"}, val)

		dns := asList(e["deviceNodes"])
		for _, i := range firstLast(len(dns)) {
			pl := level + "/" + posLabel(i, len(dns))
			dp := p.With("deviceNodes", i)
			add("devnode-path-empty@"+pl, dp.With("path"), "set", "", inv)
			add("devnode-path-missing@"+pl, dp.With("path"), "del", nil, inv)
			for _, ty := range []string{"x", "B", "bc", "char", " "} {
				add("devnode-type-bad@"+pl, dp.With("type"), "set", ty, inv)
			}
			for _, ty := range []string{"b", "c", "u", "p", ""} {
				add("devnode-type-good@"+pl, dp.With("type"), "set", ty, val)
			}
			for _, pm := range []string{"rwx", "x", "rw m", "RW", "rwmr x"} {
				add("devnode-permissions-bad@"+pl, dp.With("permissions"), "set", pm, inv)
			}
			for _, pm := range []string{"r", "mwr", "rr", "", "rwmr", "mmmmmm", "rwmrwmrwm"} {
				add("devnode-permissions-good@"+pl, dp.With("permissions"), "set", pm, val)
			}
			add("devnode-null-entry@"+pl, dp, "set", nil, inv)
			add("unknown-member@devnode/"+pl, dp.With("bogus"), "set", "x", inv)
		}
		if len(dns) == 0 {
			add("devnode-null-entry@"+level+"/new", p.With("deviceNodes"), "set", L{nil}, inv)
			add("devnode-path-empty@"+level+"/new", p.With("deviceNodes"), "set", L{M{"path": ""}}, inv)
			add("devnode-null-entry@"+level+"/new-after-valid", p.With("deviceNodes"), "set", L{M{"path": "/dev/ok"}, nil}, inv)
		}

		hooks := asList(e["hooks"])
		for _, i := range firstLast(len(hooks)) {
			pl := level + "/" + posLabel(i, len(hooks))
			hp := p.With("hooks", i)
			for _, n := range []string{"preStart", "", "prestart ", "Poststop", "createruntime", "hook"} {
				add("hook-stage-unknown@"+pl, hp.With("hookName"), "set", n, inv)
			}
			add("hook-stage-missing@"+pl, hp.With("hookName"), "del", nil, inv)
			add("hook-path-empty@"+pl, hp.With("path"), "set", "", inv)
			add("hook-path-missing@"+pl, hp.With("path"), "del", nil, inv)
			hm, _ := hooks[i].(M)
			envDefects("hook-env-malformed@hook", hp.With("env"), asList(hm["env"]))
			add("list-with-repeated-entries@"+pl+"/hook-args", hp.With("args"), "set", L{"hook", "--link", "a", "--link", "a"}, val)
			add("list-with-repeated-entries@"+pl+"/hook-env", hp.With("env"), "set", L{"H=1", "H=1"}, val)
			add("hook-null-entry@"+pl, hp, "set", nil, inv)
			add("unknown-member@hook/"+pl, hp.With("bogus"), "set", "x", inv)
		}
		if len(hooks) == 0 {
			add("hook-null-entry@"+level+"/new", p.With("hooks"), "set", L{nil}, inv)
			add("hook-stage-unknown@"+level+"/new", p.With("hooks"), "set", L{M{"hookName": "nope", "path": "/x"}}, inv)
		}

		mounts := asList(e["mounts"])
		for _, i := range firstLast(len(mounts)) {
			pl := level + "/" + posLabel(i, len(mounts))
			mp := p.With("mounts", i)
			add("mount-hostpath-empty@"+pl, mp.With("hostPath"), "set", "", inv)
			add("mount-hostpath-missing@"+pl, mp.With("hostPath"), "del", nil, inv)
			add("mount-containerpath-empty@"+pl, mp.With("containerPath"), "set", "", inv)
			add("mount-containerpath-missing@"+pl, mp.With("containerPath"), "del", nil, inv)
			add("list-with-repeated-entries@"+pl+"/mount-options", mp.With("options"), "set", L{"ro", "bind", "ro"}, val)
			// the same defects next to every common value of the members a validator might key an exception on
			for _, ty := range []string{"tmpfs", "proc", "sysfs", "devpts", "bind", "none", "overlay", "cgroup2", "mqueue"} {
				add("mount-hostpath-empty-with-type:"+ty+"@"+pl, mp, "set", M{"hostPath": "", "containerPath": "/c", "type": ty, "options": L{"ro"}}, inv)
				add("mount-hostpath-missing-with-type:"+ty+"@"+pl, mp, "set", M{"containerPath": "/c", "type": ty}, inv)
				add("mount-containerpath-empty-with-type:"+ty+"@"+pl, mp, "set", M{"hostPath": "/h", "containerPath": "", "type": ty}, inv)
			}
			add("mount-null-entry@"+pl, mp, "set", nil, inv)
			add("unknown-member@mount/"+pl, mp.With("bogus"), "set", "x", inv)
		}
		if len(mounts) == 0 {
			add("mount-null-entry@"+level+"/new", p.With("mounts"), "set", L{nil}, inv)
			add("mount-hostpath-empty@"+level+"/new", p.With("mounts"), "set", L{M{"hostPath": "", "containerPath": "/c"}}, inv)
		}

		for _, id := range []string{".", "..", "a/b", "/", "a\nb", "\n", strings.Repeat("a", 4096), strings.Repeat("a", 5000)} {
			add("rdt-closid-illegal@"+level, p.With("intelRdt"), "set", M{"closID": id}, inv)
		}
		for _, id := range []string{strings.Repeat("a", 4095), "...", "a.b", "a b"} {
			add("rdt-closid-legal-edge@"+level, p.With("intelRdt"), "set", M{"closID": id}, val)
		}
		if _, ok := e["intelRdt"].(M); ok {
			add("unknown-member@rdt/"+level, p.With("intelRdt", "bogus"), "set", "x", inv)
		}
		add("unknown-member@edits/"+level, p.With("bogus"), "set", "x", inv)
	}
	if e, ok := t["containerEdits"].(M); ok {
		editsDefects("spec", Path{"containerEdits"}, e)
	} else {
		editsDefects("spec", Path{"containerEdits"}, M{})
	}

	// --- devices
	devs := asList(t["devices"])
	for i, d := range devs {
		dm, _ := d.(M)
		lvl := "device-" + posLabel(i, len(devs))
		dp := Path{"devices", i}
		for _, n := range []string{"", "-dev", "dev-", "de v", "dev/x", "dev=x", "_d", "dév", ":", "a:"} {
			add("device-name-invalid@"+lvl, dp.With("name"), "set", n, inv)
		}
		add("device-name-missing@"+lvl, dp.With("name"), "del", nil, inv)
		for _, n := range []string{"0", "a", "a:b", "a.b_c-d", "0dev"} {
			// valid names (a leading digit needs 0.5.0: the version is raised by a second mutation in Pairs; here expect from validator)
			add("device-name-valid-edge@"+lvl, dp.With("name"), "set", n, "")
		}
		if len(devs) > 1 {
			other := (i + 1) % len(devs)
			om, _ := devs[other].(M)
			add("device-name-duplicate@"+lvl, dp.With("name"), "set", om["name"], inv)
		}
		add("device-edits-empty@"+lvl, dp.With("containerEdits"), "set", M{}, inv)
		add("device-edits-missing@"+lvl, dp.With("containerEdits"), "del", nil, inv)
		add("device-edits-empty-lists@"+lvl, dp.With("containerEdits"), "set", M{"env": L{}, "deviceNodes": L{}, "hooks": L{}, "mounts": L{}, "additionalGids": L{}}, inv)
		add("device-null-entry@"+lvl, dp, "set", nil, inv)
		add("unknown-member@"+lvl, dp.With("bogus"), "set", "x", inv)
		_, has := dm["annotations"]
		annotationDefects(lvl, dp.With("annotations"), has)
		if e, ok := dm["containerEdits"].(M); ok {
			editsDefects(lvl, dp.With("containerEdits"), e)
		}
	}
	add("unknown-member@spec", Path{"bogus"}, "set", "x", inv)
	add("unknown-member@spec", Path{"version"}, "set", "1.0.0", inv)
	return out
}

// Confusions enumerates, for every member present in t (at every level) and every absent
// optional member, the replacement of its value by each element of a type-confusion domain.
func Confusions(t M) []Mutation {
	var out []Mutation
	domain := []struct {
		name string
		v    any
	}{
		{"null", nil}, {"empty-string", ""}, {"string", "str"}, {"zero", int64(0)}, {"minus-one", int64(-1)}, {"two-pow-32", int64(1) << 32},
		{"two-pow-63", uint64(1) << 63}, {"below-int64", -9223372036854777856.0}, {"float", 1.5}, {"true", true},
		{"empty-list", L{}}, {"list-of-null", L{nil}}, {"list-of-empty-string", L{""}}, {"list-of-list", L{L{}}}, {"list-of-object", L{M{}}},
		{"empty-object", M{}}, {"object-with-null", M{"x": nil}}, {"nested", M{"a": L{M{"b": L{M{"c": nil}}}}}},
	}
	var walk func(node string, p Path, m M)
	walk = func(node string, p Path, m M) {
		for member, typ := range refmodel.Schema[node] {
			mp := p.With(member)
			for _, d := range domain {
				out = append(out, Mutation{Class: fmt.Sprintf("confusion:%s.%s<-%s", node, member, d.name), Path: mp, Where: mp.String(), Op: "set", Value: d.v})
			}
			if _, present := m[member]; present {
				out = append(out, Mutation{Class: fmt.Sprintf("confusion:%s.%s<-absent", node, member), Path: mp, Where: mp.String(), Op: "del"})
			}
			val := m[member]
			switch {
			case strings.HasPrefix(typ, "obj:"):
				if sub, ok := val.(M); ok {
					walk(strings.TrimPrefix(typ, "obj:"), mp, sub)
				}
			case strings.HasPrefix(typ, "list:"):
				elem := strings.TrimPrefix(strings.TrimPrefix(typ, "list:"), "ptr:")
				l, _ := val.(L)
				for _, i := range firstLast(len(l)) {
					ep := mp.With(i)
					for _, d := range domain {
						out = append(out, Mutation{Class: fmt.Sprintf("confusion:%s.%s[]<-%s", node, member, d.name), Path: ep, Where: ep.String(), Op: "set", Value: d.v})
					}
					if strings.HasPrefix(elem, "obj:") {
						if sub, ok := l[i].(M); ok {
							walk(strings.TrimPrefix(elem, "obj:"), ep, sub)
						}
					}
				}
			}
		}
		up := p.With("bogus")
		out = append(out, Mutation{Class: "confusion:" + node + ".<unknown member>", Path: up, Where: up.String(), Op: "set", Value: M{"x": L{nil}}})
	}
	walk("spec", Path{}, t)
	return out
}
