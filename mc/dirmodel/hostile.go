package dirmodel

import (
	"fmt"
	"reflect"
	"sort"

	"tags.cncf.io/container-device-interface/pkg/cdi"
)

// A caller owns the containers (slices, maps) it passes to and gets from the library: it may
// reuse, sort, filter or clear them once the call has returned. The helpers below make every
// driver such a caller. (Objects reached through pointers - *Spec, *Device - stay the cache's.)

// Dirs returns cdi.WithSpecDirs for a private copy of paths, and a function to call once the
// option has been consumed (NewCache / Configure has returned): it overwrites the copy, as a
// caller reusing its slice for something else would.
func Dirs(paths ...string) (cdi.Option, func()) {
	arg := append([]string{}, paths...)
	return cdi.WithSpecDirs(arg...), func() {
		for i := range arg {
			arg[i] = fmt.Sprintf("/nonexistent/reused-by-the-caller-%d", i)
		}
	}
}

func scribbleStrings(s []string) {
	for i := range s {
		s[i] = "overwritten-by-the-caller"
	}
}

// AliasProbe asks every listing twice, overwriting / clearing the first answer (after copying
// it) before asking again; with nothing else going on the second answer must equal the first.
// Returns the first API whose answer follows the caller's modifications ("" if none).
func AliasProbe(c *cdi.Cache) (api, detail string) {
	type probe struct {
		name string
		get  func() any
		kill func(v any)
	}
	probes := []probe{
		{"ListDevices", func() any { return c.ListDevices() }, func(v any) { scribbleStrings(v.([]string)) }},
		{"ListVendors", func() any { return c.ListVendors() }, func(v any) { scribbleStrings(v.([]string)) }},
		{"ListClasses", func() any { return c.ListClasses() }, func(v any) { scribbleStrings(v.([]string)) }},
		{"GetSpecDirectories", func() any { return c.GetSpecDirectories() }, func(v any) { scribbleStrings(v.([]string)) }},
		{"GetErrors", func() any { return c.GetErrors() }, func(v any) {
			m := v.(map[string][]error)
			for k, l := range m {
				for i := range l {
					l[i] = fmt.Errorf("overwritten by the caller")
				}
				delete(m, k)
			}
			m["added-by-the-caller"] = nil
		}},
		{"GetSpecDirErrors", func() any { return c.GetSpecDirErrors() }, func(v any) {
			m := v.(map[string]error)
			for k := range m {
				delete(m, k)
			}
			if m != nil {
				m["added-by-the-caller"] = nil
			}
		}},
	}
	for _, v := range c.ListVendors() {
		v := v
		probes = append(probes, probe{"GetVendorSpecs", func() any { return c.GetVendorSpecs(v) }, func(x any) {
			s := x.([]*cdi.Spec)
			for i := range s {
				s[i] = nil
			}
		}})
	}
	for _, p := range probes {
		first := p.get()
		before := image(first)
		p.kill(first)
		after := image(p.get())
		if before != after {
			return p.name, fmt.Sprintf("%s answered %s; after the caller overwrote / cleared that answer it answers %s", p.name, before, after)
		}
	}
	return "", ""
}

// image renders an answer for comparison (error values by message, Specs by path and identity).
func image(v any) string {
	switch x := v.(type) {
	case []string:
		return fmt.Sprintf("%q", x)
	case map[string][]error:
		var ks []string
		for k, l := range x {
			var ms []string
			for _, e := range l {
				ms = append(ms, fmt.Sprint(e))
			}
			ks = append(ks, fmt.Sprintf("%s:%q", k, ms))
		}
		sort.Strings(ks)
		return fmt.Sprint(ks)
	case map[string]error:
		var ks []string
		for k, e := range x {
			ks = append(ks, fmt.Sprintf("%s:%v", k, e))
		}
		sort.Strings(ks)
		return fmt.Sprint(ks)
	case []*cdi.Spec:
		var ps []string
		for _, s := range x {
			if s == nil {
				ps = append(ps, "<nil>")
			} else {
				ps = append(ps, fmt.Sprintf("%p:%s", s, s.GetPath()))
			}
		}
		return fmt.Sprint(ps)
	}
	return fmt.Sprint(reflect.ValueOf(v))
}
