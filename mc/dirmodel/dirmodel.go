// Package dirmodel describes Spec-directory populations abstractly (which file kind sits in
// which slot of which directory), materialises them on disk, and computes - from the
// abstract description only - what the property statements say a cache must report:
// device resolution by directory precedence, vendor/class/Spec listings, files in error.
package dirmodel

import (
	"bytes"
	"encoding/json"
	"fmt"
	"os"
	"path/filepath"
	"sort"
	"strings"

	yaml3 "gopkg.in/yaml.v3"
)

// Kind of content of one file slot.
type Kind int

const (
	Absent    Kind = iota
	X              // valid: vendor1.com/cls, device x
	XY             // valid: vendor1.com/cls, devices x and y
	Y              // valid: vendor1.com/cls, device y
	V2             // valid: vendor2.org/other, device x
	Syn            // syntactically invalid
	Sem            // parses, semantically invalid (device without edits)
	Empty          // empty file
	Dangling       // symbolic link whose target does not exist
	LnX            // symbolic link to a valid Spec file (device x) kept outside the Spec directories
	SchemaBad      // loads without a Spec validator, refused by the builtin schema (hook timeout -1): only for checks that install the schema
	V3             // valid Spec of a third vendor whose class is the one of X (vendor3.net/cls, device x): a class shared by two vendors
	HardX          // hard link to one valid Spec file (device x) per directory, kept outside the Spec directories: two such slots of a directory are two names of ONE file - and two definitions all the same
	NKinds
)

var KindNames = []string{"absent", "X", "XY", "Y", "V2", "SYN", "SEM", "EMPTY", "DANGLING", "LNX", "SCHEMA-BAD", "V3", "HARDLINK-X"}

func (k Kind) String() string { return KindNames[k] }

const (
	Kind1 = "vendor1.com/cls"
	Kind2 = "vendor2.org/other"
	Kind3 = "vendor3.net/cls"
)

// Devices defined by a kind (qualified names).
func Devices(k Kind) []string {
	switch k {
	case X, LnX, HardX:
		return []string{Kind1 + "=x"}
	case XY:
		return []string{Kind1 + "=x", Kind1 + "=y"}
	case Y:
		return []string{Kind1 + "=y"}
	case V2:
		return []string{Kind2 + "=x"}
	case V3:
		return []string{Kind3 + "=x"}
	}
	return nil
}

func Valid(k Kind) bool { return (k >= X && k <= V2) || k == LnX || k == HardX || k == V3 }

func VendorClass(k Kind) (string, string) {
	switch k {
	case X, XY, Y, LnX, HardX:
		return "vendor1.com", "cls"
	case V2:
		return "vendor2.org", "other"
	case V3:
		return "vendor3.net", "cls"
	}
	return "", ""
}

// Content renders the bytes of a slot. marker identifies the source file inside the edits.
func Content(k Kind, name, marker string) []byte {
	var doc map[string]any
	dev := func(n string) map[string]any {
		// env entries identify the source; the hook and the device node are edits that are not
		// idempotent (injecting a device twice shows in the OCI spec)
		return map[string]any{"name": n, "containerEdits": map[string]any{"env": []any{"SRC=" + marker, "DEV=" + n},
			"hooks":       []any{map[string]any{"hookName": "prestart", "path": "/hook/" + n, "args": []any{"hook", marker}}},
			"deviceNodes": []any{map[string]any{"path": "/dev/" + n, "type": "c", "major": 10, "minor": 7}}}}
	}
	switch k {
	case X:
		doc = map[string]any{"cdiVersion": "0.5.0", "kind": Kind1, "devices": []any{dev("x")}, "containerEdits": map[string]any{"env": []any{"SPECSRC=" + marker}}}
	case XY:
		doc = map[string]any{"cdiVersion": "0.5.0", "kind": Kind1, "devices": []any{dev("x"), dev("y")}, "containerEdits": map[string]any{"env": []any{"SPECSRC=" + marker}}}
	case Y:
		doc = map[string]any{"cdiVersion": "0.5.0", "kind": Kind1, "devices": []any{dev("y")}, "containerEdits": map[string]any{"env": []any{"SPECSRC=" + marker}}}
	case V2:
		doc = map[string]any{"cdiVersion": "0.5.0", "kind": Kind2, "devices": []any{dev("x")}, "containerEdits": map[string]any{"env": []any{"SPECSRC=" + marker}}}
	case V3:
		doc = map[string]any{"cdiVersion": "0.5.0", "kind": Kind3, "devices": []any{dev("x")}, "containerEdits": map[string]any{"env": []any{"SPECSRC=" + marker}}}
	case Syn:
		if strings.HasSuffix(name, ".json") {
			return []byte(`{"cdiVersion": "0.5.0", "kind": "` + Kind1 + `", "devices": [`)
		}
		return []byte("cdiVersion: 0.5.0\nkind: [unclosed\n  devices: {{\n")
	case SchemaBad:
		doc = map[string]any{"cdiVersion": "0.5.0", "kind": "vendor3.com/hk", "devices": []any{map[string]any{"name": "d0", "containerEdits": map[string]any{
			"hooks": []any{map[string]any{"hookName": "prestart", "path": "/hook", "timeout": -1}}}}}}
	case Sem:
		doc = map[string]any{"cdiVersion": "0.5.0", "kind": Kind1, "devices": []any{map[string]any{"name": "x", "containerEdits": map[string]any{}}}}
	case Empty:
		return []byte{}
	default:
		return nil
	}
	if strings.HasSuffix(name, ".json") {
		b, _ := json.Marshal(doc)
		return b
	}
	b, _ := yaml3.Marshal(doc)
	return b
}

// Tree is an abstract population: Files[dir][name] = kind (dir is a short directory name).
type Tree struct {
	Files map[string]map[string]Kind
}

func NewTree() *Tree { return &Tree{Files: map[string]map[string]Kind{}} }

func (t *Tree) Set(dir, name string, k Kind) {
	if t.Files[dir] == nil {
		t.Files[dir] = map[string]Kind{}
	}
	if k == Absent {
		delete(t.Files[dir], name)
		return
	}
	t.Files[dir][name] = k
}

func (t *Tree) Get(dir, name string) Kind { return t.Files[dir][name] }

func (t *Tree) Clone() *Tree {
	c := NewTree()
	for d, fs := range t.Files {
		for n, k := range fs {
			c.Set(d, n, k)
		}
	}
	return c
}

// Key is a canonical form of the population.
func (t *Tree) Key() string {
	var parts []string
	for d, fs := range t.Files {
		for n, k := range fs {
			parts = append(parts, d+"/"+n+"="+k.String())
		}
	}
	sort.Strings(parts)
	return strings.Join(parts, " ")
}

// WriteSlot materialises one slot under root (removing the file for Absent).
func WriteSlot(root, dir, name string, k Kind) error {
	p := filepath.Join(root, dir, name)
	if k == Absent {
		err := os.Remove(p)
		if err != nil && !os.IsNotExist(err) {
			return err
		}
		return nil
	}
	if err := os.MkdirAll(filepath.Join(root, dir), 0o755); err != nil {
		return err
	}
	if fi, err := os.Lstat(p); err == nil && fi.Mode()&os.ModeSymlink != 0 {
		_ = os.Remove(p)
	}
	if k == Dangling {
		_ = os.Remove(p)
		return os.Symlink(filepath.Join(root, "no-such-target"), p)
	}
	if k == LnX {
		_ = os.Remove(p)
		tdir := filepath.Join(root, "linktargets")
		if err := os.MkdirAll(tdir, 0o755); err != nil {
			return err
		}
		target := filepath.Join(tdir, dir+"-"+name)
		if err := os.WriteFile(target, Content(X, name, dir+"/"+name), 0o644); err != nil {
			return err
		}
		return os.Symlink(target, p)
	}
	if k == HardX {
		_ = os.Remove(p)
		tdir := filepath.Join(root, "linktargets")
		if err := os.MkdirAll(tdir, 0o755); err != nil {
			return err
		}
		target := filepath.Join(tdir, dir+"-hardlinked.json")
		if _, err := os.Lstat(target); err != nil {
			if err := os.WriteFile(target, Content(X, "hardlinked.json", dir+"/+hardlinked"), 0o644); err != nil {
				return err
			}
		}
		return os.Link(target, p)
	}
	want := Content(k, name, dir+"/"+name)
	var err error
	for attempt := 0; attempt < 3; attempt++ {
		if fi, e := os.Lstat(p); e == nil && fi.Mode().IsRegular() {
			_ = os.Remove(p) // never write through a name that may be a hard link to a shared file
		}
		if err = os.WriteFile(p, want, 0o644); err != nil {
			continue
		}
		// the model state is a precondition the harness owes the library: read the slot back
		if got, e := os.ReadFile(p); e == nil && bytes.Equal(got, want) {
			return nil
		} else if e != nil {
			err = e
		} else {
			err = fmt.Errorf("slot %s/%s reads back with %d bytes instead of %d", dir, name, len(got), len(want))
		}
	}
	return err
}

// DiskMatches tells whether the regular-file slots of t hold, on disk, the content of their kind
// (the first slot that does not is named). A harness asks this before it blames the library for
// an answer that differs from the model.
func (t *Tree) DiskMatches(root string) (bool, string) {
	for d, fs := range t.Files {
		for n, k := range fs {
			if k == Absent || k == Dangling || k == LnX || k == HardX {
				continue
			}
			got, err := os.ReadFile(filepath.Join(root, d, n))
			if err != nil || !bytes.Equal(got, Content(k, n, d+"/"+n)) {
				return false, fmt.Sprintf("%s/%s (%v, %d bytes on disk)", d, n, err, len(got))
			}
		}
	}
	return true, ""
}

// Materialise writes the whole tree under root (directories are created even if empty when listed in dirs).
func (t *Tree) Materialise(root string, dirs []string) error {
	for _, d := range dirs {
		if err := os.MkdirAll(filepath.Join(root, d), 0o755); err != nil {
			return err
		}
	}
	for d, fs := range t.Files {
		for n, k := range fs {
			if err := WriteSlot(root, d, n, k); err != nil {
				return err
			}
		}
	}
	return nil
}

// IsSpecName: .json / .yaml files are Spec files, everything else is ignored.
func IsSpecName(name string) bool {
	ext := filepath.Ext(name)
	return ext == ".json" || ext == ".yaml"
}

// Resolved is what the statements say a cache built on (dirList, tree) reports.
type ResolvedDevice struct {
	Path     string // absolute, cleaned path of the defining file
	Priority int    // position in the configured directory list
	Marker   string // dir/name marker carried in the device's edits
}

type Resolution struct {
	Devices   map[string]ResolvedDevice
	Vendors   []string
	Classes   []string
	SpecPaths map[string][]string // vendor -> sorted set of file paths
	Invalid   []string            // paths of Spec-named files that must be reported in error
}

// Resolve implements the precedence rule of the C01 statement. dirList holds short directory
// names in configured order (names not present in the tree are missing/empty directories);
// abs maps a short name to the path the cache was configured with (cleaned).
func Resolve(dirList []string, t *Tree, abs func(dir string) string) Resolution {
	r := Resolution{Devices: map[string]ResolvedDevice{}, SpecPaths: map[string][]string{}}
	vendors, classes := map[string]bool{}, map[string]bool{}
	invalid := map[string]bool{}
	type def struct {
		pos          int
		path, marker string
	}
	defs := map[string][]def{}
	for pos, d := range dirList {
		for name, k := range t.Files[d] {
			if !IsSpecName(name) {
				continue
			}
			path := filepath.Join(abs(d), name)
			if !Valid(k) {
				invalid[path] = true
				continue
			}
			v, c := VendorClass(k)
			vendors[v], classes[c] = true, true
			found := false
			for _, p := range r.SpecPaths[v] {
				if p == path {
					found = true
				}
			}
			if !found {
				r.SpecPaths[v] = append(r.SpecPaths[v], path)
			}
			for _, q := range Devices(k) {
				marker := d + "/" + name
				if k == HardX {
					marker = d + "/+hardlinked"
				}
				defs[q] = append(defs[q], def{pos, path, marker})
			}
		}
	}
	for q, ds := range defs {
		top := -1
		for _, d := range ds {
			if d.pos > top {
				top = d.pos
			}
		}
		var at []def
		for _, d := range ds {
			if d.pos == top {
				at = append(at, d)
			}
		}
		if len(at) == 1 {
			r.Devices[q] = ResolvedDevice{Path: at[0].path, Priority: top, Marker: at[0].marker}
		}
	}
	for v := range vendors {
		r.Vendors = append(r.Vendors, v)
	}
	for c := range classes {
		r.Classes = append(r.Classes, c)
	}
	sort.Strings(r.Vendors)
	sort.Strings(r.Classes)
	for v := range r.SpecPaths {
		sort.Strings(r.SpecPaths[v])
	}
	for p := range invalid {
		r.Invalid = append(r.Invalid, p)
	}
	sort.Strings(r.Invalid)
	return r
}

func (r Resolution) DeviceNames() []string {
	var n []string
	for q := range r.Devices {
		n = append(n, q)
	}
	sort.Strings(n)
	return n
}

func (r Resolution) String() string {
	return fmt.Sprintf("devices=%v vendors=%v invalid=%v", r.Devices, r.Vendors, r.Invalid)
}
