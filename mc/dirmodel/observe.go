package dirmodel

import (
	"fmt"
	"reflect"
	"sort"

	"tags.cncf.io/container-device-interface/pkg/cdi"
)

// Observation is what the query API of a cache answers (normalised, sorted).
type Observation struct {
	Devices  []string            `json:"devices"`
	Paths    map[string]string   `json:"device_paths"`
	Prios    map[string]int      `json:"device_priorities"`
	Markers  map[string]string   `json:"device_markers"`
	Vendors  []string            `json:"vendors"`
	Classes  []string            `json:"classes"`
	Specs    map[string][]string `json:"vendor_spec_paths"`
	ErrPaths []string            `json:"error_paths"`
	// ErrTexts: the first error recorded per path, for the failure report only (no comparison uses it)
	ErrTexts map[string]string `json:"error_texts,omitempty"`
}

// Observe queries a cache through its public API only.
func Observe(c *cdi.Cache) Observation {
	o := Observation{Paths: map[string]string{}, Prios: map[string]int{}, Markers: map[string]string{}, Specs: map[string][]string{}}
	// every container the library hands out is copied and then overwritten / cleared, as a caller
	// that sorts, filters or reuses "its" slices and maps would (see hostile.go)
	devs := c.ListDevices()
	o.Devices = append([]string{}, devs...)
	scribbleStrings(devs)
	sort.Strings(o.Devices)
	for _, q := range o.Devices {
		d := c.GetDevice(q)
		if d == nil {
			o.Paths[q] = "<listed but GetDevice returns nil>"
			continue
		}
		o.Paths[q] = d.GetSpec().GetPath()
		o.Prios[q] = d.GetSpec().GetPriority()
		if len(d.ContainerEdits.Env) > 0 {
			o.Markers[q] = d.ContainerEdits.Env[0]
		}
		if d.GetQualifiedName() != q {
			o.Markers[q] += " (qualified name " + d.GetQualifiedName() + ")"
		}
		if sp := d.GetSpec(); sp.GetVendor()+"/"+sp.GetClass()+"="+d.Name != q {
			o.Markers[q] += " (Spec vendor/class " + sp.GetVendor() + "/" + sp.GetClass() + ", device " + d.Name + ")"
		}
	}
	vs, cs := c.ListVendors(), c.ListClasses()
	o.Vendors = append([]string{}, vs...)
	o.Classes = append([]string{}, cs...)
	scribbleStrings(vs)
	scribbleStrings(cs)
	for _, v := range o.Vendors {
		set := map[string]bool{}
		held := c.GetVendorSpecs(v)
		for _, s := range held {
			if s == nil {
				set["<nil entry in GetVendorSpecs>"] = true
				continue
			}
			set[s.GetPath()] = true
		}
		for i := range held {
			held[i] = nil
		}
		var ps []string
		for p := range set {
			ps = append(ps, p)
		}
		sort.Strings(ps)
		o.Specs[v] = ps
	}
	errs := c.GetErrors()
	for p, l := range errs {
		o.ErrPaths = append(o.ErrPaths, p)
		if len(l) > 0 && l[0] != nil {
			if o.ErrTexts == nil {
				o.ErrTexts = map[string]string{}
			}
			t := l[0].Error()
			if len(t) > 300 {
				t = t[:300]
			}
			o.ErrTexts[p] = t
		}
	}
	for p, l := range errs {
		for i := range l {
			l[i] = fmt.Errorf("overwritten by the caller")
		}
		delete(errs, p)
	}
	sort.Strings(o.ErrPaths)
	return o
}

// Check compares an observation with the model. extraProbe lists device names that must not
// resolve (GetDevice == nil is checked by the caller through Probe).
func (o Observation) Check(want Resolution) (ok bool, what, detail string) {
	wantNames := want.DeviceNames()
	if !eqStrings(o.Devices, wantNames) {
		return false, "ListDevices", fmt.Sprintf("listed %v, model %v", o.Devices, wantNames)
	}
	for _, q := range wantNames {
		w := want.Devices[q]
		if o.Paths[q] != w.Path {
			return false, "GetDevice.path", fmt.Sprintf("%s resolves to %s, model %s", q, o.Paths[q], w.Path)
		}
		if o.Prios[q] != w.Priority {
			return false, "GetDevice.priority", fmt.Sprintf("%s has priority %d, model %d", q, o.Prios[q], w.Priority)
		}
		if o.Markers[q] != "SRC="+w.Marker {
			return false, "GetDevice.definition", fmt.Sprintf("%s carries %q, model %q", q, o.Markers[q], "SRC="+w.Marker)
		}
	}
	if !eqStrings(o.Vendors, want.Vendors) {
		return false, "ListVendors", fmt.Sprintf("listed %v, model %v", o.Vendors, want.Vendors)
	}
	if !eqStrings(o.Classes, want.Classes) {
		return false, "ListClasses", fmt.Sprintf("listed %v, model %v", o.Classes, want.Classes)
	}
	for _, v := range want.Vendors {
		if !eqStrings(o.Specs[v], want.SpecPaths[v]) {
			return false, "GetVendorSpecs", fmt.Sprintf("vendor %s: %v, model %v", v, o.Specs[v], want.SpecPaths[v])
		}
	}
	errSet := map[string]bool{}
	for _, p := range o.ErrPaths {
		errSet[p] = true
	}
	for _, p := range want.Invalid {
		if !errSet[p] {
			return false, "GetErrors", fmt.Sprintf("invalid file %s has no error entry (entries: %v)", p, o.ErrPaths)
		}
	}
	return true, "", ""
}

// SameAnswers compares two observations on devices, definitions and listings (not error bookkeeping).
func (o Observation) SameAnswers(p Observation) bool {
	return eqStrings(o.Devices, p.Devices) && reflect.DeepEqual(o.Paths, p.Paths) && reflect.DeepEqual(o.Prios, p.Prios) &&
		reflect.DeepEqual(o.Markers, p.Markers) && eqStrings(o.Vendors, p.Vendors) && eqStrings(o.Classes, p.Classes) && reflect.DeepEqual(o.Specs, p.Specs)
}

func eqStrings(a, b []string) bool {
	if len(a) != len(b) {
		return false
	}
	for i := range a {
		if a[i] != b[i] {
			return false
		}
	}
	return true
}

// KnownDevices are the qualified names the model's Spec kinds can define.
var KnownDevices = []string{Kind1 + "=x", Kind1 + "=y", Kind2 + "=x"}

// GetOnly observes a cache through GetDevice of the given names and nothing else (no listing
// call, no error report, no lookup of a name that may miss): what a runtime that only resolves
// the devices it was asked for sees.
func GetOnly(c *cdi.Cache, names []string) map[string]string {
	o := map[string]string{}
	for _, q := range names {
		d := c.GetDevice(q)
		if d == nil {
			o[q] = "unresolved"
			continue
		}
		m := ""
		if len(d.ContainerEdits.Env) > 0 {
			m = d.ContainerEdits.Env[0]
		}
		o[q] = d.GetSpec().GetPath() + " " + m
	}
	return o
}

// Resolved returns the known names a cache resolves, in a fixed order.
func Resolved(c *cdi.Cache) []string {
	var n []string
	for _, q := range KnownDevices {
		if c.GetDevice(q) != nil {
			n = append(n, q)
		}
	}
	return n
}
