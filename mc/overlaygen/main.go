// overlaygen builds the `go build -overlay` description that instruments /repo's *current*
// pkg/cdi sources for Engine B without touching /repo:
//   - imports of os, path/filepath, sync, time, golang.org/x/sys/unix and github.com/fsnotify/fsnotify
//     are redirected to the shim packages (same local name, so file bodies stay as they are);
//   - `go f(args)` becomes sync.Go(...) with f and args evaluated at the spawn site;
//   - `select` over receive cases and bare channel receives go through scheduler-aware helpers;
//   - export_verif.go (package cdi) is added: read-only dumps of private state;
//   - the shim packages are added as virtual packages under <module>/verifshim/.
// usage: overlaygen <repo> <shimdir> <outdir>   (writes <outdir>/overlay.json)
package main

import (
	"bytes"
	"encoding/json"
	"fmt"
	"go/ast"
	"go/format"
	"go/parser"
	"go/token"
	"go/types"
	"os"
	"path/filepath"
	"strconv"
	"strings"
)

const shimBase = "tags.cncf.io/container-device-interface/verifshim/"

var importMap = map[string][2]string{ // original path -> {shim path, default local name}
	"os":                           {shimBase + "vos", "os"},
	"path/filepath":                {shimBase + "vfilepath", "filepath"},
	"sync":                         {shimBase + "vsync", "sync"},
	"time":                         {shimBase + "vtime", "time"},
	"golang.org/x/sys/unix":        {shimBase + "vunix", "unix"},
	"github.com/fsnotify/fsnotify": {shimBase + "vfsnotify", "fsnotify"},
}

func die(format string, a ...any) {
	fmt.Fprintf(os.Stderr, "INFRA(overlaygen): "+format+"\n", a...)
	os.Exit(2)
}

// mapRanges holds the range statements whose operand is a map (decided by go/types on the
// package with stubbed imports): their iteration order is made deterministic (sorted keys),
// because hash-map iteration order is a source of nondeterminism the explorer must own.
var mapRanges = map[*ast.RangeStmt]bool{}

type stubImporter struct{}

func (stubImporter) Import(path string) (*types.Package, error) {
	name := path
	if i := strings.LastIndex(path, "/"); i >= 0 {
		name = path[i+1:]
	}
	p := types.NewPackage(path, name)
	p.MarkComplete()
	return p, nil
}

func findMapRanges(fset *token.FileSet, files []*ast.File) {
	info := &types.Info{Types: map[ast.Expr]types.TypeAndValue{}}
	conf := types.Config{Importer: stubImporter{}, Error: func(error) {}, DisableUnusedImportCheck: true}
	_, _ = conf.Check("cdi", fset, files, info)
	for _, f := range files {
		ast.Inspect(f, func(n ast.Node) bool {
			if rs, ok := n.(*ast.RangeStmt); ok {
				if tv, ok := info.Types[rs.X]; ok && tv.Type != nil {
					if _, isMap := tv.Type.Underlying().(*types.Map); isMap {
						mapRanges[rs] = true
					}
				}
			}
			return true
		})
	}
}

type rewriter struct {
	fset     *token.FileSet
	file     *ast.File
	syncName string // local name under which vsync is imported ("" = not imported)
	tmp      int
	path     string
}

func (r *rewriter) ensureSync() string {
	if r.syncName != "" {
		return r.syncName
	}
	r.syncName = "verifsync"
	spec := &ast.ImportSpec{Name: ast.NewIdent(r.syncName), Path: &ast.BasicLit{Kind: token.STRING, Value: strconv.Quote(shimBase + "vsync")}}
	decl := &ast.GenDecl{Tok: token.IMPORT, Specs: []ast.Spec{spec}}
	r.file.Decls = append([]ast.Decl{decl}, r.file.Decls...)
	return r.syncName
}

func (r *rewriter) fresh(p string) *ast.Ident {
	r.tmp++
	return ast.NewIdent(fmt.Sprintf("verif_%s%d", p, r.tmp))
}

func sel(pkg, name string) ast.Expr { return &ast.SelectorExpr{X: ast.NewIdent(pkg), Sel: ast.NewIdent(name)} }

// rewriteGo: go f(a, b) => { f0 := f; a0, a1 := a, b; sync.Go("f", func() { f0(a0, a1) }) }
func (r *rewriter) rewriteGo(g *ast.GoStmt) ast.Stmt {
	call := g.Call
	var buf bytes.Buffer
	_ = format.Node(&buf, r.fset, call.Fun)
	name := buf.String()
	if len(name) > 40 {
		name = name[:40]
	}
	block := &ast.BlockStmt{}
	var fun ast.Expr
	if fl, ok := call.Fun.(*ast.FuncLit); ok && len(call.Args) == 0 {
		fun = fl
		name = "func-literal"
		block.List = append(block.List, &ast.ExprStmt{X: &ast.CallExpr{Fun: sel(r.ensureSync(), "Go"), Args: []ast.Expr{&ast.BasicLit{Kind: token.STRING, Value: strconv.Quote(name)}, fun}}})
		return block
	}
	f := r.fresh("f")
	block.List = append(block.List, &ast.AssignStmt{Lhs: []ast.Expr{f}, Tok: token.DEFINE, Rhs: []ast.Expr{call.Fun}})
	var args []ast.Expr
	for _, a := range call.Args {
		v := r.fresh("a")
		block.List = append(block.List, &ast.AssignStmt{Lhs: []ast.Expr{v}, Tok: token.DEFINE, Rhs: []ast.Expr{a}})
		args = append(args, v)
	}
	inner := &ast.CallExpr{Fun: f, Args: args, Ellipsis: call.Ellipsis}
	lit := &ast.FuncLit{Type: &ast.FuncType{Params: &ast.FieldList{}}, Body: &ast.BlockStmt{List: []ast.Stmt{&ast.ExprStmt{X: inner}}}}
	block.List = append(block.List, &ast.ExprStmt{X: &ast.CallExpr{Fun: sel(r.ensureSync(), "Go"), Args: []ast.Expr{&ast.BasicLit{Kind: token.STRING, Value: strconv.Quote(name)}, lit}}})
	return block
}

type recvCase struct {
	ch     ast.Expr
	lhs    []ast.Expr
	define bool
	body   []ast.Stmt
}

func (r *rewriter) rewriteSelect(s *ast.SelectStmt) ast.Stmt {
	var cases []recvCase
	var deflt []ast.Stmt
	hasDefault := false
	for _, c := range s.Body.List {
		cc := c.(*ast.CommClause)
		if cc.Comm == nil {
			hasDefault = true
			deflt = cc.Body
			continue
		}
		rc := recvCase{body: cc.Body}
		switch st := cc.Comm.(type) {
		case *ast.ExprStmt:
			u, ok := st.X.(*ast.UnaryExpr)
			if !ok || u.Op != token.ARROW {
				die("%s: unsupported select case (not a receive)", r.path)
			}
			rc.ch = u.X
		case *ast.AssignStmt:
			if len(st.Rhs) != 1 {
				die("%s: unsupported select case", r.path)
			}
			u, ok := st.Rhs[0].(*ast.UnaryExpr)
			if !ok || u.Op != token.ARROW {
				die("%s: unsupported select case (send or non-receive)", r.path)
			}
			rc.ch, rc.lhs, rc.define = u.X, st.Lhs, st.Tok == token.DEFINE
		default:
			die("%s: unsupported select case (send)", r.path)
		}
		cases = append(cases, rc)
	}
	if len(cases) == 0 || len(cases) > 2 {
		die("%s: select with %d receive cases is not supported by the rewriter", r.path, len(cases))
	}
	syncN := r.ensureSync()
	idx := r.fresh("idx")
	block := &ast.BlockStmt{}
	var vals, oks []*ast.Ident
	var lhs []ast.Expr
	var call *ast.CallExpr
	if len(cases) == 1 {
		v, ok := r.fresh("v"), r.fresh("ok")
		vals, oks = []*ast.Ident{v}, []*ast.Ident{ok}
		if hasDefault {
			die("%s: select with one receive case and default is not supported", r.path)
		}
		lhs = []ast.Expr{v, ok}
		call = &ast.CallExpr{Fun: sel(syncN, "Select1"), Args: []ast.Expr{cases[0].ch}}
		block.List = append(block.List, &ast.AssignStmt{Lhs: lhs, Tok: token.DEFINE, Rhs: []ast.Expr{call}})
		block.List = append(block.List, &ast.AssignStmt{Lhs: []ast.Expr{idx}, Tok: token.DEFINE, Rhs: []ast.Expr{&ast.BasicLit{Kind: token.INT, Value: "0"}}})
	} else {
		v0, ok0, v1, ok1 := r.fresh("v"), r.fresh("ok"), r.fresh("v"), r.fresh("ok")
		vals, oks = []*ast.Ident{v0, v1}, []*ast.Ident{ok0, ok1}
		fn := "Select2"
		if hasDefault {
			fn = "Select2Default"
		}
		call = &ast.CallExpr{Fun: sel(syncN, fn), Args: []ast.Expr{cases[0].ch, cases[1].ch}}
		block.List = append(block.List, &ast.AssignStmt{Lhs: []ast.Expr{idx, v0, ok0, v1, ok1}, Tok: token.DEFINE, Rhs: []ast.Expr{call}})
	}
	// silence "declared and not used"
	var under, all []ast.Expr
	for i := range vals {
		under = append(under, ast.NewIdent("_"), ast.NewIdent("_"))
		all = append(all, vals[i], oks[i])
	}
	block.List = append(block.List, &ast.AssignStmt{Lhs: under, Tok: token.ASSIGN, Rhs: all})
	sw := &ast.SwitchStmt{Tag: idx, Body: &ast.BlockStmt{}}
	for i, c := range cases {
		var body []ast.Stmt
		switch len(c.lhs) {
		case 1:
			tok := token.ASSIGN
			if c.define {
				tok = token.DEFINE
			}
			body = append(body, &ast.AssignStmt{Lhs: c.lhs, Tok: tok, Rhs: []ast.Expr{vals[i]}})
			if c.define {
				body = append(body, &ast.AssignStmt{Lhs: []ast.Expr{ast.NewIdent("_")}, Tok: token.ASSIGN, Rhs: []ast.Expr{c.lhs[0]}})
			}
		case 2:
			tok := token.ASSIGN
			if c.define {
				tok = token.DEFINE
			}
			body = append(body, &ast.AssignStmt{Lhs: c.lhs, Tok: tok, Rhs: []ast.Expr{vals[i], oks[i]}})
		}
		body = append(body, c.body...)
		sw.Body.List = append(sw.Body.List, &ast.CaseClause{List: []ast.Expr{&ast.BasicLit{Kind: token.INT, Value: strconv.Itoa(i)}}, Body: body})
	}
	if hasDefault {
		sw.Body.List = append(sw.Body.List, &ast.CaseClause{Body: deflt})
	}
	block.List = append(block.List, sw)
	return block
}

// rewriteStmts walks statement lists, replacing go / select statements, and rewrites bare receives.
func (r *rewriter) rewriteBlock(list []ast.Stmt) []ast.Stmt {
	for i, s := range list {
		list[i] = r.rewriteStmt(s)
	}
	return list
}

func (r *rewriter) rewriteStmt(s ast.Stmt) ast.Stmt {
	switch st := s.(type) {
	case *ast.GoStmt:
		r.rewriteExprsIn(st.Call)
		return r.rewriteGo(st)
	case *ast.SelectStmt:
		for _, c := range st.Body.List {
			cc := c.(*ast.CommClause)
			cc.Body = r.rewriteBlock(cc.Body)
		}
		return r.rewriteSelect(st)
	case *ast.BlockStmt:
		st.List = r.rewriteBlock(st.List)
	case *ast.IfStmt:
		if st.Init != nil {
			st.Init = r.rewriteStmt(st.Init)
		}
		st.Body.List = r.rewriteBlock(st.Body.List)
		if st.Else != nil {
			st.Else = r.rewriteStmt(st.Else)
		}
	case *ast.ForStmt:
		st.Body.List = r.rewriteBlock(st.Body.List)
	case *ast.RangeStmt:
		st.Body.List = r.rewriteBlock(st.Body.List)
		if mapRanges[st] && st.Key != nil {
			// for k, v := range m {B}  =>  for _, kk := range sync.SortedKeys(m) { k, v := kk, m[kk]; B }
			kk := r.fresh("k")
			var pre []ast.Stmt
			isBlank := func(e ast.Expr) bool { id, ok := e.(*ast.Ident); return ok && id.Name == "_" }
			lhs, rhs := []ast.Expr{}, []ast.Expr{}
			if !isBlank(st.Key) {
				lhs, rhs = append(lhs, st.Key), append(rhs, ast.Expr(kk))
			}
			if st.Value != nil && !isBlank(st.Value) {
				lhs, rhs = append(lhs, st.Value), append(rhs, ast.Expr(&ast.IndexExpr{X: st.X, Index: kk}))
			}
			if len(lhs) > 0 {
				pre = append(pre, &ast.AssignStmt{Lhs: lhs, Tok: st.Tok, Rhs: rhs})
				if st.Tok == token.DEFINE {
					for _, l := range lhs {
						pre = append(pre, &ast.AssignStmt{Lhs: []ast.Expr{ast.NewIdent("_")}, Tok: token.ASSIGN, Rhs: []ast.Expr{l}})
					}
				}
			}
			pre = append(pre, &ast.AssignStmt{Lhs: []ast.Expr{ast.NewIdent("_")}, Tok: token.ASSIGN, Rhs: []ast.Expr{kk}})
			body := &ast.BlockStmt{List: append(pre, st.Body.List...)}
			return &ast.RangeStmt{Key: ast.NewIdent("_"), Value: kk, Tok: token.DEFINE,
				X: &ast.CallExpr{Fun: sel(r.ensureSync(), "SortedKeys"), Args: []ast.Expr{st.X}}, Body: body}
		}
	case *ast.SwitchStmt:
		for _, c := range st.Body.List {
			cc := c.(*ast.CaseClause)
			cc.Body = r.rewriteBlock(cc.Body)
		}
	case *ast.TypeSwitchStmt:
		for _, c := range st.Body.List {
			cc := c.(*ast.CaseClause)
			cc.Body = r.rewriteBlock(cc.Body)
		}
	case *ast.LabeledStmt:
		st.Stmt = r.rewriteStmt(st.Stmt)
	case *ast.AssignStmt:
		// v, ok := <-ch
		if len(st.Lhs) == 2 && len(st.Rhs) == 1 {
			if u, ok := st.Rhs[0].(*ast.UnaryExpr); ok && u.Op == token.ARROW {
				st.Rhs[0] = &ast.CallExpr{Fun: sel(r.ensureSync(), "Recv2"), Args: []ast.Expr{u.X}}
				return st
			}
		}
		r.rewriteExprsIn(st)
	case *ast.ExprStmt, *ast.ReturnStmt, *ast.DeferStmt, *ast.DeclStmt, *ast.SendStmt, *ast.IncDecStmt:
		r.rewriteExprsIn(st)
	}
	return s
}

// rewriteExprsIn replaces `<-ch` expressions and descends into function literals.
func (r *rewriter) rewriteExprsIn(n ast.Node) {
	ast.Inspect(n, func(x ast.Node) bool {
		switch e := x.(type) {
		case *ast.FuncLit:
			e.Body.List = r.rewriteBlock(e.Body.List)
			return false
		case *ast.CallExpr:
			for i, a := range e.Args {
				if u, ok := a.(*ast.UnaryExpr); ok && u.Op == token.ARROW {
					e.Args[i] = &ast.CallExpr{Fun: sel(r.ensureSync(), "Recv"), Args: []ast.Expr{u.X}}
				}
			}
		case *ast.ExprStmt:
			if u, ok := e.X.(*ast.UnaryExpr); ok && u.Op == token.ARROW {
				e.X = &ast.CallExpr{Fun: sel(r.ensureSync(), "Recv"), Args: []ast.Expr{u.X}}
			}
		case *ast.AssignStmt:
			for i, a := range e.Rhs {
				if u, ok := a.(*ast.UnaryExpr); ok && u.Op == token.ARROW && len(e.Lhs) == len(e.Rhs) {
					e.Rhs[i] = &ast.CallExpr{Fun: sel(r.ensureSync(), "Recv"), Args: []ast.Expr{u.X}}
				}
			}
		}
		return true
	})
}

// resetFuncs collects the names of the per-file functions generated by rewriteFile that put
// the unexported package-level variables of a file back to their initial values.
var resetFuncs []string

func rewriteFile(fset *token.FileSet, f *ast.File, path, out string) {
	r := &rewriter{fset: fset, file: f, path: path}
	for _, imp := range f.Imports {
		p, _ := strconv.Unquote(imp.Path.Value)
		if p == "io/ioutil" {
			die("%s imports io/ioutil, which the environment shims do not cover", path)
		}
		if m, ok := importMap[p]; ok {
			local := m[1]
			if imp.Name != nil {
				local = imp.Name.Name
			}
			imp.Path.Value = strconv.Quote(m[0])
			imp.Name = ast.NewIdent(local)
			if p == "sync" {
				r.syncName = local
			}
		}
	}
	for _, d := range f.Decls {
		if fd, ok := d.(*ast.FuncDecl); ok && fd.Body != nil {
			fd.Body.List = r.rewriteBlock(fd.Body.List)
		}
		if gd, ok := d.(*ast.GenDecl); ok {
			r.rewriteExprsIn(gd)
		}
	}
	// comments are dropped from rewritten bodies to keep the printer from misplacing them,
	// except build constraints and the package doc
	var keep []*ast.CommentGroup
	for _, cg := range f.Comments {
		if cg.End() < f.Package {
			keep = append(keep, cg)
		}
	}
	f.Comments = keep
	var buf bytes.Buffer
	if err := format.Node(&buf, fset, f); err != nil {
		die("cannot print rewritten %s: %v", path, err)
	}
	// every unexported package-level variable goes back to its initial value before an execution
	// (its initialiser is evaluated again, or the zero value of its declared type): memo tables,
	// pools and flags must not carry anything from one explored execution into the next
	var stmts []string
	src := func(n ast.Node) string {
		var b bytes.Buffer
		_ = format.Node(&b, fset, n)
		return b.String()
	}
	for _, d := range f.Decls {
		gd, ok := d.(*ast.GenDecl)
		if !ok || gd.Tok != token.VAR {
			continue
		}
		for _, sp := range gd.Specs {
			vs := sp.(*ast.ValueSpec)
			for i, n := range vs.Names {
				if n.Name == "_" || ast.IsExported(n.Name) {
					continue
				}
				switch {
				case len(vs.Values) == len(vs.Names):
					if _, isFunc := vs.Values[i].(*ast.FuncLit); isFunc && vs.Type == nil {
						continue // a function value: nothing to forget
					}
					stmts = append(stmts, fmt.Sprintf("\t%s = %s", n.Name, src(vs.Values[i])))
				case len(vs.Values) == 0 && vs.Type != nil:
					stmts = append(stmts, fmt.Sprintf("\t{\n\t\tvar zero %s\n\t\t%s = zero\n\t}", src(vs.Type), n.Name))
				}
			}
		}
	}
	if len(stmts) > 0 && !strings.HasSuffix(path, "_windows.go") && !strings.HasSuffix(path, "_other.go") && !strings.HasSuffix(path, "_darwin.go") {
		name := fmt.Sprintf("verifResetFile%d", len(resetFuncs))
		resetFuncs = append(resetFuncs, name)
		fmt.Fprintf(&buf, "\nfunc %s() {\n%s\n}\n", name, strings.Join(stmts, "\n"))
	}
	if err := os.WriteFile(out, buf.Bytes(), 0o644); err != nil {
		die("%v", err)
	}
}

const exportFile = `package cdi

import "sort"

// VerifState is a read-only dump of private cache state for Engine B (state keys, resource accounting).
type VerifState struct {
	AutoRefresh bool
	SpecDirs    []string
	Tracked     map[string]bool
	HasWatcher  bool
	DirErrors   []string
	Devices     []string
	SpecErrors  []string
}

func (c *Cache) VerifDump() VerifState {
	s := VerifState{AutoRefresh: c.autoRefresh, SpecDirs: append([]string{}, c.specDirs...), Tracked: map[string]bool{}}
	if c.watch != nil {
		s.HasWatcher = c.watch.watcher != nil
		for k, v := range c.watch.tracked {
			s.Tracked[k] = v
		}
	}
	for k := range c.dirErrors {
		s.DirErrors = append(s.DirErrors, k)
	}
	for k := range c.devices {
		s.Devices = append(s.Devices, k)
	}
	for k := range c.errors {
		s.SpecErrors = append(s.SpecErrors, k)
	}
	sort.Strings(s.DirErrors)
	sort.Strings(s.Devices)
	sort.Strings(s.SpecErrors)
	return s
}

// VerifResetDefaultCache forgets the package-level default cache (fresh start per execution).
func VerifResetDefaultCache() {
	VerifResetGlobals()
}

// VerifResetGlobals puts every package-level synchronisation object and the package-level
// cache/validator back to its zero value: executions of the explorer must not inherit a lock
// that an aborted (e.g. deadlocked) execution left held. The body is generated from the
// package's top-level declarations.
func VerifResetGlobals() {
//RESETS//
}
`

func main() {
	if len(os.Args) != 4 {
		die("usage: overlaygen <repo> <shimdir> <outdir>")
	}
	repo, shim, out := os.Args[1], os.Args[2], os.Args[3]
	_ = os.RemoveAll(out)
	if err := os.MkdirAll(filepath.Join(out, "cdi"), 0o755); err != nil {
		die("%v", err)
	}
	replace := map[string]string{}
	srcDir := filepath.Join(repo, "pkg", "cdi")
	ents, err := os.ReadDir(srcDir)
	if err != nil {
		die("%v", err)
	}
	fset := token.NewFileSet()
	var names []string
	var files, linuxFiles []*ast.File
	for _, e := range ents {
		n := e.Name()
		if e.IsDir() || !strings.HasSuffix(n, ".go") || strings.HasSuffix(n, "_test.go") {
			continue
		}
		f, err := parser.ParseFile(fset, filepath.Join(srcDir, n), nil, parser.ParseComments)
		if err != nil {
			die("cannot parse %s: %v", n, err)
		}
		names = append(names, n)
		files = append(files, f)
		if !strings.HasSuffix(n, "_windows.go") && !strings.HasSuffix(n, "_other.go") && !strings.HasSuffix(n, "_darwin.go") {
			linuxFiles = append(linuxFiles, f)
		}
	}
	findMapRanges(fset, linuxFiles)
	for i, n := range names {
		o := filepath.Join(out, "cdi", n)
		rewriteFile(fset, files[i], filepath.Join(srcDir, n), o)
		replace[filepath.Join(srcDir, n)] = o
	}
	fmt.Printf("overlaygen: %d range-over-map statements made deterministic\n", len(mapRanges))
	// export file: needs the same local name for vsync as default-cache.go uses ("sync")
	exp := strings.Replace(exportFile, `import "sort"`, "import (\n\t\"sort\"\n\tsync \""+shimBase+"vsync\"\n)", 1)
	// package-level variables to reset: sync objects by declared type, pointers/interfaces we know by name
	var resets []string
	for _, f := range linuxFiles {
		syncLocal := ""
		for _, imp := range f.Imports {
			if p, _ := strconv.Unquote(imp.Path.Value); p == shimBase+"vsync" && imp.Name != nil {
				syncLocal = imp.Name.Name
			}
		}
		for _, d := range f.Decls {
			gd, ok := d.(*ast.GenDecl)
			if !ok || gd.Tok != token.VAR {
				continue
			}
			for _, sp := range gd.Specs {
				vs := sp.(*ast.ValueSpec)
				for _, n := range vs.Names {
					if se, ok := vs.Type.(*ast.SelectorExpr); ok && syncLocal != "" {
						if x, ok := se.X.(*ast.Ident); ok && x.Name == syncLocal {
							resets = append(resets, fmt.Sprintf("\t%s = sync.%s{}", n.Name, se.Sel.Name))
						}
					}
					if st, ok := vs.Type.(*ast.StarExpr); ok {
						if id, ok := st.X.(*ast.Ident); ok && id.Name == "Cache" {
							resets = append(resets, fmt.Sprintf("\t%s = nil", n.Name))
						}
					}
					if id, ok := vs.Type.(*ast.Ident); ok && id.Name == "validator" {
						resets = append(resets, fmt.Sprintf("\t%s = nil", n.Name))
					}
				}
			}
		}
	}
	for _, fn := range resetFuncs {
		resets = append(resets, "\t"+fn+"()")
	}
	exp = strings.Replace(exp, "//RESETS//", strings.Join(resets, "\n"), 1)
	expPath := filepath.Join(out, "cdi", "export_verif.go")
	if err := os.WriteFile(expPath, []byte(exp), 0o644); err != nil {
		die("%v", err)
	}
	replace[filepath.Join(srcDir, "export_verif.go")] = expPath
	// virtual shim packages
	pkgs, _ := os.ReadDir(shim)
	for _, p := range pkgs {
		if !p.IsDir() {
			continue
		}
		files, _ := os.ReadDir(filepath.Join(shim, p.Name()))
		for _, f := range files {
			if strings.HasSuffix(f.Name(), ".go") {
				replace[filepath.Join(repo, "verifshim", p.Name(), f.Name())] = filepath.Join(shim, p.Name(), f.Name())
			}
		}
	}
	b, _ := json.MarshalIndent(map[string]any{"Replace": replace}, "", " ")
	if err := os.WriteFile(filepath.Join(out, "overlay.json"), b, 0o644); err != nil {
		die("%v", err)
	}
	fmt.Printf("overlaygen: %d files mapped\n", len(replace))
}
