# Sourced by ./run, setup.sh and every build script: the Go environment of the sealed sandbox, and
# the tree under verification. VERIF_REPO (default /repo) lets a scratch copy of /verif check a
# scratch worktree carrying a seeded change without touching /repo (tools/seedtest.sh).
export GOPROXY=off GOSUMDB=off GOTOOLCHAIN=local
export VERIF_REPO=${VERIF_REPO:-/repo}
_vroot=$(realpath "$(dirname "${BASH_SOURCE[0]}")/..")
if [ "$VERIF_REPO" = /repo ]; then
  export GOFLAGS=-mod=mod
else
  mkdir -p "$_vroot/.altmod"
  sed "s#=> /repo#=> $VERIF_REPO#" "$_vroot/mc/go.mod" > "$_vroot/.altmod/go.mod"
  cp "$_vroot/mc/go.sum" "$_vroot/.altmod/go.sum"
  export GOFLAGS="-mod=mod -modfile=$_vroot/.altmod/go.mod"
fi
