// Package fsops defines the alphabet of directory changes used by the C11/C20 histories and
// executes them through an FS interface, so that the same history can run on the environment
// model (Engine B) and on the real file system with the real fsnotify (conformance, replay).
package fsops

import (
	"strings"
	"bytes"
	"fmt"
	"os"
	"path/filepath"

	"verif/mc/dirmodel"
)

// FS is what a history needs from a file system.
type FS interface {
	WriteFile(path string, data []byte, perm os.FileMode) error
	Rename(oldpath, newpath string) error
	Remove(path string) error
	RemoveAll(path string) error
	Mkdir(path string, perm os.FileMode) error
	Link(oldname, newname string) error
	Symlink(oldname, newname string) error
	CreateEmpty(path string) error
}

// RealFS runs on the real file system.
type RealFS struct{}

func (RealFS) WriteFile(p string, d []byte, m os.FileMode) error { return os.WriteFile(p, d, m) }
func (RealFS) Rename(o, n string) error                          { return os.Rename(o, n) }
func (RealFS) Remove(p string) error                             { return os.Remove(p) }
func (RealFS) RemoveAll(p string) error                          { return os.RemoveAll(p) }
func (RealFS) Mkdir(p string, m os.FileMode) error               { return os.Mkdir(p, m) }
func (RealFS) Link(o, n string) error                            { return os.Link(o, n) }
func (RealFS) Symlink(o, n string) error                         { return os.Symlink(o, n) }
func (RealFS) CreateEmpty(p string) error {
	f, err := os.OpenFile(p, os.O_WRONLY|os.O_CREATE|os.O_EXCL, 0o644)
	if err != nil {
		return err
	}
	return f.Close()
}

// Op is one directory change.
type Op struct {
	Kind    string `json:"op"`             // write | tmp-rename | move-in | rename-away | rename-nonspec | unlink | link-in | symlink-in | create-empty | truncate | mkdir | rmtree
	Dir     string `json:"dir"`            // short directory name (d0, d1, ...)
	Name    string `json:"name,omitempty"` // file name
	Content string `json:"content,omitempty"`
}

func (o Op) String() string {
	s := o.Kind + " " + o.Dir
	if o.Name != "" {
		s += "/" + o.Name
	}
	if o.Content != "" {
		s += "=" + o.Content
	}
	return s
}

// Contents: A, B are valid Specs defining device x with distinguishable edits; Y defines y; INV is invalid.
func Content(c, name, marker string) []byte {
	switch c {
	case "A":
		return dirmodel.Content(dirmodel.X, name, "A:"+marker)
	case "B":
		return dirmodel.Content(dirmodel.XY, name, "B:"+marker)
	case "Y":
		return dirmodel.Content(dirmodel.Y, name, "Y:"+marker)
	case "INV":
		return dirmodel.Content(dirmodel.Syn, name, marker)
	}
	return []byte(c)
}

// Apply performs op under root. outside is a directory (not watched) holding prepared files.
// seq makes prepared / temporary names unique. Returns an error when the op is not applicable
// (its precondition does not hold); such histories are not part of the explored space.
func Apply(fs FS, root string, o Op, seq int) error {
	dir := filepath.Join(root, o.Dir)
	path := filepath.Join(dir, o.Name)
	outside := filepath.Join(root, "outside")
	marker := o.Dir + "/" + o.Name
	exists := func(p string) bool { _, err := os.Lstat(p); return err == nil }
	switch o.Kind {
	case "write":
		if !exists(dir) {
			return fmt.Errorf("no directory")
		}
		if fi, err := os.Lstat(path); err == nil && fi.Mode()&os.ModeSymlink != 0 {
			// writing through a symbolic link changes a file outside the Spec directory: the
			// directory itself does not change and the kernel reports nothing for it
			return fmt.Errorf("not applicable")
		}
		return fs.WriteFile(path, Content(o.Content, o.Name, marker), 0o644)
	case "tmp-rename":
		if !exists(dir) {
			return fmt.Errorf("no directory")
		}
		tmp := filepath.Join(dir, fmt.Sprintf(".tmp%d", seq))
		if err := fs.WriteFile(tmp, Content(o.Content, o.Name, marker), 0o644); err != nil {
			return err
		}
		return fs.Rename(tmp, path)
	case "move-in", "link-in", "symlink-in":
		if !exists(dir) || exists(path) {
			return fmt.Errorf("not applicable")
		}
		src := filepath.Join(outside, fmt.Sprintf("prepared%d-%s", seq, o.Name))
		// preparing the source happens outside the watched directories (plain os calls: no events)
		if err := os.WriteFile(src, Content(o.Content, o.Name, marker), 0o644); err != nil {
			return err
		}
		switch o.Kind {
		case "move-in":
			return fs.Rename(src, path)
		case "link-in":
			return fs.Link(src, path)
		default:
			return fs.Symlink(src, path)
		}
	case "move-over-preserving":
		// the file is replaced (rename over it) by one of the same size carrying the same modification
		// time, with other content: what rsync -t, cp -p or an unpacked archive produce
		fi, err := os.Lstat(path)
		if err != nil || !fi.Mode().IsRegular() {
			return fmt.Errorf("not applicable")
		}
		old, err := os.ReadFile(path)
		if err != nil {
			return fmt.Errorf("not applicable")
		}
		var neu []byte
		for _, c := range []string{"A", "B", "Y"} {
			if bytes.Contains(old, []byte(c+":"+marker)) {
				// every occurrence: the marker sits in the Spec-level edits and in each device's
				neu = bytes.ReplaceAll(old, []byte(c+":"+marker), []byte(strings.ToLower(c)+":"+marker))
			}
		}
		if neu == nil {
			return fmt.Errorf("not applicable")
		}
		src := filepath.Join(outside, fmt.Sprintf("preserved%d-%s", seq, o.Name))
		if err := os.WriteFile(src, neu, 0o644); err != nil {
			return err
		}
		if err := os.Chtimes(src, fi.ModTime(), fi.ModTime()); err != nil {
			return err
		}
		return fs.Rename(src, path)
	case "rename-away":
		if !exists(path) {
			return fmt.Errorf("not applicable")
		}
		return fs.Rename(path, filepath.Join(outside, fmt.Sprintf("away%d", seq)))
	case "rename-nonspec":
		if !exists(path) {
			return fmt.Errorf("not applicable")
		}
		return fs.Rename(path, path+".bak")
	case "unlink":
		if !exists(path) {
			return fmt.Errorf("not applicable")
		}
		return fs.Remove(path)
	case "truncate":
		// an existing file rewritten in place with no content (": > x.yaml"): the truncation is all
		// the kernel reports, no data follows
		if fi, err := os.Lstat(path); err != nil || !fi.Mode().IsRegular() || fi.Size() == 0 {
			return fmt.Errorf("not applicable")
		}
		return fs.WriteFile(path, nil, 0o644)
	case "create-empty":
		if !exists(dir) || exists(path) {
			return fmt.Errorf("not applicable")
		}
		return fs.CreateEmpty(path)
	case "mkdir":
		if exists(dir) {
			return fmt.Errorf("not applicable")
		}
		return fs.Mkdir(dir, 0o755)
	case "rmtree":
		if !exists(dir) {
			return fmt.Errorf("not applicable")
		}
		return fs.RemoveAll(dir)
	case "recreate":
		// the Spec directory is removed with whatever it holds and created again, empty, right away
		// (what a package re-installation does): one operation, no pause in between
		if !exists(dir) {
			return fmt.Errorf("not applicable")
		}
		if err := fs.RemoveAll(dir); err != nil {
			return err
		}
		return fs.Mkdir(dir, 0o755)
	case "mvdir-away":
		// the Spec directory itself is renamed away (with whatever it contains)
		if !exists(dir) {
			return fmt.Errorf("not applicable")
		}
		return fs.Rename(dir, filepath.Join(outside, fmt.Sprintf("diraway%d", seq)))
	case "mvdir-away-deleted":
		// the Spec directory is renamed away and the moved directory is deleted at once (the usual
		// way to replace a directory: move the old one aside, delete it)
		if !exists(dir) {
			return fmt.Errorf("not applicable")
		}
		moved := filepath.Join(outside, fmt.Sprintf("dirgone%d", seq))
		if err := fs.Rename(dir, moved); err != nil {
			return err
		}
		return fs.RemoveAll(moved)
	case "mvdir-onto":
		// one Spec directory is renamed to the name of another one that does not exist at the moment
		// (o.Content holds that name): what was watched as the first is, from now on, the second
		dst := filepath.Join(root, o.Content)
		if !exists(dir) || exists(dst) {
			return fmt.Errorf("not applicable")
		}
		return fs.Rename(dir, dst)
	case "mvdir-in":
		// a directory prepared elsewhere (holding one Spec file) is renamed to the Spec directory's name
		if exists(dir) {
			return fmt.Errorf("not applicable")
		}
		src := filepath.Join(outside, fmt.Sprintf("dirprep%d", seq))
		if err := os.MkdirAll(src, 0o755); err != nil {
			return err
		}
		if err := os.WriteFile(filepath.Join(src, o.Name), Content(o.Content, o.Name, marker), 0o644); err != nil {
			return err
		}
		return fs.Rename(src, dir)
	}
	return fmt.Errorf("unknown op %s", o.Kind)
}

// Alphabet returns the operations over the given directories.
func Alphabet(dirs []string, optionalDirs []string) []Op {
	var ops []Op
	for _, d := range dirs {
		for _, c := range []string{"A", "B", "INV"} {
			ops = append(ops, Op{Kind: "write", Dir: d, Name: "x.yaml", Content: c})
		}
		ops = append(ops, Op{Kind: "write", Dir: d, Name: "n.txt", Content: "A"})
		ops = append(ops, Op{Kind: "write", Dir: d, Name: "z.yml", Content: "Y"}) // a near-miss of a Spec extension: no Spec file for anybody
		ops = append(ops, Op{Kind: "tmp-rename", Dir: d, Name: "x.yaml", Content: "B"})
		ops = append(ops, Op{Kind: "move-in", Dir: d, Name: "x.yaml", Content: "A"})
		ops = append(ops, Op{Kind: "move-in", Dir: d, Name: "y.json", Content: "Y"})
		ops = append(ops, Op{Kind: "rename-away", Dir: d, Name: "x.yaml"})
		ops = append(ops, Op{Kind: "rename-nonspec", Dir: d, Name: "x.yaml"})
		ops = append(ops, Op{Kind: "unlink", Dir: d, Name: "x.yaml"})
		ops = append(ops, Op{Kind: "link-in", Dir: d, Name: "x.yaml", Content: "A"})
		ops = append(ops, Op{Kind: "symlink-in", Dir: d, Name: "x.yaml", Content: "B"})
		ops = append(ops, Op{Kind: "create-empty", Dir: d, Name: "x.yaml"})
		ops = append(ops, Op{Kind: "truncate", Dir: d, Name: "x.yaml"})
		ops = append(ops, Op{Kind: "move-over-preserving", Dir: d, Name: "x.yaml"})
	}
	for _, d := range optionalDirs {
		ops = append(ops, Op{Kind: "mkdir", Dir: d}, Op{Kind: "rmtree", Dir: d})
		ops = append(ops, Op{Kind: "mvdir-away", Dir: d}, Op{Kind: "mvdir-in", Dir: d, Name: "x.yaml", Content: "A"})
		ops = append(ops, Op{Kind: "recreate", Dir: d}, Op{Kind: "mvdir-away-deleted", Dir: d})
		// "mvdir-onto" (one Spec directory renamed to the name of another, missing one) is implemented in
		// Apply but not part of the alphabet: inotify watch descriptors follow the inode and fsnotify keeps
		// one entry per NAME, so two names can share one descriptor afterwards - the environment model
		// keys watches by path and does not represent that (DESIGN 8.5, sixteenth wave, C11)
	}
	return ops
}

// Steps splits an operation into the steps an event-stream conformance run separates by a
// barrier (recreate = rmtree, then mkdir); every other operation is one step.
func Steps(o Op) []Op {
	if o.Kind == "recreate" {
		return []Op{{Kind: "rmtree", Dir: o.Dir}, {Kind: "mkdir", Dir: o.Dir}}
	}
	return []Op{o}
}
