package refmodel

import (
	"encoding/json"
	"fmt"
	"path/filepath"
	"reflect"
	"sort"
	"strings"

	oci "github.com/opencontainers/runtime-spec/specs-go"
	specs "tags.cncf.io/container-device-interface/specs-go"
)

// HostStat answers what device node lives at a host path.
type HostStat func(path string) (typ string, major, minor int64, err error)

// CopyOCI deep-copies an OCI spec (through JSON, which also maps empty slices to nil).
func CopyOCI(s *oci.Spec) *oci.Spec {
	if s == nil {
		return nil
	}
	b, err := json.Marshal(s)
	if err != nil {
		panic(err)
	}
	var c oci.Spec
	if err := json.Unmarshal(b, &c); err != nil {
		panic(err)
	}
	return &c
}

// CopyEdits deep-copies CDI container edits.
func CopyEdits(e *specs.ContainerEdits) *specs.ContainerEdits {
	if e == nil {
		return nil
	}
	b, _ := json.Marshal(e)
	var c specs.ContainerEdits
	_ = json.Unmarshal(b, &c)
	return &c
}

// ApplyEdits is the straight-line reference transformer written from the C03 statement.
// It works on a deep copy and never uses the OCI generator of the implementation.
func ApplyEdits(in *oci.Spec, e *specs.ContainerEdits, stat HostStat) (*oci.Spec, error) {
	s := CopyOCI(in)
	if e == nil {
		return s, nil
	}
	// environment: the last edit of a name wins, other variables keep their value
	if len(e.Env) > 0 {
		if s.Process == nil {
			s.Process = &oci.Process{}
		}
		for _, kv := range e.Env {
			name := kv
			if i := strings.IndexByte(kv, '='); i >= 0 {
				name = kv[:i]
			}
			replaced := false
			for i, old := range s.Process.Env {
				oname := old
				if j := strings.IndexByte(old, '='); j >= 0 {
					oname = old[:j]
				}
				if oname == name {
					s.Process.Env[i] = kv
					replaced = true
					break
				}
			}
			if !replaced {
				s.Process.Env = append(s.Process.Env, kv)
			}
		}
	}
	// device nodes
	for _, d := range e.DeviceNodes {
		host := d.HostPath
		if host == "" {
			host = d.Path
		}
		typ, major, minor := d.Type, d.Major, d.Minor
		if typ == "" || (major == 0 && typ != "p") {
			ht, hmaj, hmin, err := stat(host)
			if err != nil {
				return nil, fmt.Errorf("host node %s: %w", host, err)
			}
			if typ == "" {
				typ = ht
			} else if typ != ht {
				return nil, fmt.Errorf("host type mismatch")
			}
			if major == 0 && typ != "p" {
				major, minor = hmaj, hmin
			}
		}
		dev := oci.LinuxDevice{Path: d.Path, Type: typ, Major: major, Minor: minor, FileMode: d.FileMode, UID: d.UID, GID: d.GID}
		if dev.UID == nil && s.Process != nil && s.Process.User.UID > 0 {
			u := s.Process.User.UID
			dev.UID = &u
		}
		if dev.GID == nil && s.Process != nil && s.Process.User.GID > 0 {
			g := s.Process.User.GID
			dev.GID = &g
		}
		if s.Linux == nil {
			s.Linux = &oci.Linux{}
		}
		kept := s.Linux.Devices[:0:0]
		for _, old := range s.Linux.Devices {
			if old.Path != dev.Path {
				kept = append(kept, old)
			}
		}
		s.Linux.Devices = append(kept, dev)
		if typ == "b" || typ == "c" {
			access := d.Permissions
			if access == "" {
				access = "rwm"
			}
			if s.Linux.Resources == nil {
				s.Linux.Resources = &oci.LinuxResources{}
			}
			maj, min := major, minor
			s.Linux.Resources.Devices = append(s.Linux.Resources.Devices, oci.LinuxDeviceCgroup{Allow: true, Type: typ, Major: &maj, Minor: &min, Access: access})
		}
	}
	// mounts
	if len(e.Mounts) > 0 {
		for _, m := range e.Mounts {
			kept := s.Mounts[:0:0]
			for _, old := range s.Mounts {
				if old.Destination != m.ContainerPath {
					kept = append(kept, old)
				}
			}
			s.Mounts = append(kept, oci.Mount{Source: m.HostPath, Destination: m.ContainerPath, Options: m.Options, Type: m.Type})
		}
		depth := func(m oci.Mount) int { return strings.Count(filepath.Clean(m.Destination), "/") }
		// stable insertion sort by depth
		for i := 1; i < len(s.Mounts); i++ {
			for j := i; j > 0 && depth(s.Mounts[j]) < depth(s.Mounts[j-1]); j-- {
				s.Mounts[j], s.Mounts[j-1] = s.Mounts[j-1], s.Mounts[j]
			}
		}
	}
	// hooks
	for _, h := range e.Hooks {
		if s.Hooks == nil {
			s.Hooks = &oci.Hooks{}
		}
		oh := oci.Hook{Path: h.Path, Args: h.Args, Env: h.Env, Timeout: h.Timeout}
		switch h.HookName {
		case "prestart":
			s.Hooks.Prestart = append(s.Hooks.Prestart, oh)
		case "createRuntime":
			s.Hooks.CreateRuntime = append(s.Hooks.CreateRuntime, oh)
		case "createContainer":
			s.Hooks.CreateContainer = append(s.Hooks.CreateContainer, oh)
		case "startContainer":
			s.Hooks.StartContainer = append(s.Hooks.StartContainer, oh)
		case "poststart":
			s.Hooks.Poststart = append(s.Hooks.Poststart, oh)
		case "poststop":
			s.Hooks.Poststop = append(s.Hooks.Poststop, oh)
		default:
			return nil, fmt.Errorf("unknown hook stage")
		}
	}
	// RDT
	if e.IntelRdt != nil {
		if s.Linux == nil {
			s.Linux = &oci.Linux{}
		}
		s.Linux.IntelRdt = &oci.LinuxIntelRdt{ClosID: e.IntelRdt.ClosID, L3CacheSchema: e.IntelRdt.L3CacheSchema, MemBwSchema: e.IntelRdt.MemBwSchema,
			EnableCMT: e.IntelRdt.EnableCMT, EnableMBM: e.IntelRdt.EnableMBM}
	}
	// additional GIDs
	for _, g := range e.AdditionalGIDs {
		if g == 0 {
			continue
		}
		if s.Process == nil {
			s.Process = &oci.Process{}
		}
		dup := false
		for _, old := range s.Process.User.AdditionalGids {
			if old == g {
				dup = true
			}
		}
		if !dup {
			s.Process.User.AdditionalGids = append(s.Process.User.AdditionalGids, g)
		}
	}
	return s, nil
}

// Normalise maps nil and empty to the same thing (zero-valued optional sections become nil,
// empty slices/maps become nil) and sorts what the statement leaves unordered: environment
// entries by name, devices by path, additional GIDs numerically.
func Normalise(in *oci.Spec) *oci.Spec {
	s := CopyOCI(in)
	if s == nil {
		return nil
	}
	if s.Process != nil {
		sort.SliceStable(s.Process.Env, func(i, j int) bool { return envName(s.Process.Env[i]) < envName(s.Process.Env[j]) })
		g := s.Process.User.AdditionalGids
		sort.Slice(g, func(i, j int) bool { return g[i] < g[j] })
		if reflect.DeepEqual(*s.Process, oci.Process{}) {
			s.Process = nil
		}
	}
	if s.Linux != nil {
		sort.SliceStable(s.Linux.Devices, func(i, j int) bool { return s.Linux.Devices[i].Path < s.Linux.Devices[j].Path })
		if s.Linux.Resources != nil && reflect.DeepEqual(*s.Linux.Resources, oci.LinuxResources{}) {
			s.Linux.Resources = nil
		}
		if reflect.DeepEqual(*s.Linux, oci.Linux{}) {
			s.Linux = nil
		}
	}
	if s.Hooks != nil && reflect.DeepEqual(*s.Hooks, oci.Hooks{}) {
		s.Hooks = nil
	}
	return s
}

func envName(kv string) string {
	if i := strings.IndexByte(kv, '='); i >= 0 {
		return kv[:i]
	}
	return kv
}

// OCIEqual compares two OCI specs after normalisation; returns a description of the first
// differing top-level section.
func OCIEqual(a, b *oci.Spec) (bool, string) {
	na, nb := Normalise(a), Normalise(b)
	if reflect.DeepEqual(na, nb) {
		return true, ""
	}
	ja, _ := json.Marshal(na)
	jb, _ := json.Marshal(nb)
	if string(ja) == string(jb) {
		return true, ""
	}
	var ma, mb map[string]json.RawMessage
	_ = json.Unmarshal(ja, &ma)
	_ = json.Unmarshal(jb, &mb)
	var diffs []string
	for k, va := range ma {
		if string(mb[k]) != string(va) {
			diffs = append(diffs, k)
		}
	}
	for k := range mb {
		if _, ok := ma[k]; !ok {
			diffs = append(diffs, k)
		}
	}
	sort.Strings(diffs)
	return false, strings.Join(diffs, ",")
}
