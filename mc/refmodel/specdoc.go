package refmodel

import (
	specs "tags.cncf.io/container-device-interface/specs-go"
)

// SpecDoc renders the JSON document an in-memory Spec denotes, written by hand from the CDI
// specification and the member table of the pinned specs-go/config.go - NOT through the
// struct tags of the code under test (a changed tag must not change the reference with it).
// Required members are always present; optional members are present iff non-zero (non-nil
// for pointers, non-empty for lists and maps).
func SpecDoc(s *specs.Spec) map[string]any {
	d := map[string]any{"cdiVersion": s.Version, "kind": s.Kind}
	if len(s.Annotations) > 0 {
		d["annotations"] = strMap(s.Annotations)
	}
	if s.Devices == nil {
		d["devices"] = nil
	} else {
		devs := []any{}
		for _, dev := range s.Devices {
			dd := map[string]any{"name": dev.Name, "containerEdits": editsDoc(&dev.ContainerEdits)}
			if len(dev.Annotations) > 0 {
				dd["annotations"] = strMap(dev.Annotations)
			}
			devs = append(devs, dd)
		}
		d["devices"] = devs
	}
	d["containerEdits"] = editsDoc(&s.ContainerEdits) // a struct member: always present
	return d
}

func strMap(m map[string]string) map[string]any {
	o := map[string]any{}
	for k, v := range m {
		o[k] = v
	}
	return o
}

func strList(l []string) []any {
	o := []any{}
	for _, v := range l {
		o = append(o, v)
	}
	return o
}

func editsDoc(e *specs.ContainerEdits) map[string]any {
	d := map[string]any{}
	if len(e.Env) > 0 {
		d["env"] = strList(e.Env)
	}
	if len(e.DeviceNodes) > 0 {
		l := []any{}
		for _, n := range e.DeviceNodes {
			if n == nil {
				l = append(l, nil)
				continue
			}
			nd := map[string]any{"path": n.Path}
			if n.HostPath != "" {
				nd["hostPath"] = n.HostPath
			}
			if n.Type != "" {
				nd["type"] = n.Type
			}
			if n.Major != 0 {
				nd["major"] = n.Major
			}
			if n.Minor != 0 {
				nd["minor"] = n.Minor
			}
			if n.FileMode != nil {
				nd["fileMode"] = uint32(*n.FileMode)
			}
			if n.Permissions != "" {
				nd["permissions"] = n.Permissions
			}
			if n.UID != nil {
				nd["uid"] = *n.UID
			}
			if n.GID != nil {
				nd["gid"] = *n.GID
			}
			l = append(l, nd)
		}
		d["deviceNodes"] = l
	}
	if len(e.Hooks) > 0 {
		l := []any{}
		for _, h := range e.Hooks {
			if h == nil {
				l = append(l, nil)
				continue
			}
			hd := map[string]any{"hookName": h.HookName, "path": h.Path}
			if len(h.Args) > 0 {
				hd["args"] = strList(h.Args)
			}
			if len(h.Env) > 0 {
				hd["env"] = strList(h.Env)
			}
			if h.Timeout != nil {
				hd["timeout"] = *h.Timeout
			}
			l = append(l, hd)
		}
		d["hooks"] = l
	}
	if len(e.Mounts) > 0 {
		l := []any{}
		for _, m := range e.Mounts {
			if m == nil {
				l = append(l, nil)
				continue
			}
			md := map[string]any{"hostPath": m.HostPath, "containerPath": m.ContainerPath}
			if len(m.Options) > 0 {
				md["options"] = strList(m.Options)
			}
			if m.Type != "" {
				md["type"] = m.Type
			}
			l = append(l, md)
		}
		d["mounts"] = l
	}
	if e.IntelRdt != nil {
		r := map[string]any{}
		if e.IntelRdt.ClosID != "" {
			r["closID"] = e.IntelRdt.ClosID
		}
		if e.IntelRdt.L3CacheSchema != "" {
			r["l3CacheSchema"] = e.IntelRdt.L3CacheSchema
		}
		if e.IntelRdt.MemBwSchema != "" {
			r["memBwSchema"] = e.IntelRdt.MemBwSchema
		}
		if e.IntelRdt.EnableCMT {
			r["enableCMT"] = true
		}
		if e.IntelRdt.EnableMBM {
			r["enableMBM"] = true
		}
		d["intelRdt"] = r
	}
	if len(e.AdditionalGIDs) > 0 {
		l := []any{}
		for _, g := range e.AdditionalGIDs {
			l = append(l, g)
		}
		d["additionalGids"] = l
	}
	return d
}
