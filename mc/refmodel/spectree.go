package refmodel

import (
	"fmt"
	"math"
	"strings"
)

type M = map[string]any
type L = []any

// Member types of the CDI document model (SPEC.md), by node type.
//   str, bool, int64, uint32, int  scalars
//   ann                          map string->string (annotations)
//   obj:<node>                   object of node type
//   list:<elem>                  list; elem is a scalar type or obj:<node>; "ptr:" marks lists
//                                whose null entries the statement names explicitly
var Schema = map[string]map[string]string{
	"spec":    {"cdiVersion": "str", "kind": "str", "annotations": "ann", "devices": "list:obj:device", "containerEdits": "obj:edits"},
	"device":  {"name": "str", "annotations": "ann", "containerEdits": "obj:edits"},
	"edits":   {"env": "list:str", "deviceNodes": "list:ptr:obj:devnode", "hooks": "list:ptr:obj:hook", "mounts": "list:ptr:obj:mount", "intelRdt": "obj:rdt", "additionalGids": "list:uint32"},
	"devnode": {"path": "str", "hostPath": "str", "type": "str", "major": "int64", "minor": "int64", "fileMode": "uint32", "permissions": "str", "uid": "uint32", "gid": "uint32"},
	"hook":    {"hookName": "str", "path": "str", "args": "list:str", "env": "list:str", "timeout": "int"},
	"mount":   {"hostPath": "str", "containerPath": "str", "options": "list:str", "type": "str"},
	"rdt":     {"closID": "str", "l3CacheSchema": "str", "memBwSchema": "str", "enableCMT": "bool", "enableMBM": "bool"},
}

var Released = map[string]bool{"0.1.0": true, "0.2.0": true, "0.3.0": true, "0.4.0": true, "0.5.0": true, "0.6.0": true, "0.7.0": true, "0.8.0": true, "1.0.0": true}

var HookStages = map[string]bool{"prestart": true, "createRuntime": true, "createContainer": true, "startContainer": true, "poststart": true, "poststop": true}

const (
	Valid       = "valid"
	Invalid     = "invalid"
	Unspecified = "unspecified" // the statement does not settle this document (e.g. null for an optional member)
)

type treeV struct {
	reasons []string
	unspec  []string
}

func (v *treeV) bad(format string, a ...any) { v.reasons = append(v.reasons, fmt.Sprintf(format, a...)) }
func (v *treeV) unsp(format string, a ...any) {
	v.unspec = append(v.unspec, fmt.Sprintf(format, a...))
}

// IntInRange reports whether x is an integral number inside the Go type's range.
func IntInRange(x any, typ string) (ok bool, isNumber bool) {
	var f float64
	switch n := x.(type) {
	case int:
		f = float64(n)
	case int64:
		switch typ {
		case "uint32":
			return n >= 0 && n <= math.MaxUint32, true
		default:
			return true, true
		}
	case uint64:
		switch typ {
		case "uint32":
			return n <= math.MaxUint32, true
		default:
			return n <= math.MaxInt64, true
		}
	case float64:
		f = n
		if f != math.Trunc(f) || math.IsInf(f, 0) || math.IsNaN(f) {
			return false, true
		}
		switch typ {
		case "uint32":
			return f >= 0 && f <= math.MaxUint32, true
		default:
			return f >= -9223372036854775808.0 && f < 9223372036854775808.0, true
		}
	default:
		return false, false
	}
	switch typ {
	case "uint32":
		return f >= 0 && f <= math.MaxUint32, true
	}
	return true, true
}

// checkType validates the shape of value against typ, recursing through the schema.
func (v *treeV) checkType(path string, value any, typ string) {
	if value == nil {
		v.unsp("%s is null", path)
		return
	}
	switch {
	case typ == "str":
		switch value.(type) {
		case string:
		case int, int64, uint64, float64, bool:
			// the YAML-superset reader may legitimately turn a scalar into a string
			v.unsp("%s: scalar of another type where a string is expected", path)
		default:
			v.bad("%s: not a string", path)
		}
	case typ == "bool":
		if _, ok := value.(bool); !ok {
			v.bad("%s: not a boolean", path)
		}
	case typ == "int64" || typ == "uint32" || typ == "int":
		ok, num := IntInRange(value, typ)
		if !num {
			v.bad("%s: not a number", path)
		} else if !ok {
			v.bad("%s: not an integer in range of %s", path, typ)
		}
	case typ == "ann":
		m, ok := value.(M)
		if !ok {
			v.bad("%s: annotations not an object", path)
			return
		}
		for k, e := range m {
			if e == nil {
				v.unsp("%s.%s null annotation value", path, k)
			} else if _, ok := e.(string); !ok {
				switch e.(type) {
				case M, L:
					v.bad("%s.%s: annotation value not a string", path, k)
				default:
					v.unsp("%s.%s: scalar annotation value of another type", path, k)
				}
			}
		}
	case strings.HasPrefix(typ, "obj:"):
		node := strings.TrimPrefix(typ, "obj:")
		m, ok := value.(M)
		if !ok {
			v.bad("%s: not an object", path)
			return
		}
		for k, e := range m {
			mt, known := Schema[node][k]
			if !known {
				v.bad("%s: unknown member %q", path, k)
				continue
			}
			v.checkType(path+"."+k, e, mt)
		}
	case strings.HasPrefix(typ, "list:"):
		elem := strings.TrimPrefix(typ, "list:")
		l, ok := value.(L)
		if !ok {
			v.bad("%s: not a list", path)
			return
		}
		ptr := strings.HasPrefix(elem, "ptr:")
		elem = strings.TrimPrefix(elem, "ptr:")
		for i, e := range l {
			ep := fmt.Sprintf("%s[%d]", path, i)
			if e == nil {
				if ptr {
					v.bad("%s: null list entry", ep)
				} else if path == "devices" || strings.HasSuffix(path, ".env") {
					v.bad("%s: null list entry", ep) // a null device has no name; a null env entry is an empty string
				} else {
					v.unsp("%s null entry", ep)
				}
				continue
			}
			v.checkType(ep, e, elem)
		}
	}
}

func str(m M, k string) string {
	s, _ := m[k].(string)
	return s
}

func list(m M, k string) L {
	l, _ := m[k].(L)
	return l
}

func (v *treeV) env(path string, l L) {
	for i, e := range l {
		s, ok := e.(string)
		if !ok {
			continue // reported by checkType
		}
		if strings.IndexByte(s, '=') <= 0 {
			v.bad("%s[%d]: env entry %q is not NAME=value", path, i, s)
		}
	}
}

func (v *treeV) annotations(path string, a any) (size int) {
	m, ok := a.(M)
	if !ok {
		return 0
	}
	total := 0
	for k, e := range m {
		if r := K8sAnnotationKey(strings.ToLower(k)); r != "" {
			v.bad("%s: annotation key %q invalid (%s)", path, k, r)
		}
		s, _ := e.(string)
		total += len(k) + len(s)
	}
	if total > 256*1024 {
		v.bad("%s: annotations too large (%d)", path, total)
	}
	return len(m)
}

// edits validates one containerEdits object; returns whether it is empty.
func (v *treeV) edits(path string, e any) (empty bool) {
	m, ok := e.(M)
	if !ok {
		return true
	}
	v.env(path+".env", list(m, "env"))
	for i, d := range list(m, "deviceNodes") {
		dm, ok := d.(M)
		if !ok {
			continue
		}
		p := fmt.Sprintf("%s.deviceNodes[%d]", path, i)
		if str(dm, "path") == "" {
			v.bad("%s: empty device path", p)
		}
		switch str(dm, "type") {
		case "", "b", "c", "u", "p":
		default:
			if _, isStr := dm["type"].(string); isStr {
				v.bad("%s: invalid device type", p)
			}
		}
		for _, c := range str(dm, "permissions") {
			if c != 'r' && c != 'w' && c != 'm' {
				v.bad("%s: invalid permissions", p)
				break
			}
		}
	}
	for i, h := range list(m, "hooks") {
		hm, ok := h.(M)
		if !ok {
			continue
		}
		p := fmt.Sprintf("%s.hooks[%d]", path, i)
		if _, isStr := hm["hookName"].(string); isStr || hm["hookName"] == nil {
			if !HookStages[str(hm, "hookName")] {
				v.bad("%s: unknown hook stage %q", p, str(hm, "hookName"))
			}
		}
		if str(hm, "path") == "" {
			v.bad("%s: empty hook path", p)
		}
		v.env(p+".env", list(hm, "env"))
	}
	for i, mt := range list(m, "mounts") {
		mm, ok := mt.(M)
		if !ok {
			continue
		}
		p := fmt.Sprintf("%s.mounts[%d]", path, i)
		if str(mm, "hostPath") == "" {
			v.bad("%s: empty mount host path", p)
		}
		if str(mm, "containerPath") == "" {
			v.bad("%s: empty mount container path", p)
		}
	}
	if r, ok := m["intelRdt"].(M); ok {
		id := str(r, "closID")
		if id == "" {
			v.unsp("%s.intelRdt: empty closID", path)
		}
		if len(id) >= 4096 || id == "." || id == ".." || strings.ContainsAny(id, "/\n") {
			v.bad("%s.intelRdt: closID is not a legal file name", path)
		}
	}
	empty = len(list(m, "env")) == 0 && len(list(m, "deviceNodes")) == 0 && len(list(m, "hooks")) == 0 &&
		len(list(m, "mounts")) == 0 && len(list(m, "additionalGids")) == 0 && m["intelRdt"] == nil
	return empty
}

func verLess(a, b string) bool { // both "0.N.0"/"1.0.0" released strings
	order := []string{"0.1.0", "0.2.0", "0.3.0", "0.4.0", "0.5.0", "0.6.0", "0.7.0", "0.8.0", "1.0.0"}
	ia, ib := -1, -1
	for i, o := range order {
		if o == a {
			ia = i
		}
		if o == b {
			ib = i
		}
	}
	return ia < ib
}

// SpecTree decides whether a document tree is a well-formed CDI Spec per the C05 statement.
// minVersion is the statement's minimum version function for the tree.
func SpecTree(doc any, minVersion func(M) string) (verdict string, reasons []string) {
	v := &treeV{}
	t, ok := doc.(M)
	if !ok {
		return Invalid, []string{"document is not an object"}
	}
	v.checkType("", t, "obj:spec")

	ver, verIsStr := t["cdiVersion"].(string)
	if _, present := t["cdiVersion"]; !present {
		v.bad("cdiVersion missing")
	} else if verIsStr {
		if !Released[ver] {
			if bare := strings.TrimPrefix(ver, "v"); strings.HasPrefix(ver, "v") && Released[bare] {
				if min := minVersion(t); verLess(bare, min) {
					// read as the released version it spells, it is too old; read as written, it is no
					// released version: rejected either way
					v.bad("cdiVersion %s is no released version, and older than required %s without its prefix", ver, min)
				} else {
					v.unsp("v-prefixed version")
				}
			} else {
				v.bad("cdiVersion %q is not a released version", ver)
			}
		} else if min := minVersion(t); verLess(ver, min) {
			v.bad("cdiVersion %s older than required %s", ver, min)
		}
	}
	kind, kindIsStr := t["kind"].(string)
	if _, present := t["kind"]; !present {
		v.bad("kind missing")
	} else if kindIsStr {
		i := strings.IndexByte(kind, '/')
		if i < 0 {
			v.bad("kind %q has no '/'", kind)
		} else {
			if r := VendorOrClass(kind[:i]); r != "" {
				v.bad("kind %q: bad vendor (%s)", kind, r)
			}
			if r := VendorOrClass(kind[i+1:]); r != "" {
				v.bad("kind %q: bad class (%s)", kind, r)
			}
		}
	}
	v.annotations("annotations", t["annotations"])
	v.edits("containerEdits", t["containerEdits"])

	devs, devsIsList := t["devices"].(L)
	if _, present := t["devices"]; !present {
		v.bad("devices missing")
	} else if devsIsList && len(devs) == 0 {
		v.bad("devices empty")
	}
	if t["devices"] == nil {
		if _, present := t["devices"]; present {
			// devices: null leaves the Spec without devices: a definite defect, not an unspecified one
			v.bad("devices null")
		}
	}
	seen := map[string]bool{}
	for i, d := range devs {
		dm, ok := d.(M)
		if !ok {
			continue
		}
		p := fmt.Sprintf("devices[%d]", i)
		name, nameIsStr := dm["name"].(string)
		if _, present := dm["name"]; !present {
			v.bad("%s: name missing", p)
		} else if nameIsStr {
			if r := DeviceName(name); r != "" {
				v.bad("%s: invalid device name %q (%s)", p, name, r)
			}
			if seen[name] {
				v.bad("%s: duplicate device name %q", p, name)
			}
			seen[name] = true
		}
		v.annotations(p+".annotations", dm["annotations"])
		if _, present := dm["containerEdits"]; !present {
			v.bad("%s: containerEdits missing (empty edits)", p)
		} else if v.edits(p+".containerEdits", dm["containerEdits"]) {
			if _, isObj := dm["containerEdits"].(M); isObj {
				v.bad("%s: empty device edits", p)
			}
		}
	}
	if len(v.reasons) > 0 {
		return Invalid, v.reasons
	}
	if len(v.unspec) > 0 {
		return Unspecified, v.unspec
	}
	return Valid, nil
}
