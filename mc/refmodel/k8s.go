package refmodel

import "strings"

// K8sAnnotationKey implements the Kubernetes "qualified name" rule for annotation keys:
// [prefix "/"] name; name: 1..63 bytes, alnum ([A-Za-z0-9_.-]* alnum)?; prefix: 1..253 bytes,
// dot-separated DNS labels [a-z0-9]([a-z0-9-]*[a-z0-9])?. Returns "" when valid.
func K8sAnnotationKey(key string) string {
	parts := strings.Split(key, "/")
	var name string
	switch len(parts) {
	case 1:
		name = parts[0]
	case 2:
		prefix := parts[0]
		name = parts[1]
		if prefix == "" {
			return "empty-prefix"
		}
		if len(prefix) > 253 {
			return "prefix-too-long"
		}
		for _, label := range strings.Split(prefix, ".") {
			if label == "" {
				return "prefix-empty-label"
			}
			for i := 0; i < len(label); i++ {
				b := label[i]
				ok := (b >= 'a' && b <= 'z') || isDigit(b) || (b == '-' && i > 0 && i < len(label)-1)
				if !ok {
					return "prefix-bad-char"
				}
			}
		}
	default:
		return "too-many-slashes"
	}
	if name == "" {
		return "empty-name"
	}
	if len(name) > 63 {
		return "name-too-long"
	}
	if !isAlnum(name[0]) || !isAlnum(name[len(name)-1]) {
		return "name-ends"
	}
	for i := 1; i < len(name)-1; i++ {
		b := name[i]
		if !(isAlnum(b) || b == '_' || b == '-' || b == '.') {
			return "name-bad-char"
		}
	}
	return ""
}
