// Package refmodel holds the deliberately naive reference models the oracles compare the
// implementation against. Nothing here imports the code under test.
package refmodel

import "strings"

func isLetter(b byte) bool { return (b >= 'A' && b <= 'Z') || (b >= 'a' && b <= 'z') }
func isDigit(b byte) bool  { return b >= '0' && b <= '9' }
func isAlnum(b byte) bool  { return isLetter(b) || isDigit(b) }

// VendorOrClass: letter ( [A-Za-z0-9_.-]* alnum )?   over bytes. Returns "" when valid,
// else a reason code.
func VendorOrClass(s string) string {
	if s == "" {
		return "empty"
	}
	if !isLetter(s[0]) {
		return "first"
	}
	if len(s) == 1 {
		return ""
	}
	for i := 1; i < len(s)-1; i++ {
		b := s[i]
		if !(isAlnum(b) || b == '_' || b == '-' || b == '.') {
			return "mid"
		}
	}
	if !isAlnum(s[len(s)-1]) {
		return "last"
	}
	return ""
}

// DeviceName: alnum ( [A-Za-z0-9_.:-]* alnum )?
func DeviceName(s string) string {
	if s == "" {
		return "empty"
	}
	if !isAlnum(s[0]) {
		return "first"
	}
	if len(s) == 1 {
		return ""
	}
	for i := 1; i < len(s)-1; i++ {
		b := s[i]
		if !(isAlnum(b) || b == '_' || b == '-' || b == '.' || b == ':') {
			return "mid"
		}
	}
	if !isAlnum(s[len(s)-1]) {
		return "last"
	}
	return ""
}

// Qualified decides vendor/class=name. The decomposition is unique: vendor and class can
// contain neither '/' nor '=', so vendor ends at the first '/' and class at the first '='.
// reason is "" iff accepted.
func Qualified(s string) (vendor, class, name, reason string) {
	eq := strings.IndexByte(s, '=')
	if eq < 0 {
		return "", "", "", "no-eq"
	}
	q, n := s[:eq], s[eq+1:]
	sl := strings.IndexByte(q, '/')
	if sl < 0 {
		return "", "", "", "no-slash"
	}
	v, c := q[:sl], q[sl+1:]
	if r := VendorOrClass(v); r != "" {
		return "", "", "", "vendor-" + r
	}
	if r := VendorOrClass(c); r != "" {
		return "", "", "", "class-" + r
	}
	if r := DeviceName(n); r != "" {
		return "", "", "", "name-" + r
	}
	return v, c, n, ""
}

// Shape abstracts a string to its byte classes (for failure signatures).
func Shape(s string) string {
	var b strings.Builder
	for i := 0; i < len(s); i++ {
		c := s[i]
		switch {
		case isLetter(c):
			b.WriteByte('L')
		case isDigit(c):
			b.WriteByte('D')
		case c == '/' || c == '=' || c == '_' || c == '-' || c == '.' || c == ':' || c == ',' || c == ' ':
			b.WriteByte(c)
		case c < 0x20 || c == 0x7f:
			b.WriteByte('^')
		case c >= 0x80:
			b.WriteByte('~')
		default:
			b.WriteByte('?')
		}
	}
	return b.String()
}
