#!/bin/bash
# Offline setup after a fresh restore: warm the Go build cache and pre-build every check binary.
. "$(dirname "$(realpath "$0")")/mc/goenv.sh"
ROOT=$(dirname "$(realpath "$0")")
cd "$ROOT/mc" || exit 1
mkdir -p "$ROOT/.bin" "$ROOT/evidence" "$ROOT/replays"
rc=0
for d in checks/c[0-9][0-9]/; do   # helper binaries (c10helper, c11real, c12race, c13faults) are built by their check's build.sh
  c=$(basename "$d")
  if [ -x "$d/build.sh" ]; then "$d/build.sh" || rc=1
  else go build -o "$ROOT/.bin/$c" "./$d" || rc=1; fi
done
exit $rc
