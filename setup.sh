#!/bin/bash
# Offline setup after a fresh restore: warm the Go build cache and pre-build every check binary.
export GOFLAGS=-mod=mod GOPROXY=off GOSUMDB=off GOTOOLCHAIN=local
cd /verif/mc || exit 1
mkdir -p /verif/.bin /verif/evidence /verif/replays
rc=0
for d in checks/*/; do
  c=$(basename "$d")
  if [ -x "$d/build.sh" ]; then "$d/build.sh" || rc=1
  else go build -o "/verif/.bin/$c" "./$d" || rc=1; fi
done
exit $rc
